import Mathlib.Data.Fintype.Card
import Mathlib.Logic.Equiv.Defs
import Mathlib.Data.Fintype.Perm

/-- counting a predicate along a permutation: the number of sorted positions `k ≤ e`
whose element is a target equals the number of original indices `j` that are targets
and whose rank `σ⁻¹ j` is at most `e`. -/
theorem count_along_perm {n : ℕ} (σ : Equiv.Perm (Fin n)) (t : Fin n → Bool) (e : ℕ) :
    Fintype.card {k : Fin n // k.val ≤ e ∧ t (σ k) = true}
      = Fintype.card {j : Fin n // (σ.symm j).val ≤ e ∧ t j = true} := by
  apply Fintype.card_congr
  refine ⟨fun ⟨k, hk⟩ => ⟨σ k, by simpa using hk⟩, fun ⟨j, hj⟩ => ⟨σ.symm j, by simpa using hj⟩, ?_, ?_⟩
  · intro ⟨k, hk⟩; simp
  · intro ⟨j, hj⟩; simp
