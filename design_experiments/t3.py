import numpy as np, pandas as pd, traceback
from mokapot.dataset import OnDiskPsmDataset
def mk(spec_df, cols):
    d=OnDiskPsmDataset.__new__(OnDiskPsmDataset)
    d.spectra_dataframe=spec_df; d.spectrum_columns=cols
    return d
rng=np.random.default_rng(1)
# skewed multiplicities: 3 spectra sizes 1,1,8 folds=3
df=pd.DataFrame({"scan":[1,2]+[3]*8,"mass":[1.0,2.0]+[3.0]*8})
for folds in (2,3):
    try:
        print(folds,[list(x) for x in mk(df.copy(),["scan","mass"])._split(folds,rng)])
    except Exception as e: print(folds,'ERR',type(e).__name__,e)
# one spectrum column
try:
    print([list(x) for x in mk(df.copy(),["scan"])._split(2,rng)])
except Exception as e: print('1col ERR',type(e).__name__,e)
# many spectra
df=pd.DataFrame({"scan":np.arange(20)//2,"mass":(np.arange(20)//2)*1.0})
print([sorted(x) for x in mk(df.copy(),["scan","mass"])._split(3,rng)])
# qvality alignment
from mokapot.peps import peps_from_scores
r=np.random.default_rng(0)
sc=np.concatenate([r.normal(3,1,200),r.normal(0,1,300),r.normal(0,1,500)]); tg=np.array([True]*500+[False]*500)
perm=r.permutation(1000)
p1=peps_from_scores(sc,tg,"qvality"); p2=peps_from_scores(sc[perm],tg[perm],"qvality")
print('qvality aligned under permutation?', np.allclose(p1[perm],p2), 'sorted-desc input == result order?', np.allclose(np.sort(p1),p1))
o=np.argsort(-sc); p3=peps_from_scores(sc[o],tg[o],"qvality"); print('presorted monotone', np.all(np.diff(p3)>=0))
for alg in ("kde_nnls","hist_nnls"):
    try:
        p1=peps_from_scores(sc,tg,alg); p2=peps_from_scores(sc[perm],tg[perm],alg); print(alg,'aligned',np.allclose(p1[perm],p2), p1.min(),p1.max())
    except Exception as e: print(alg,'ERR',type(e).__name__,e)
