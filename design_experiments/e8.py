# tdc composition (desc=True): from numpy contracts + _fdr2qvalue contract to the sorted-domain postcondition
from z3 import *
import time
I=IntSort(); R=RealSort()
n,m=Ints('n m')
S=Array('S',I,R); fdr=Array('fdr',I,R); U=Array('U',I,R); C=Array('C',I,I)
F=Array('F',I,R); Q=Array('Q',I,R); qs=Array('qs',I,R)
startA=Function('startA',I,I); grp=Function('grp',I,I); runmin=Function('runmin',I,R); wj=Function('wj',I,I)
k,e,p,g,j,a,b=Ints('k e p g j a b')
def A(vs,body,pats): return ForAll(vs,body,patterns=pats)
hyp=[ n>=1, m>=1,
 A([k],Implies(And(0<=k,k<n-1), S[k]>=S[k+1]),[S[k+1]]),                       # sorted best-first
 startA(0)==0, startA(m)==n,
 A([g],Implies(And(0<=g,g<m), And(C[g]>=1, startA(g+1)==startA(g)+C[g])),[startA(g+1)]),
 A([a,b],Implies(And(0<=a,a<=b,b<=m), startA(a)<=startA(b)),[MultiPattern(startA(a),startA(b))]),  # lemma (proved separately)
 A([g],Implies(And(0<=g,g<m-1), U[g]<U[g+1]),[U[g+1]]),                          # unique: strictly ascending
 A([a,b],Implies(And(0<=a,a<b,b<m), U[a]<U[b]),[MultiPattern(U[a],U[b])]),     # lemma (transitivity, proved separately)
 A([p],Implies(And(0<=p,p<n), And(0<=grp(p),grp(p)<m, startA(grp(p))<=p, p<startA(grp(p)+1))),[grp(p)]),   # ghost group-of (lemma)
 A([p],Implies(And(0<=p,p<n), S[n-1-p]==U[grp(p)]),[grp(p)]),                   # np.unique run contract on monotone input (flipped)
 A([p],Implies(And(0<=p,p<n), F[p]==fdr[n-1-p]),[F[p]]),                          # np.flip
 # _fdr2qvalue postcondition
 A([p],Implies(And(0<=p,p<n), Q[p]==runmin(grp(p))),[Q[p]]),
 A([g],Implies(And(0<=g,g<m), runmin(g)<=1),[runmin(g)]),
 A([g,j],Implies(And(0<=j,j<=g,g<m), runmin(g)<=F[startA(j)]),[MultiPattern(runmin(g),startA(j))]),
 A([g],Implies(And(0<=g,g<m), Or(runmin(g)==1, And(0<=wj(g),wj(g)<=g, runmin(g)==F[startA(wj(g))]))),[runmin(g)]),
 A([k],Implies(And(0<=k,k<n), qs[k]==Q[n-1-k]),[qs[k]]),                          # final flip
]
def isEnd(e): return Or(e==n-1, S[e]!=S[e+1])
K=Int('K'); E=Int('E')
def mk():
    s=Solver(); s.set('timeout',30000); s.set('auto_config',False); s.set('smt.mbqi',False); s.add(*hyp); return s
# (A)
s=mk(); s.add(0<=K,K<n, Not(qs[K]<=1)); t=time.time(); print('A',s.check(),round(time.time()-t,3))
# (B)
s=mk(); s.add(0<=K,K<n, K<=E,E<n, isEnd(E), Not(qs[K]<=fdr[E]))
# hints (ghost terms the generator would introduce): group of E's flipped position, and E+1's
s.add(grp(n-1-E)==grp(n-1-E), grp(n-1-K)==grp(n-1-K), Implies(E<n-1, grp(n-1-(E+1))==grp(n-1-(E+1))))
t=time.time(); print('B',s.check(),round(time.time()-t,3))
# (C)
ew=n-1-startA(wj(grp(n-1-K)))
s=mk(); s.add(0<=K,K<n, Not(Or(qs[K]==1, And(K<=ew, ew<n, isEnd(ew), qs[K]==fdr[ew]))))
s.add(Implies(startA(wj(grp(n-1-K)))>0, grp(startA(wj(grp(n-1-K)))-1)==grp(startA(wj(grp(n-1-K)))-1)), grp(startA(wj(grp(n-1-K))))==grp(startA(wj(grp(n-1-K)))))
t=time.time(); print('C',s.check(),round(time.time()-t,3))
print('--- with grp-monotone lemma and explicit instance hints')
lem_grp=A([a,b],Implies(And(0<=a,a<=b,b<n), grp(a)<=grp(b)),[MultiPattern(grp(a),grp(b))])
def mk2(mb=False):
    s=Solver(); s.set('timeout',30000)
    if not mb: s.set('auto_config',False); s.set('smt.mbqi',False)
    s.add(*hyp); s.add(lem_grp); return s
for mb in (False,True):
    pe=n-1-E; pK=n-1-K
    s=mk2(mb); s.add(0<=K,K<n, K<=E,E<n, isEnd(E), Not(qs[K]<=fdr[E]))
    s.add(grp(pe)==grp(pe), grp(pK)==grp(pK), Implies(E<n-1, grp(pe-1)==grp(pe-1)), startA(grp(pe))==startA(grp(pe)), F[pe]==F[pe], Q[pK]==Q[pK])
    t=time.time(); print('B mbqi' if mb else 'B ematch',s.check(),round(time.time()-t,3))
    g0=grp(pK); sw=startA(wj(g0)); ew=n-1-sw
    s=mk2(mb); s.add(0<=K,K<n, Not(Or(qs[K]==1, And(K<=ew, ew<n, isEnd(ew), qs[K]==fdr[ew]))))
    s.add(Q[pK]==Q[pK], F[sw]==F[sw], grp(sw)==grp(sw), Implies(sw>0, grp(sw-1)==grp(sw-1)), startA(g0)==startA(g0), startA(wj(g0)+1)==startA(wj(g0)+1))
    t=time.time(); print('C mbqi' if mb else 'C ematch',s.check(),round(time.time()-t,3))
