from z3 import *
import subprocess, time
Row=DeclareSort('Row'); SR=SeqSort(Row)
sink,buf,all0=Consts('sink buf all0',SR); bs=Int('bs')
inv=lambda sink,buf: Concat(sink,buf)==all0
sink2=Concat(sink,SubSeq(buf,0,bs)); buf2=SubSeq(buf,bs,Length(buf)-bs)
s=Solver(); s.set('timeout',20000); s.add(bs>=2, inv(sink,buf), Length(buf)>=bs, Not(inv(sink2,buf2)))
t=time.time(); print('z3 preserve',s.check(),round(time.time()-t,2))
open('e11.smt2','w').write('(set-logic ALL)\n'+s.to_smt2())
t=time.time(); r=subprocess.run(['cvc5','--strings-exp','--tlimit=20000','e11.smt2'],capture_output=True,text=True); print('cvc5',r.stdout.strip(),round(time.time()-t,2))
# mutant: buffer' = buf[bs+1:]  (drops a row)
buf3=SubSeq(buf,bs+1,Length(buf)-bs-1)
s=Solver(); s.set('timeout',20000); s.add(bs>=2, inv(sink,buf), Length(buf)>=bs, Not(inv(sink2,buf3))); print('mutant',s.check())
# finalize: force flush => sink == all, buffer empty
s=Solver(); s.add(inv(sink,buf), Length(buf)<bs, Length(buf)>0, Not(Concat(sink,buf)==all0)); print('force',s.check())
