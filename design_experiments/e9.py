from z3 import *
import time
I=IntSort(); R=RealSort(); AI=ArraySort(I,I)
k=Int('k'); seq=Array('seq',I,ArraySort(I,R)); ln=Array('ln',I,I)
def state(sfx):
    return dict(c=Array('c'+sfx,I,I), T=Int('T'+sfx), src=Array('src'+sfx,I,I), pos=Array('pos'+sfx,I,I), when=Array('when'+sfx,I,AI))
i,p,t=Ints('i p t')
pre=And(k>=1, ForAll([i],Implies(And(0<=i,i<k), ln[i]>=1),patterns=[ln[i]]),
        ForAll([i,p],Implies(And(0<=i,i<k,0<=p,p+1<ln[i]), seq[i][p]>=seq[i][p+1]),patterns=[seq[i][p+1]]))
def out(s,t): return seq[s['src'][t]][s['pos'][t]]
def inv(s):
    c,T,src,pos,when=s['c'],s['T'],s['src'],s['pos'],s['when']
    return {
     'I1': ForAll([i],Implies(And(0<=i,i<k), And(0<=c[i],c[i]<=ln[i])),patterns=[c[i]]),
     'I0': T>=0,
     'I2': ForAll([t],Implies(And(0<=t,t<T), And(0<=src[t],src[t]<k,0<=pos[t],pos[t]<c[src[t]], when[src[t]][pos[t]]==t)),patterns=[src[t]]),
     'I3': ForAll([i,p],Implies(And(0<=i,i<k,0<=p,p<c[i]), And(0<=when[i][p],when[i][p]<T, src[when[i][p]]==i, pos[when[i][p]]==p)),patterns=[when[i][p]]),
     'I4': Implies(T>0, ForAll([i],Implies(And(0<=i,i<k,c[i]<ln[i]), seq[i][c[i]]<=out(s,T-1)),patterns=[c[i]])),
     'I5': ForAll([t],Implies(And(0<t,t<T), out(s,t)<=out(s,t-1)),patterns=[src[t]]),
    }
s0=state('0'); s1=state('1')
K=Int('K')
pick=And(0<=K,K<k, s0['c'][K]<ln[K], ForAll([i],Implies(And(0<=i,i<k,s0['c'][i]<ln[i]), seq[i][s0['c'][i]]<=seq[K][s0['c'][K]]),patterns=[s0['c'][i]]))
step=And(s1['T']==s0['T']+1, s1['c']==Store(s0['c'],K,s0['c'][K]+1), s1['src']==Store(s0['src'],s0['T'],K), s1['pos']==Store(s0['pos'],s0['T'],s0['c'][K]),
         s1['when']==Store(s0['when'],K,Store(s0['when'][K],s0['c'][K],s0['T'])))
for nm,g in inv(s1).items():
    s=Solver(); s.set('timeout',30000); s.set('auto_config',False); s.set('smt.mbqi',False)
    s.add(pre,*inv(s0).values(),pick,step,Not(g)); tt=time.time(); print(nm,s.check(),round(time.time()-tt,3))
# exit: all exhausted -> every (i,p) emitted exactly once
s=Solver(); s.set('auto_config',False); s.set('smt.mbqi',False)
done=ForAll([i],Implies(And(0<=i,i<k), Not(s0['c'][i]<ln[i])),patterns=[s0['c'][i]])
post=ForAll([i,p],Implies(And(0<=i,i<k,0<=p,p<ln[i]), And(0<=s0['when'][i][p], s0['when'][i][p]<s0['T'], s0['src'][s0['when'][i][p]]==i, s0['pos'][s0['when'][i][p]]==p)))
s.add(pre,*inv(s0).values(),done,Not(post)); print('post onto:',s.check())
