import numpy as np, pandas as pd, warnings, os, shutil
warnings.filterwarnings("ignore")
from pathlib import Path
import pyarrow as pa
def make_ds(df, path, label="Label"):
    import mokapot
    from mokapot import OnDiskPsmDataset
    path=Path(path)
    if path.suffix==".parquet": df.to_parquet(path,index=False)
    else: df.to_csv(path,sep="\t",index=False)
    feats=[c for c in df.columns if c.startswith("f")]
    spec=df[["ScanNr","ExpMass",label]].copy()
    from mokapot.utils import convert_targets_column
    spec=convert_targets_column(spec,label)
    meta=["SpecId",label,"ScanNr","ExpMass","Peptide","Proteins"]
    types={"SpecId":"int",label:"int","ScanNr":"int","ExpMass":"float","Peptide":"string","Proteins":"string"}
    if path.suffix==".parquet":
        types={"SpecId":pa.int64(),label:pa.int64(),"ScanNr":pa.int64(),"ExpMass":pa.float64(),"Peptide":pa.string(),"Proteins":pa.string()}
    return OnDiskPsmDataset(filename=path,columns=list(df.columns),target_column=label,spectrum_columns=["ScanNr","ExpMass"],
        peptide_column="Peptide",protein_column="Proteins",feature_columns=feats,metadata_columns=meta,
        metadata_column_types=[types[m] for m in meta],level_columns=["Peptide"],filename_column=None,scan_column="ScanNr",
        specId_column="SpecId",calcmass_column=None,expmass_column="ExpMass",rt_column=None,charge_column=None,spectra_dataframe=spec)
def small_df(n_spec=60, dup=2, seed=0, labels=(1,-1)):
    rng=np.random.default_rng(seed); rows=[]
    sid=0
    for s in range(n_spec):
        for d in range(dup):
            tgt = (s+d)%2==0
            rows.append(dict(SpecId=sid,Label=labels[0] if tgt else labels[1],ScanNr=s,ExpMass=100.0+s,
                             f0=rng.normal(2.5 if tgt and s%3 else 0,1),f1=rng.normal(0,1),Peptide=f"PEP{(s*7+d)%40}K",Proteins=f"prot{s%5}"))
            sid+=1
    return pd.DataFrame(rows)
