from z3 import *
import time, subprocess
F=DeclareSort('Field'); SF=SeqSort(F)
elements=Const('elements',SF)
idx,ncol=Ints('idx ncol')
joinp=Function('joinp',SF,F)
nprot=Length(elements)-ncol
pend=idx+nprot+1
def sl(s,a,b):
    a_=If(a<0,0,If(a>Length(s),Length(s),a)); b_=If(b<0,0,If(b>Length(s),Length(s),b))
    return If(b_<=a_, Empty(SF), SubSeq(s,a_,b_-a_))
columns=Concat(sl(elements,0,idx), Unit(joinp(sl(elements,idx,pend))), sl(elements,pend,Length(elements)))
pre=And(ncol>=1, 0<=idx, idx<ncol, Length(elements)>=ncol)
goals={'before_seq': sl(columns,0,idx)==sl(elements,0,idx),
       'after_seq': sl(columns,idx+1,ncol)==sl(elements,pend,Length(elements)),
       'whole': columns==Concat(sl(elements,0,idx), Unit(joinp(sl(elements,idx,pend))), sl(elements,pend,Length(elements)))}
for nm,g in goals.items():
    s=Solver(); s.set('timeout',30000); s.add(pre,Not(g)); t=time.time(); r=s.check(); print(nm,r,round(time.time()-t,2))
    open(f'{nm}.smt2','w').write('(set-logic ALL)\n'+s.to_smt2())
for nm in goals:
    t=time.time()
    r=subprocess.run(['cvc5','--strings-exp','--tlimit=30000',f'{nm}.smt2'],capture_output=True,text=True)
    print('cvc5',nm,r.stdout.strip()[:60],r.stderr.strip()[:100],round(time.time()-t,2))
