exec(open('e8.py').read().split("print('--- with")[0].replace("print(","(lambda *a,**k:None)("))
lem_grp=A([a,b],Implies(And(0<=a,a<=b,b<n), grp(a)<=grp(b)),[MultiPattern(grp(a),grp(b))])
pe=n-1-E; pK=n-1-K; ge=grp(pe); gK=grp(pK); g1=grp(pe-1)
def run(name, extra, goal):
    s=Solver(); s.set('timeout',20000); s.set('auto_config',False); s.set('smt.mbqi',False)
    s.add(*hyp); s.add(lem_grp); s.add(*extra); s.add(Not(goal)); print(name, s.check())
base=[0<=K,K<n,K<=E,E<n,isEnd(E)]
inst_grp=lambda p: Implies(And(0<=p,p<n), And(0<=grp(p),grp(p)<m, startA(grp(p))<=p, p<startA(grp(p)+1), S[n-1-p]==U[grp(p)]))
inst_mono=lambda a,b: Implies(And(0<=a,a<=b,b<=m), startA(a)<=startA(b))
inst_gm=lambda a,b: Implies(And(0<=a,a<=b,b<n), grp(a)<=grp(b))
inst_U=lambda a,b: Implies(And(0<=a,a<b,b<m), U[a]<U[b])
M=[inst_grp(pe),inst_grp(pe-1),inst_grp(pK),inst_mono(g1+1,ge),inst_mono(IntVal(0),ge),inst_gm(pe-1,pe),inst_gm(pe,pK),inst_U(g1,ge)]
run('2d manual', base+M, startA(ge)==pe)
run('2d case E<n-1', base+M+[E<n-1], startA(ge)==pe)
run('2d case E==n-1', base+M+[E==n-1], startA(ge)==pe)
run('2c', base+M+[E<n-1], g1<ge)
run('g1!=ge', base+M+[E<n-1], g1!=ge)
run('S[E+1]==U[g1]', base+M+[E<n-1], S[E+1]==U[g1])
run('S[E]==U[ge]', base+M, S[E]==U[ge])
inst_rm=lambda g,j: Implies(And(0<=j,j<=g,g<m), runmin(g)<=F[startA(j)])
run('B final manual', base+M+[inst_rm(gK,ge)], qs[K]<=fdr[E])
# C
g0=grp(pK); w=wj(g0); sw=startA(w); ew=n-1-sw; gsw=grp(sw); gsw1=grp(sw-1)
inst_wit=lambda g: Implies(And(0<=g,g<m), Or(runmin(g)==1, And(0<=wj(g),wj(g)<=g, runmin(g)==F[startA(wj(g))])))
inst_step=lambda g: Implies(And(0<=g,g<m), And(C[g]>=1, startA(g+1)==startA(g)+C[g]))
MC=[inst_grp(pK),inst_wit(g0),inst_mono(w,g0),inst_mono(IntVal(0),w),inst_mono(w+1,IntVal(0)+m),inst_step(w),inst_grp(sw),inst_grp(sw-1),
    inst_mono(gsw+1,w), inst_mono(w+1,gsw), inst_mono(gsw1+1,w), inst_mono(w, gsw1), inst_U(gsw1,w), inst_U(w,gsw1)]
run('C final manual', [0<=K,K<n]+MC, Or(qs[K]==1, And(K<=ew, ew<n, isEnd(ew), qs[K]==fdr[ew])))
