from z3 import *
import time
n,k,cs=Ints('n k cs')
s=Solver(); s.set('timeout',30000)
s.add(n>=0,k>=2,k<=5,cs>=1, cs>=k)
# current code: if (n+k)%cs != 1 -> combined chunks; identifier split iff first and last id position in different chunks
split_combined = (n/cs) != ((n+k-1)/cs)
s.add((n+k)%cs != 1, split_combined)
t=time.time(); print(s.check(), time.time()-t); print(s.model())
# with cs fixed to 19 (the default) and n free
s=Solver(); s.add(n>=0,k>=2,k<=5,cs==19,(n+k)%cs != 1, split_combined); print(s.check(), s.model())
# proposed fix: combined iff n%cs + k <= cs ; prove never split for all n,k,cs (cs>=k)
s=Solver(); s.set('timeout',30000)
s.add(n>=0,k>=1,cs>=1, (n%cs)+k<=cs, split_combined)
t=time.time(); print('fix proof:',s.check(), time.time()-t)
