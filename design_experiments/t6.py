import os, sys
os.environ["MOKAPOT_CHUNK_SIZE_ROWS_PREDICTION"]=sys.argv[1] if len(sys.argv)>1 else "700000"
from helper import *
import mokapot, traceback
from mokapot import assign_confidence
from mokapot.model import Model
from sklearn.base import BaseEstimator, ClassifierMixin
from sklearn.linear_model import LogisticRegression
df=small_df(40,2,2,labels=(1,0))
ds=make_ds(df,"w/in5.parquet")
try:
    psms,models,scores,descs=mokapot.brew([ds],Model(LogisticRegression(),train_fdr=0.2,max_iter=2,override=True),test_fdr=0.2,folds=3,rng=1)
    print("brew ok", len(scores[0]), descs)
except Exception as e:
    print("brew ERR:",type(e).__name__,e)
