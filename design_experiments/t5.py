from helper import *
import mokapot, sys
from mokapot import assign_confidence
# (4) dedup flag ignored when do_rollup=True
df=small_df(20,3,1)
for fmt in (".tab",):
    for dedup,roll in ((False,True),(False,False),(True,True)):
        d=Path(f"w/o_{dedup}_{roll}"); shutil.rmtree(d,ignore_errors=True); d.mkdir(parents=True)
        ds=make_ds(df, f"w/in{fmt}")
        sc=df["f0"].values.astype(float)
        assign_confidence([ds],max_workers=1,scores=[sc],dest_dir=d,prefixes=[None],decoys=True,deduplication=dedup,do_rollup=roll,peps_algorithm="kde_nnls")
        t=pd.read_csv(d/"targets.psms",sep="\t"); dd=pd.read_csv(d/"decoys.psms",sep="\t")
        print(f"dedup={dedup} rollup={roll}: psm rows out={len(t)+len(dd)} (input {len(df)}, spectra {df.ScanNr.nunique()})", sorted(os.listdir(d)))
