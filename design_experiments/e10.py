# _split: cuts come from idx_start_unique (run starts of the sorted hash array) => rows with equal hash share a piece
from z3 import *
import time
I=IntSort()
n,folds,u=Ints('n folds u')
H=Array('H',I,I)            # sorted hashes
isu=Array('isu',I,I)        # idx_start_unique, length u
ssi=Array('ssi',I,I)        # start_split_indices, length folds-1
ss=Array('ss',I,I)          # searchsorted result
cut=Array('cut',I,I)        # idx_split = isu[ss]
a,b,f,j=Ints('a b f j')
def A(vs,body,pats): return ForAll(vs,body,patterns=pats)
hyp=[n>=1, folds>=2, u>=1,
 A([a],Implies(And(0<=a,a<n-1), H[a]<=H[a+1]),[H[a+1]]),
 A([a,b],Implies(And(0<=a,a<=b,b<n), H[a]<=H[b]),[MultiPattern(H[a],H[b])]),        # lemma: sorted (transitive form)
 # np.unique(return_index) on sorted H: strictly increasing starts, first is 0, each is a run start, every run start listed
 isu[0]==0, A([j],Implies(And(0<=j,j<u), And(0<=isu[j],isu[j]<n)),[isu[j]]),
 A([j],Implies(And(0<j,j<u), And(isu[j-1]<isu[j], H[isu[j]-1]<H[isu[j]])),[isu[j]]),
 # searchsorted contract + fancy index (in-bounds precondition assumed here: ss[f] < u)
 A([f],Implies(And(0<=f,f<folds-1), And(0<=ss[f],ss[f]<u, cut[f]==isu[ss[f]])),[cut[f]]),
]
# piece index of sorted position a = number of cuts <= a ; claim: equal hashes => no cut strictly inside (a,b]
F=Int('F'); P,Q=Ints('P Q')
s=Solver(); s.set('auto_config',False); s.set('smt.mbqi',False); s.set('timeout',20000)
s.add(*hyp); s.add(0<=P,P<Q,Q<n,H[P]==H[Q], 0<=F,F<folds-1, P<cut[F], cut[F]<=Q)
# lemma calls: sortedness instances around the cut
c=cut[F]
s.add(Implies(And(0<=P,P<=c-1,c-1<n), H[P]<=H[c-1]), Implies(And(0<=c,c<=Q,Q<n), H[c]<=H[Q]))
t=time.time(); print('no cut inside an equal-hash pair:', s.check(), round(time.time()-t,3))
