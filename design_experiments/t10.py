from helper import *
import mokapot, traceback
from mokapot import assign_confidence
from mokapot.brew_rollup import main as rollup_main
df=small_df(150,2,3)
sc=df["f0"].values.astype(float)
d=Path("w/roll"); shutil.rmtree(d,ignore_errors=True); d.mkdir(parents=True)
ds=make_ds(df,"w/in10.tab")
assign_confidence([ds],max_workers=1,scores=[sc],dest_dir=d,file_root="run1.",prefixes=[None],decoys=True,do_rollup=False)
print(sorted(os.listdir(d)))
try:
    rollup_main(["--level","psm","--src_dir",str(d),"--dest_dir",str(d),"--qvalue_algorithm","tdc","--peps_algorithm","qvality","-v","0"])
    print(sorted(os.listdir(d)))
    print(pd.read_csv(d/"rollup.targets.peptides",sep="\t").head(3))
except BaseException as e:
    traceback.print_exc()
