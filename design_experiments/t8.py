import numpy as np, pandas as pd, warnings
warnings.filterwarnings("ignore")
from sklearn.base import BaseEstimator, ClassifierMixin
from mokapot import LinearPsmDataset
from mokapot.model import Model
LOG=[]
class Rec(BaseEstimator, ClassifierMixin):
    def fit(self,X,y):
        LOG.append((X.copy(),np.asarray(y).copy())); self.classes_=np.array([0,1]); return self
    def decision_function(self,X): return X[:,0]
rng=np.random.default_rng(0); N=400
tg=np.array([True]*200+[False]*200); f0=np.concatenate([rng.normal(3,1,200),rng.normal(0,1,200)])
perm=rng.permutation(N); tg=tg[perm]; f0=f0[perm]
df=pd.DataFrame({"t":tg,"spec":np.arange(N),"pep":[f"p{i}" for i in range(N)],"f0":f0,"rid":np.arange(N).astype(float)})
for sh in (True,False):
    LOG.clear()
    ds=LinearPsmDataset(df,"t","spec","pep",feature_columns=["f0","rid"],copy_data=True)
    m=Model(Rec(),scaler="as-is",train_fdr=0.05,max_iter=3,shuffle=sh,rng=1,override=True)
    try: m.fit(ds)
    except Exception as e: print('fit err',type(e).__name__,e)
    for it,(X,y) in enumerate(LOG):
        rid=X[:,1].astype(int)
        neg_not_decoy=int(((y==0)&(tg[rid])).sum()); pos_not_target=int(((y==1)&(~tg[rid])).sum())
        print(f"shuffle={sh} iter={it} rows={len(y)} negatives-that-are-targets={neg_not_decoy} positives-that-are-decoys={pos_not_target}")
