import numpy as np, pandas as pd, warnings, io
warnings.filterwarnings("ignore")
from zlib import crc32
from mokapot.dataset import OnDiskPsmDataset
from mokapot.brew import make_train_sets
def mk(spec_df, cols):
    d=OnDiskPsmDataset.__new__(OnDiskPsmDataset); d.spectra_dataframe=spec_df; d.spectrum_columns=cols; return d
# #11a: find a skewed dataset whose big group sorts last by crc32
rng=np.random.default_rng(0)
found=None
for big in range(50):
    scans=[big]*8+[100,101]; mass=[float(s) for s in scans]
    df=pd.DataFrame({"scan":scans,"mass":mass})
    h=[crc32(str((float(s),float(m))).encode()) for s,m in zip(scans,mass)]
    if h[0]>max(h[8:]):
        try:
            mk(df.copy(),["scan","mass"])._split(3,rng); print("big-last but ok?",big)
        except Exception as e:
            found=(big,type(e).__name__,str(e)); break
print("#11a _split skewed, big group hashed last:",found)
# #11b: rng.choice population with two files, cap per file > rows of one file
test_idx=[[np.array([0,1]),np.array([2,3])],[np.arange(0,50),np.arange(50,100)]]
try:
    out=list(make_train_sets(test_idx, 40, [4,100], np.random.default_rng(0))); print("#11b ok",[ [len(x) for x in f] for f in out])
except Exception as e: print("#11b make_train_sets:",type(e).__name__,e)
# #12
from mokapot.streaming import ComputedTabularDataReader
from mokapot.tabular_data import DataFrameReader
r=ComputedTabularDataReader(DataFrameReader(pd.DataFrame({"a":[1,2]})),"b",np.dtype("int64"),lambda df: df["a"]*2)
try: print(r.read())
except Exception as e: print("#12 Computed.read(None):",type(e).__name__,e)
print(r.read(["a","b"]).values.tolist())
# #15
from mokapot.parsers.pin_to_tsv import is_valid_tsv
try: print(is_valid_tsv(io.StringIO("SpecId\tLabel\tScanNr\tPeptide\tProteins\n")))
except Exception as e: print("#15 header-only:",type(e).__name__)
