from z3 import *
import time
R=RealSort(); I=IntSort()
fdr=Array('fdr',I,R); ntot=Array('ntot',I,I); ind=Array('ind',I,I)
n=Int('n'); m=Int('m')
start=Function('start',I,I); runmin=Function('runmin',I,R)
k=Int('k'); a,b=Ints('a b')
def rmin(x,y): return If(x<y,x,y)
defs=And(start(0)==0,
   ForAll([k],Implies(And(0<=k,k<m), start(k+1)==start(k)+ind[k]),patterns=[start(k+1)]),
   runmin(-1)==1,
   ForAll([k],Implies(And(0<=k,k<m), runmin(k)==rmin(runmin(k-1), fdr[start(k)])),patterns=[runmin(k)]))
p,q=Ints('p q')
pre=And(n>=1,m>=1, start(m)==n, ForAll([k],Implies(And(0<=k,k<m), ind[k]>=1)),
        ForAll([p,q],Implies(And(0<=p,p<q,q<n), ntot[p]>ntot[q])))
# lemma (to be proven separately by induction): start monotone
lem=ForAll([a,b],Implies(And(0<=a,a<=b,b<=m), start(a)<=start(b)),patterns=[MultiPattern(start(a),start(b))])
idx=Int('idx'); prev=Int('prev'); minq=Real('minq'); qv=Array('qv',I,R)
def inv_parts(idx,prev,minq,qv):
    return {
     'range': And(0<=idx, idx<=m),
     'prev': prev==start(idx),
     'minq': minq==runmin(idx-1),
     'q': ForAll([k,p],Implies(And(0<=k,k<idx,start(k)<=p,p<start(k+1)), qv[p]==runmin(k))),
    }
inv=lambda *a: And(*inv_parts(*a).values())
nxt=prev+ind[idx]
j=Int('j')
argmax_c=And(0<=j, j<nxt-prev, ForAll([p],Implies(And(0<=p,p<nxt-prev), ntot[prev+p]<=ntot[prev+j])),
             ForAll([p],Implies(And(0<=p,p<j), ntot[prev+p]<ntot[prev+j])))
curr=fdr[prev+j]
minq2=If(curr<minq,curr,minq)
qv2=Array('qv2',I,R)
upd=ForAll([p], qv2[p]==If(And(prev<=p,p<nxt), minq2, qv[p]))
for name,goal in inv_parts(idx+1,nxt,minq2,qv2).items():
    s=Solver(); s.set('timeout',30000); 
    s.add(defs,lem,pre, inv(idx,prev,minq,qv), idx<m, argmax_c, upd)
    s.add(Not(goal))
    t=time.time(); r=s.check(); print('preserve',name,r, round(time.time()-t,2))
# lemma proof by induction on b
s=Solver(); s.set('timeout',30000)
B=Int('B')
IH=ForAll([a],Implies(And(0<=a,a<=B), start(a)<=start(B)))
s.add(defs, pre, 0<=B, B<m, IH, Not(ForAll([a],Implies(And(0<=a,a<=B+1), start(a)<=start(B+1)))))
print('lemma step', s.check())
# postcondition use: at exit idx==m
s=Solver(); s.set('timeout',30000)
s.add(defs,lem,pre,inv(idx,prev,minq,qv), Not(idx<m))
post=ForAll([k,p],Implies(And(0<=k,k<m,start(k)<=p,p<start(k+1)), qv[p]==runmin(k)))
s.add(Not(post)); print('post', s.check())
