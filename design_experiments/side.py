import sys, types
# pure function copied at run time from the repo source via ast (no pandas import needed)
import ast, pathlib
src=pathlib.Path('/repo/mokapot/parsers/pin.py').read_text()
mod=ast.parse(src)
fn=[n for n in mod.body if isinstance(n,ast.FunctionDef) and n.name=='create_chunks_with_identifier'][0]
ns={'create_chunks': lambda data,chunk_size:[data[i:i+chunk_size] for i in range(0,len(data),chunk_size)]}
exec(compile(ast.Module([fn],[]),'pin.py','exec'),ns)
_real=ns['create_chunks_with_identifier']
from typing import List
def chunks_ident(n:int,k:int,cs:int)->List[List[int]]:
    """
    pre: 0<=n<=60 and 1<=k<=5 and k<=cs<=25
    post: any(all(x in c for x in range(1000,1000+k)) for c in __return__)
    """
    return _real(list(range(n)), list(range(1000,1000+k)), cs)
