from helper import *
import mokapot
from mokapot import assign_confidence
df=small_df(150,2,3)
sc=df["f0"].values.astype(float)
def run(d, leftovers=False, descs=None, scores=None):
    d=Path(d); shutil.rmtree(d,ignore_errors=True); d.mkdir(parents=True)
    ds=make_ds(df,"w/in7.tab")
    if leftovers:
        # debris of an earlier crashed run with a smaller chunk size: a sorted chunk file with other rows
        old=df.iloc[:5].copy(); old["score"]=99.0+np.arange(5)[::-1]; old["Label"]=old["Label"]==1
        old=old[["SpecId","Label","ScanNr","ExpMass","Peptide","Proteins","score"]]; old["SpecId"]+=1000; old["ScanNr"]+=1000
        old.to_csv(d/"scores_metadata_7.tab",sep="\t",index=False)
    assign_confidence([ds],max_workers=1,scores=[sc if scores is None else scores],descs=descs,dest_dir=d,prefixes=[None],decoys=True,peps_algorithm="qvality")
    return pd.read_csv(d/"targets.psms",sep="\t"), sorted(os.listdir(d))
a,la=run("w/clean"); b,lb=run("w/dirty",True)
print("clean rows",len(a),"dirty rows",len(b),"equal:",a.equals(b)); print(la,lb)
print("alien ids in dirty output:", sorted(set(b.PSMId)-set(a.PSMId)))
# (9) direction
c,_=run("w/asc",descs=[False])
best_low=df.loc[df.groupby("ScanNr").f0.idxmin()]; best_high=df.loc[df.groupby("ScanNr").f0.idxmax()]
alld=pd.concat([c,pd.read_csv("w/asc/decoys.psms",sep="\t")])
print("desc=False keeps lowest per spectrum:", set(alld.PSMId)==set(best_low.SpecId), " keeps highest:", set(alld.PSMId)==set(best_high.SpecId))
print(alld.sort_values("q-value").head(3)[["PSMId","score","q-value"]])
