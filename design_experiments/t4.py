import numpy as np, pandas as pd, warnings
warnings.filterwarnings("ignore")
from pathlib import Path
from mokapot.dataset import update_labels, _update_labels
from mokapot.parsers.pin import create_chunks_with_identifier
# C07: file-based update_labels with -1 labels
n=200
rng=np.random.default_rng(0)
lab=np.array([1]*100+[-1]*100); sc=np.concatenate([rng.normal(1,1,100),rng.normal(0,1,100)])
pd.DataFrame({"Label":lab,"s":sc}).to_csv("l.tab",sep="\t",index=False)
a=update_labels(Path("l.tab"),sc,"Label",0.05)
b=_update_labels(sc,lab==1,0.05,True)
print("file-based accepted:",int((a==1).sum()),"true accepted:",int((b==1).sum()), "zeros-scores accepted:", int((update_labels(Path('l.tab'),np.zeros(n),'Label',0.05)==1).sum()))
# C10: identifier splitting
for nf in (17,18,19):
    ch=create_chunks_with_identifier([f"f{i}" for i in range(nf)],["scan","mass","label"],19)
    print(nf,[len(c) for c in ch], any(set(["scan","mass","label"])<=set(c) for c in ch))
# C12: Model.fit with shuffle False
from mokapot import LinearPsmDataset
from mokapot.model import Model
class Rec:
    def __init__(s): s.calls=[]
    def get_params(s,deep=False): return {}
    def set_params(s,**k): return s
    def fit(s,X,y): s.calls.append((X.copy(),y.copy())); return s
    def decision_function(s,X): return X[:,0]
N=400
tg=np.array([True]*200+[False]*200); f0=np.concatenate([rng.normal(3,1,200),rng.normal(0,1,200)])
df=pd.DataFrame({"t":tg,"spec":np.arange(N),"pep":[f"p{i}" for i in range(N)],"f0":f0,"rid":np.arange(N).astype(float)})
for sh in (True,False):
    ds=LinearPsmDataset(df,"t","spec","pep",feature_columns=["f0","rid"],copy_data=True)
    m=Model(Rec(),scaler="as-is",train_fdr=0.05,max_iter=3,shuffle=sh,rng=1)
    try: m.fit(ds)
    except Exception as e: print('fit err',e)
    bad=0
    for X,y in m.estimator.calls[1:] if hasattr(m.estimator,'calls') else []:
        rid=X[:,1].astype(int); bad+=int(((y==0)!=(~tg[rid])).sum())
    est=m.estimator
    print("shuffle",sh,"iterations",len(est.calls),"rows whose label disagrees with their own target flag:",bad)
