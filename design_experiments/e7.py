# C12 core: alignment of scores with targets through shuffle/unshuffle index algebra
from z3 import *
import time
I=IntSort(); Row=DeclareSort('Row'); R=RealSort()
n=Int('n'); X=Array('X',I,Row); pi=Array('pi',I,I); inv=Array('inv',I,I)
f=Function('f',Row,R)   # deterministic row-wise scorer
j,i=Ints('j i')
perm=And(n>=1, ForAll([j],Implies(And(0<=j,j<n), And(0<=pi[j],pi[j]<n, inv[pi[j]]==j)),patterns=[pi[j]]),
         ForAll([i],Implies(And(0<=i,i<n), And(0<=inv[i],inv[i]<n, pi[inv[i]]==i)),patterns=[inv[i]]))
def mk():
    s=Solver(); s.set('timeout',20000); s.set('auto_config',False); s.set('smt.mbqi',False); return s
shuffle=Bool('shuffle')
Xs=Array('Xs',I,Row)  # norm_feat after optional shuffle
defXs=ForAll([j],Implies(And(0<=j,j<n), Xs[j]==If(shuffle, X[pi[j]], X[j])),patterns=[Xs[j]])
sc_s=Array('sc_s',I,R); defsc=ForAll([j],Implies(And(0<=j,j<n), sc_s[j]==f(Xs[j])),patterns=[sc_s[j]])
sc=Array('sc',I,R); defsc2=ForAll([i],Implies(And(0<=i,i<n), sc[i]==sc_s[inv[i]]),patterns=[sc[i]])
# obligation at psms._update_labels(scores): scores[i] == f(X[i])
goal=ForAll([i],Implies(And(0<=i,i<n), sc[i]==f(X[i])))
s=mk(); s.add(perm,defXs,defsc,defsc2,shuffle,Not(goal)); t=time.time(); print('shuffle=True aligned:',s.check(),round(time.time()-t,3))
s=mk(); s.add(perm,defXs,defsc,defsc2,Not(shuffle),Not(goal)); t=time.time(); print('shuffle=False aligned (e-matching):',s.check(),round(time.time()-t,3))
# get a real model with mbqi for the failing case, n small
s=Solver(); s.set('timeout',20000); s.add(perm,defXs,defsc,defsc2,Not(shuffle),Not(goal), n<=3)
r=s.check(); print('mbqi:',r)
if r==sat:
    m=s.model(); nn=m[n].as_long(); print('n',nn,'pi',[m.eval(pi[k]) for k in range(nn)],'inv',[m.eval(inv[k]) for k in range(nn)])
