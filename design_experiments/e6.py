from z3 import *
import time, subprocess
P=String('P'); A=String('A'); m=String('m'); modpep=String('modpep')
off,pj,pn=Ints('off pj pn')
def sl(s,a,b): return SubString(s,a,b-a)   # assumes 0<=a<=b<=len
pre=And(0<=pj,pj<=pn,pn<=Length(P), Length(A)==off+pj, off>=0, modpep==Concat(A, sl(P,pj,Length(P))))
idx=off+pn
new=Concat(sl(modpep,0,idx), StringVal("["), m, StringVal("]"), sl(modpep,idx,Length(modpep)))
A2=Concat(A, sl(P,pj,pn), StringVal("["), m, StringVal("]"))
off2=off+2+Length(m)
goal=And(new==Concat(A2, sl(P,pn,Length(P))), Length(A2)==off2+pn)
s=Solver(); s.set('timeout',60000); s.add(pre,Not(goal)); t=time.time(); print('z3',s.check(),round(time.time()-t,2))
open('e6.smt2','w').write('(set-logic ALL)\n'+s.to_smt2())
t=time.time(); r=subprocess.run(['cvc5','--strings-exp','--tlimit=60000','e6.smt2'],capture_output=True,text=True); print('cvc5',r.stdout.strip(),r.stderr.strip()[:200],round(time.time()-t,2))
# mutant: offset += 1+len(mass)
goalm=And(new==Concat(A2, sl(P,pn,Length(P))), Length(A2)==off+1+Length(m)+pn)
s=Solver(); s.set('timeout',60000); s.add(pre,Not(goalm)); t=time.time(); print('z3 mutant',s.check(),round(time.time()-t,2))
