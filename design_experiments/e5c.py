from z3 import *
import time
P=DeclareSort('Pep'); I=IntSort()
L=Int('L'); sites=Array('sites',I,I); ns=Int('ns'); mc,mn,mx=Ints('mc mn mx')
sub=Function('sub',I,I,P); plen=Function('plen',P,I)
pep=Array('pep',P,BoolSort()); pep2=Array('pep2',P,BoolSort())
wi=Array('wi',P,I); wd=Array('wd',P,I)
i,d=Ints('i d'); p=Const('p',P); a,b=Ints('a b')
ax=ForAll([a,b],Implies(And(0<=a,a<=b,b<=L), plen(sub(a,b))==b-a),patterns=[sub(a,b)])
cand=Function('cand',I,I,P)  # cand(i,d)=sub(sites[i],sites[i+d]) -- gives a clean trigger
axc=ForAll([i,d], cand(i,d)==sub(sites[i],sites[i+d]), patterns=[cand(i,d)])
def before(i,d,si,sd): return Or(i<si, And(i==si, d<sd))
def valid(p,i,d,si,sd): return And(0<=i, i<ns, 1<=d, d<=mc+1, i+d<ns, before(i,d,si,sd), p==cand(i,d), plen(p)>=mn, plen(p)<=mx)
pre=And(ax,axc, ns>=2, sites[0]==0, sites[ns-1]==L, mc>=0, mn>=1, mx>=mn,
        ForAll([i],Implies(And(0<=i,i<ns-1), sites[i]<=sites[i+1]),patterns=[sites[i+1]]), ForAll([i],Implies(And(0<=i,i<ns),And(0<=sites[i],sites[i]<=L)),patterns=[sites[i]]))
si,sd=Ints('si sd')
inv_sound=lambda pep,wi,wd,si,sd: ForAll([p],Implies(pep[p], valid(p,wi[p],wd[p],si,sd)),patterns=[pep[p]])
inv_compl=lambda pep,si,sd: ForAll([i,d],Implies(And(0<=i,i<ns,1<=d,d<=mc+1,i+d<ns, before(i,d,si,sd),
                   plen(cand(i,d))>=mn, plen(cand(i,d))<=mx), pep[cand(i,d)]),patterns=[cand(i,d)])
end=si+sd
peptide=cand(si,sd)
cond_add=And(end<ns, plen(peptide)>=mn, plen(peptide)<=mx)
upd=ForAll([p], pep2[p]==Or(pep[p], p==peptide),patterns=[pep2[p]])
wi2=Array('wi2',P,I); wd2=Array('wd2',P,I)
updw=And(ForAll([p], wi2[p]==If(And(p==peptide,Not(pep[p])), si, wi[p]),patterns=[wi2[p]]), ForAll([p], wd2[p]==If(And(p==peptide,Not(pep[p])), sd, wd[p]),patterns=[wd2[p]]))
def mk():
    s=Solver(); s.set('timeout',30000); s.set('auto_config',False); s.set('smt.mbqi',False); return s
res={}
s=mk(); s.add(pre, 0<=si, si<ns, 1<=sd, sd<=mc+1, inv_sound(pep,wi,wd,si,sd), cond_add, upd, updw, Not(inv_sound(pep2,wi2,wd2,si,sd+1)))
t=time.time(); print('sound add:',s.check(), round(time.time()-t,2))
s=mk(); s.add(pre, 0<=si, si<ns, 1<=sd, sd<=mc+1, inv_sound(pep,wi,wd,si,sd), Not(cond_add), Not(inv_sound(pep,wi,wd,si,sd+1)))
t=time.time(); print('sound skip:',s.check(), round(time.time()-t,2))
s=mk(); s.add(pre, 0<=si, si<ns, 1<=sd, sd<=mc+1, inv_compl(pep,si,sd), cond_add, upd, Not(inv_compl(pep2,si,sd+1)))
t=time.time(); print('compl add:',s.check(), round(time.time()-t,2))
s=mk(); s.add(pre, 0<=si, si<ns, 1<=sd, sd<=mc+1, inv_compl(pep,si,sd), Not(cond_add), Not(inv_compl(pep,si,sd+1)))
t=time.time(); print('compl skip:',s.check(), round(time.time()-t,2))
s=mk(); s.add(pre, 0<=si, si<ns, sd==mc+1, inv_compl(pep,si,sd), Not(inv_compl(pep,si+1,IntVal(1))))
t=time.time(); r=s.check(); print('mutant compl advance-outer:', r, round(time.time()-t,2))
s=mk(); s.add(pre, 0<=si, si<ns, sd==mc+2, inv_compl(pep,si,sd), Not(inv_compl(pep,si+1,IntVal(1))))
t=time.time(); print('orig compl advance-outer:', s.check(), round(time.time()-t,2))
