"""setup_cmd self-test: the solvers are present and the engine separates valid from invalid toy contracts.

Every case is a tiny function with a contract and the verdict it must get: `True` = every obligation is
discharged, `False` = at least one obligation is NOT discharged (a pipeline that proves a wrong program, or that
cannot prove a right one, fails the setup).  The cases exercise the constructs the property contracts rely on:
loops with invariants, quantified postconditions, dict comprehensions, marker triggers with goal skolemisation,
the unbound-local obligation, strings as character sequences, max(enumerate(..), key=itemgetter(1))."""
import ast
import shutil
import sys
import tempfile

from .engine import Exec, find_function
from .lib import LIB
from . import libnp, libstr, libio, libbio  # noqa: F401
from .spec import Contract, Loop
from . import solve

SRC = '''
def total(xs):
    s = 0
    for x in xs:
        s = s + x
    return s

def bad_total(xs):
    s = 0
    for x in xs:
        s = s + x
    return s + 1

def clip_all(xs, hi):
    out = []
    for x in xs:
        if x > hi:
            out.append(hi)
        else:
            out.append(x)
    return out

def bad_clip_all(xs, hi):
    out = []
    for x in xs:
        if x > hi:
            out.append(hi)
        else:
            out.append(x + 1)
    return out

def counters(names):
    counts = {name: 0 for name in names}
    for name in names:
        counts[name] += 1
    return counts

def bad_counters(names):
    counts = {name: 0 for name in names}
    for name in names:
        counts[name] -= 1
    return counts

def pick(flag, xs):
    if flag:
        best = xs[0]
    if len(xs) > 0 and flag:
        return best
    return 0

def bad_pick(flag, xs):
    if flag:
        best = xs[0]
    if len(xs) > 0:
        return best
    return 0

def bracket(word, idx, tag):
    return word[:idx] + "[" + tag + "]" + word[idx:]

def bad_bracket(word, idx, tag):
    return word[:idx] + "[" + tag + "]" + word[idx + 1:]

def argbest(pairs):
    i, v = max(enumerate(map(itemgetter(1), pairs)), key=itemgetter(1))
    return i

def bad_argbest(pairs):
    i, v = min(enumerate(map(itemgetter(1), pairs)), key=itemgetter(1))
    return i

def fill_sorted(n):
    out = []
    for i in range(n):
        out.append(2 * i)
    return out

def bad_fill_sorted(n):
    out = []
    for i in range(n):
        out.append(n - i)
    return out
'''

_SORTED = ("forall(lambda a, b: implies(0 <= a <= b < len(%s), %s[a] <= %s[b]), "
           "trigger=lambda a, b: marked('ord', a, b))")

CASES = [
    # (function, expected all-discharged?, contract kwargs)
    ("total", True, dict(params={"xs": "list[int]"}, returns="int", ensures=["result == psum(xs, len(xs))"],
                         loops={0: Loop(invariant=["s == psum(xs, _k0)"])})),
    ("bad_total", False, dict(params={"xs": "list[int]"}, returns="int", ensures=["result == psum(xs, len(xs))"],
                              loops={0: Loop(invariant=["s == psum(xs, _k0)"])})),
    ("clip_all", True, dict(params={"xs": "list[int]", "hi": "int"}, returns="list[int]",
                            locals={"out": "list[int]"},
                            ensures=["len(result) == len(xs)",
                                     "all(result[i] == (hi if xs[i] > hi else xs[i]) for i in range(len(xs)))"],
                            loops={0: Loop(invariant=[
                                "len(out) == _k0",
                                "all(out[i] == (hi if xs[i] > hi else xs[i]) for i in range(_k0))"])})),
    ("bad_clip_all", False, dict(params={"xs": "list[int]", "hi": "int"}, returns="list[int]",
                                 locals={"out": "list[int]"},
                                 ensures=["len(result) == len(xs)",
                                          "all(result[i] == (hi if xs[i] > hi else xs[i]) for i in range(len(xs)))"],
                                 loops={0: Loop(invariant=[
                                     "len(out) == _k0",
                                     "all(out[i] == (hi if xs[i] > hi else xs[i]) for i in range(_k0))"])})),
    ("counters", True, dict(params={"names": "list[str]"}, returns="dict[str,int]",
                            locals={"counts": "dict[str,int]"},
                            ensures=["all(names[i] in result and result[names[i]] >= 0 for i in range(len(names)))"],
                            loops={0: Loop(invariant=[
                                "all(names[i] in counts and counts[names[i]] >= 0 for i in range(len(names)))"])})),
    ("bad_counters", False, dict(params={"names": "list[str]"}, returns="dict[str,int]",
                                 locals={"counts": "dict[str,int]"},
                                 ensures=["all(names[i] in result and result[names[i]] >= 0 "
                                          "for i in range(len(names)))"],
                                 loops={0: Loop(invariant=[
                                     "all(names[i] in counts and counts[names[i]] >= 0 "
                                     "for i in range(len(names)))"])})),
    # reading a local that is unbound on a feasible path must fail (safety.bound)
    ("pick", True, dict(params={"flag": "bool", "xs": "list[int]"}, returns="int", locals={"best": "int"},
                        requires=["implies(flag, len(xs) > 0)"], ensures=["implies(flag, result == xs[0])"])),
    ("bad_pick", False, dict(params={"flag": "bool", "xs": "list[int]"}, returns="int", locals={"best": "int"},
                             requires=["implies(flag, len(xs) > 0)"], ensures=["implies(flag, result == xs[0])"])),
    ("bracket", True, dict(params={"word": "list[Char]", "idx": "int", "tag": "list[Char]"}, returns="list[Char]",
                           requires=["0 <= idx <= len(word)"],
                           ensures=["len(result) == len(word) + len(tag) + 2",
                                    "result[idx] == chars('[')[0]",
                                    "all(result[idx + 2 + len(tag) + q] == word[idx + q] "
                                    "for q in range(len(word) - idx))"])),
    ("bad_bracket", False, dict(params={"word": "list[Char]", "idx": "int", "tag": "list[Char]"},
                                returns="list[Char]", requires=["0 <= idx <= len(word)"],
                                ensures=["len(result) == len(word) + len(tag) + 2",
                                         "result[idx] == chars('[')[0]",
                                         "all(result[idx + 2 + len(tag) + q] == word[idx + q] "
                                         "for q in range(len(word) - idx))"])),
    ("argbest", True, dict(params={"pairs": "list[tuple[str,int]]"}, returns="int",
                           requires=["len(pairs) >= 1"],
                           ensures=["0 <= result < len(pairs)",
                                    "all(pairs[j][1] <= pairs[result][1] for j in range(len(pairs)))"])),
    ("bad_argbest", False, dict(params={"pairs": "list[tuple[str,int]]"}, returns="int",
                                requires=["len(pairs) >= 1"],
                                ensures=["0 <= result < len(pairs)",
                                         "all(pairs[j][1] <= pairs[result][1] for j in range(len(pairs)))"])),
    # pairwise sortedness behind a marker trigger: the goal's own instance is made available by skolemisation
    ("fill_sorted", True, dict(params={"n": "int"}, returns="list[int]", locals={"out": "list[int]"},
                               requires=["n >= 0"], ensures=[_SORTED % ("result", "result", "result")],
                               loops={0: Loop(invariant=["len(out) == _k0",
                                                         "all(out[i] == 2 * i for i in range(_k0))"])})),
    ("bad_fill_sorted", False, dict(params={"n": "int"}, returns="list[int]", locals={"out": "list[int]"},
                                    requires=["n >= 0"], ensures=[_SORTED % ("result", "result", "result")],
                                    loops={0: Loop(invariant=["len(out) == _k0",
                                                              "all(out[i] == n - i for i in range(_k0))"])})),
]


def verdicts(fn_name, kwargs, workdir):
    c = Contract(target="toy." + fn_name, **kwargs)
    ex = Exec(c, find_function(ast.parse(SRC), fn_name), {}, LIB)
    ex.run()
    if not ex.obls:
        return ["no-obligations"]
    distinct = list(ex.strlits.values())
    items = [("%s_%d" % (fn_name, i), solve.vc_text(o.hyps, o.goal, distinct)) for i, o in enumerate(ex.obls)]
    res = solve.solve_all(items, 10, workdir)
    return [res[t]["status"] for t, _ in items]


def main():
    for tool in (solve.Z3, solve.CVC5):
        if shutil.which(tool) is None:
            print("selftest: solver %s not found" % tool)
            return 1
    wd = tempfile.mkdtemp(prefix="selftest_")
    bad = []
    try:
        for fn, want, kw in CASES:
            try:
                v = verdicts(fn, kw, wd)
            except Exception as e:  # noqa
                v = ["engine-error: %r" % e]
            all_ok = all(x == "unsat" for x in v)
            if any(x in ("error", "disagree") or x.startswith(("engine-error", "no-obl")) for x in v) or all_ok != want:
                bad.append((fn, want, v))
    finally:
        shutil.rmtree(wd, ignore_errors=True)
    for fn, want, v in bad:
        print("selftest: %s expected %s, got %s" % (fn, "all discharged" if want else "a failing obligation", v))
    from . import lib as _lib
    _lib.dump_shapes()       # only when PYVC_RECORD_SHAPES is set (maintenance of pyvc/callshapes.json)
    print("selftest: %d cases, %d wrong -> %s" % (len(CASES), len(bad), "ok" if not bad else "FAILED"))
    return 0 if not bad else 1


if __name__ == "__main__":
    sys.exit(main())
