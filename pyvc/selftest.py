"""setup_cmd self-test: solvers are present and the engine separates a valid from an invalid toy contract."""
import ast
import os
import shutil
import sys
import tempfile

from .engine import Exec, find_function
from .lib import LIB
from . import libnp, libstr, libio, libbio  # noqa: F401
from .spec import Contract, Loop
from . import solve

SRC = '''
def total(xs):
    s = 0
    for x in xs:
        s = s + x
    return s

def bad_total(xs):
    s = 0
    for x in xs:
        s = s + x
    return s + 1
'''


def verdicts(fn_name, workdir):
    c = Contract(target="toy." + fn_name, params={"xs": "list[int]"}, returns="int",
                 ensures=["result == psum(xs, len(xs))"],
                 loops={0: Loop(invariant=["s == psum(xs, _k0)"])})
    ex = Exec(c, find_function(ast.parse(SRC), fn_name), {}, LIB)
    ex.run()
    items = [("%s_%d" % (fn_name, i), solve.vc_text(o.hyps, o.goal)) for i, o in enumerate(ex.obls)]
    res = solve.solve_all(items, 10, workdir)
    return [res[t]["status"] for t, _ in items]


def main():
    for tool in (solve.Z3, solve.CVC5):
        if shutil.which(tool) is None:
            print("selftest: solver %s not found" % tool)
            return 1
    wd = tempfile.mkdtemp(prefix="selftest_")
    try:
        good = verdicts("total", wd)
        bad = verdicts("bad_total", wd)
    finally:
        shutil.rmtree(wd, ignore_errors=True)
    ok = all(v == "unsat" for v in good) and any(v != "unsat" for v in bad) and len(good) >= 3
    print("selftest: valid toy %s, invalid toy %s -> %s" % (good, bad, "ok" if ok else "FAILED"))
    return 0 if ok else 1


if __name__ == "__main__":
    sys.exit(main())
