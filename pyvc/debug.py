"""python3-vt -m pyvc.debug <Cxx> <target substring> <obligation name substring> [n]  -> print the VC"""
import sys
from . import check
from .check import load_modules, registry_of, generate


def main():
    prop, tsub, osub = sys.argv[1:4]
    nth = int(sys.argv[4]) if len(sys.argv) > 4 else 0
    mods = load_modules()
    reg = registry_of(mods)
    cs = []
    for m in mods.values():
        if getattr(m, "PROPERTY", None) == prop or prop == "*":
            cs += m.CONTRACTS
    for c in cs:
        if tsub not in c.target:
            continue
        ex = generate(c, reg)
        hits = [o for o in ex.obls if osub in o.name]
        print("%d obligations match" % len(hits))
        o = hits[nth]
        print("== %s (%s) line %s" % (o.name, o.kind, o.line))
        for h in o.hyps:
            print("HYP:", h.sexpr()[:1500])
        print("GOAL:", o.goal.sexpr())


main()
