"""Symbolic executor: real Python source (ast) + sidecar Contract -> verification conditions.

One VC per (path, obligation); no path merging; loops cut at invariants; calls are modular (callee contract
only).  See DESIGN.md 2.3-2.5 for the encoding and its stated assumptions.
"""
import ast
import hashlib
import itertools
import z3

from .types import (INT, REAL, BOOL, STR, NONE, SLICE, FUNC, MODULE, RECORD, TAbs, TSeq, TSet, TOpt, TTuple,
                    TDict, TPy, TIter, TMap, SV, T, parse_type)
from .spec import Contract, Loop, Lemma, Ghost


class Unsupported(Exception):
    pass


_BAD_PATTERN_OPS = {z3.Z3_OP_ITE, z3.Z3_OP_NOT, z3.Z3_OP_AND, z3.Z3_OP_OR, z3.Z3_OP_EQ, z3.Z3_OP_IMPLIES,
                    z3.Z3_OP_LE, z3.Z3_OP_GE, z3.Z3_OP_LT, z3.Z3_OP_GT, z3.Z3_OP_DISTINCT}


def _pattern_ok(t):
    stack = [t]
    while stack:
        x = stack.pop()
        if z3.is_app(x):
            if x.decl().kind() in _BAD_PATTERN_OPS:
                return False
            stack.extend(x.children())
    return True


_z3_forall, _z3_exists = z3.ForAll, z3.Exists


def _safe_quant(orig):
    def q(vs, body, weight=1, qid="", skid="", patterns=[], no_patterns=[]):
        good = []
        for p in patterns or []:
            terms = [p.arg(i) for i in range(p.num_args())] if z3.is_pattern(p) else [p]
            if all(_pattern_ok(t) for t in terms):
                good.append(p)
        return orig(vs, body, weight, qid, skid, good, no_patterns)
    return q


z3.ForAll = _safe_quant(_z3_forall)
z3.Exists = _safe_quant(_z3_exists)


class DeadPath(Exception):
    """raised after an obligation `False` was emitted for the current path (it must be infeasible)"""


class Stale(Exception):
    """The contract cannot be applied to the current source (anchor / name / loop missing)."""


class LazySpec:
    """A witness expression, evaluated in the state (environment) in which the existential is met."""

    def __init__(self, ex, text):
        self.ex = ex
        self.tree = ast.parse(text, mode="eval").body

    def value(self, st):
        return self.ex.ev(st, self.tree)


class Obl:
    __slots__ = ("name", "hyps", "goal", "kind", "line", "target", "clause")

    def __init__(self, name, hyps, goal, kind, line, target, clause=""):
        self.name = name
        self.hyps = hyps
        self.goal = goal
        self.kind = kind          # ensures | requires-at-call | invariant-init | invariant-preserve | safety | raises | lemma | assert | frame
        self.line = line
        self.target = target
        self.clause = clause      # the spec text this obligation comes from


class SeenSet(set):
    """Keys of definitional facts already assumed on a path.  A fact assumed while a comprehension binder or a
    guard is active is only known UNDER that binder / guard, so it must not be recorded as generally known
    (it would never be stated unconditionally afterwards)."""

    def __init__(self, owner, items=()):
        set.__init__(self, items)
        self.owner = owner

    def add(self, key):
        if self.owner.binders or self.owner.guards:
            return
        set.add(self, key)


class State:
    def __init__(self):
        self.env = {}
        self.hyps = []
        self.guards = []      # z3 bools: conditions under which the expression being evaluated is reached
        self.binders = []     # (vars, cond) for obligations raised inside comprehension bodies
        self.old = {}
        self.pending_exc = []  # (cond z3, exc name) collected while evaluating a statement's expressions
        self.path = []        # human-readable branch decisions
        self.spec = False
        self.seen = SeenSet(self)     # definitional facts already assumed on this path (term-id keyed)
        self.memo = {}        # pure array operations already evaluated on this path: key -> result

    def fork(self):
        s = State()
        s.env = dict(self.env)
        s.hyps = list(self.hyps)
        s.guards = list(self.guards)
        s.binders = list(self.binders)
        s.old = self.old
        s.pending_exc = list(self.pending_exc)
        s.path = list(self.path)
        s.spec = self.spec
        s.witness = getattr(self, "witness", {})
        s.seen = SeenSet(s, self.seen)
        s.memo = dict(self.memo)
        if hasattr(self, "join_terms"):
            s.join_terms = list(self.join_terms)
        if hasattr(self, "flat_terms"):
            s.flat_terms = list(self.flat_terms)
        return s


# control outcomes
NEXT, BREAK, CONTINUE, RETURN, RAISE = "next", "break", "continue", "return", "raise"


def src_prefix(node):
    try:
        return ast.unparse(node).split("\n")[0].strip()
    except Exception:
        return ""


class Exec:
    def __init__(self, contract, func_ast, registry, lib, filename="", module_src=None):
        self.c = contract
        self.fn = func_ast
        self.registry = registry      # qualname -> Contract (repo functions under contract)
        self.lib = lib                # library object (see lib.py)
        self.filename = filename
        self.obls = []
        self.canaries = []            # (name, hyps) that must stay satisfiable
        self.n = 0
        self.used_lib = set()
        self.used_contracts = set()
        self.abstracted = []
        self.strlits = {}
        self.ghost_fns = {}
        self.lemmas = {l.name: l for l in contract.lemmas}
        self.loop_ord = {}
        self.anchors_hit = set()
        self.clauses_hit = set()
        self.param_svs = {}
        self.notes = []
        self.ufs = {}
        self.binder_vars = []
        self.ghost_scope = []

    # ------------------------------------------------------------------ helpers
    def fresh(self, prefix, t):
        return SV(t, self.fresh_z(prefix, t.sort()))

    def fresh_z(self, prefix, sort):
        """Fresh constant; under comprehension / quantifier binders a fresh *function of the bound variables*."""
        self.n += 1
        if self.binder_vars:
            f = z3.Function("%s!%d" % (prefix, self.n), *([v.sort() for v in self.binder_vars] + [sort]))
            return f(*self.binder_vars)
        return z3.Const("%s!%d" % (prefix, self.n), sort)

    def bvar(self, prefix, sort=None):
        self.n += 1
        return z3.Const("%s!%d" % (prefix, self.n), sort if sort is not None else z3.IntSort())

    def push_binder(self, st, vars_, cond):
        st.binders.append((list(vars_), cond))
        self.binder_vars.extend(vars_)

    def pop_binder(self, st):
        vars_, _ = st.binders.pop()
        for _v in vars_:
            self.binder_vars.pop()

    def close(self, binders, z):
        """Universally close z over the binder variables (merging with z's own quantifier to keep its patterns)."""
        # quantify only over the binder variables the fact depends on (a fact about terms that do not mention a
        # bound variable - e.g. a definitional axiom of split(line, sep) - is assumed as it stands)
        used = consts_in(z)
        keep = [False] * len(binders)
        changed = True
        while changed:
            changed = False
            for bi, (vars_, c) in enumerate(binders):
                if not keep[bi] and any(v.get_id() in used for v in vars_):
                    keep[bi] = True
                    used |= consts_in(c)
                    changed = True
        binders = [b for b, k in zip(binders, keep) if k]
        if not binders:
            return z
        vs = [v for (vars_, _) in binders for v in vars_]
        cond = z3.And(*[c for (_, c) in binders])
        if z3.is_quantifier(z) and z.is_forall() and z.num_patterns() > 0:
            inner = [self.bvar(z.var_name(i), z.var_sort(i)) for i in range(z.num_vars())]
            body = z3.substitute_vars(z.body(), *reversed(inner))
            pats = []
            for k in range(z.num_patterns()):
                p = z.pattern(k)
                terms = [z3.substitute_vars(p.arg(m), *reversed(inner)) for m in range(p.num_args())]
                pats.append(z3.MultiPattern(*terms) if len(terms) > 1 else terms[0])
            return z3.ForAll(vs + inner, z3.Implies(cond, body), patterns=pats)
        return z3.ForAll(vs, z3.Implies(cond, z))

    def uf(self, name, *sorts):
        key = (name,) + tuple(str(s) for s in sorts)
        if key not in self.ufs:
            self.ufs[key] = z3.Function(name, *sorts)
        return self.ufs[key]

    def const(self, name, t):
        return SV(t, z3.Const(name, t.sort()))

    def define(self, st, z):
        """Assume a DEFINITIONAL axiom (a fact that merely defines an uninterpreted function of the terms it
        mentions - e.g. flatten(x) in terms of x - and therefore holds for every value, whatever guards and binder
        ranges are active): it is quantified over the binder variables it mentions only, restricted by the range
        conjuncts that speak about those variables alone.  Never use this for facts that depend on the guards."""
        if not st.binders:
            st.hyps.append(z)
            return
        used = consts_in(z)
        vs, conds = [], []
        for (vars_, c) in st.binders:
            mine = [v for v in vars_ if v.get_id() in used]
            if not mine:
                continue
            vs += mine
            others = {v.get_id() for v in vars_ if v.get_id() not in used}
            for cj in (c.children() if z3.is_and(c) else [c]):
                if not (consts_in(cj) & others):
                    conds.append(cj)
        if not vs:
            st.hyps.append(z)
            return
        cond = z3.And(*conds) if conds else z3.BoolVal(True)
        if z3.is_quantifier(z) and z.is_forall() and z.num_patterns() > 0:
            inner = [self.bvar(z.var_name(i), z.var_sort(i)) for i in range(z.num_vars())]
            body = z3.substitute_vars(z.body(), *reversed(inner))
            pats = []
            for k in range(z.num_patterns()):
                p = z.pattern(k)
                terms = [z3.substitute_vars(p.arg(m), *reversed(inner)) for m in range(p.num_args())]
                pats.append(z3.MultiPattern(*terms) if len(terms) > 1 else terms[0])
            try:
                st.hyps.append(z3.ForAll(vs + inner, z3.Implies(cond, body), patterns=pats))
                return
            except z3.Z3Exception:
                pass
        st.hyps.append(z3.ForAll(vs, z3.Implies(cond, z)))

    def assume(self, st, z):
        if st.guards:
            z = z3.Implies(z3.And(*st.guards), z)
        if st.binders:
            z = self.close(st.binders, z)
        st.hyps.append(z)

    def oblige(self, st, name, goal, kind, node=None, clause=""):
        g = goal
        if st.guards:
            g = z3.Implies(z3.And(*st.guards), g)
        if st.binders:
            g = self.close(st.binders, g)
        line = getattr(node, "lineno", 0) if node is not None else 0
        self.obls.append(Obl(name, list(st.hyps), g, kind, line, self.c.target, clause))
        if clause:
            self.clauses_hit.add((kind, clause))
        st.hyps.append(g)

    def strlit(self, s):
        if s not in self.strlits:
            self.strlits[s] = z3.Const("str_" + hashlib.md5(s.encode()).hexdigest()[:8] + "_" +
                                       "".join(ch if ch.isalnum() else "_" for ch in s)[:16], STR.sort())
        return SV(STR, self.strlits[s])

    def wf(self, sv, depth=0):
        """Well-formedness facts of a value of its type (lengths non-negative, recursively)."""
        t, z = sv.t, sv.z
        out = []
        if isinstance(t, TSeq):
            out.append(t.len(z) >= 0)
            if isinstance(t.elem, (TSeq, TTuple, TDict, TOpt)) and depth < 2:
                i = z3.Int("wf_i%d" % depth)
                inner = self.wf(SV(t.elem, t.arr(z)[i]), depth + 1)
                if inner:
                    out.append(z3.ForAll([i], z3.And(*inner), patterns=[t.arr(z)[i]]))
        elif isinstance(t, TTuple):
            for k, e in enumerate(t.elems):
                out += self.wf(SV(e, t.get(z, k)), depth + 1)
        elif isinstance(t, TDict):
            ks = SV(t.keyseq, t.keys(z))
            out += self.wf(ks, depth + 1)
            i = z3.Int("wf_d%d" % depth)
            j = z3.Int("wf_e%d" % depth)
            karr, klen = t.keyseq.arr(ks.z), t.keyseq.len(ks.z)
            kx = z3.Const("wf_k%d" % depth, t.k.sort())
            pos = self.uf("dpos_" + t.key(), t.sort(), t.k.sort(), z3.IntSort())
            # keys sequence enumerates exactly the key set, without duplicates
            out.append(z3.ForAll([i], z3.Implies(z3.And(0 <= i, i < klen),
                                                 z3.And(t.has(z)[karr[i]], pos(z, karr[i]) == i)),
                                 patterns=[karr[i]]))
            out.append(z3.ForAll([kx], z3.Implies(t.has(z)[kx],
                                                  z3.And(0 <= pos(z, kx), pos(z, kx) < klen,
                                                         karr[pos(z, kx)] == kx)),
                                 patterns=[t.has(z)[kx]]))
            if isinstance(t.v, TSeq) and depth < 2:
                vk = z3.Const("wf_vk%d" % depth, t.k.sort())
                out.append(z3.ForAll([vk], t.v.len(t.vals(z)[vk]) >= 0, patterns=[t.vals(z)[vk]]))
        elif isinstance(t, TMap):
            # total ghost maps into sequences: every value is a sequence (length >= 0)
            if isinstance(t.v, TSeq) and depth < 2:
                mk_ = z3.Const("wf_mk%d" % depth, t.k.sort())
                out.append(z3.ForAll([mk_], t.v.len(z3.Select(z, mk_)) >= 0, patterns=[z3.Select(z, mk_)]))
        elif isinstance(t, TOpt):
            inner = self.wf(SV(t.inner, t.val(z)), depth + 1)
            if inner:
                out.append(z3.Implies(z3.Not(t.is_none(z)), z3.And(*inner)))
        return out

    def havoc(self, st, name, why="havoc"):
        old = st.env.get(name)
        if old is None:
            return
        if isinstance(old.t, TPy):
            if old.t is RECORD or old.t.what.startswith("iter"):
                st.env[name] = self.lib.havoc_py(self, st, old, name)
            return
        new = self.fresh(name.replace(".", "_"), old.t)
        for f in self.wf(new):
            st.hyps.append(f)
        st.env[name] = new

    # ------------------------------------------------------------------ coercions
    def truth(self, sv):
        t = sv.t
        if t == BOOL:
            return sv.z
        if t == INT:
            return sv.z != 0
        if t == REAL:
            return sv.z != 0
        if isinstance(t, TSeq):
            return t.len(sv.z) != 0
        if isinstance(t, TOpt):
            # python truthiness of an Optional: not None AND the wrapped value is truthy (0, 0.0, "" and empty
            # containers are falsy; opaque objects are truthy)
            inner = SV(t.inner, t.val(sv.z))
            if t.inner in (INT, REAL, BOOL) or isinstance(t.inner, (TSeq, TDict)):
                return z3.And(z3.Not(t.is_none(sv.z)), self.truth(inner))
            return z3.Not(t.is_none(sv.z))
        if t is NONE:
            return z3.BoolVal(False)
        if isinstance(t, TDict):
            return t.keyseq.len(t.keys(sv.z)) != 0
        raise Unsupported("truthiness of %s" % t)

    def to_real(self, sv):
        if sv.t == REAL:
            return sv.z
        if sv.t == INT:
            return z3.ToReal(sv.z)
        if sv.t == BOOL:
            return z3.If(sv.z, z3.RealVal(1), z3.RealVal(0))
        raise Unsupported("to_real of %s" % sv.t)

    def to_int(self, sv):
        if sv.t == INT:
            return sv.z
        if sv.t == BOOL:
            return z3.If(sv.z, z3.IntVal(1), z3.IntVal(0))
        raise Unsupported("to_int of %s" % sv.t)

    def coerce(self, sv, t):
        """Coerce a value to declared type t (int->real, T->opt[T], None->opt, seq kind change)."""
        if sv.t == t:
            if isinstance(t, TSeq) and sv.t.kind != t.kind:
                return SV(t, sv.z)
            return sv
        if t == REAL and sv.t in (INT, BOOL):
            return SV(REAL, self.to_real(sv))
        if t == INT and sv.t == BOOL:
            return SV(INT, self.to_int(sv))
        if isinstance(t, TOpt):
            if sv.t is NONE:
                return SV(t, t.none())
            return SV(t, t.some(self.coerce(sv, t.inner).z))
        if isinstance(sv.t, TOpt) and sv.t.inner == t:
            return SV(t, sv.t.val(sv.z))
        raise Unsupported("cannot coerce %s to %s" % (sv.t, t))

    def unwrap(self, st, sv, node=None, what="value"):
        """Optional value used where the wrapped value is needed: None would raise -> safety obligation."""
        if isinstance(sv.t, TOpt):
            if not st.spec:
                self.oblige(st, "safety.not_none", z3.Not(sv.t.is_none(sv.z)), "safety", node,
                            "%s is not None: %s" % (what, src_prefix(node) if node is not None else ""))
            return SV(sv.t.inner, sv.t.val(sv.z))
        return sv

    def unify_num(self, a, b):
        if a.t == REAL or b.t == REAL:
            return self.to_real(a), self.to_real(b), REAL
        return self.to_int(a), self.to_int(b), INT

    # ------------------------------------------------------------------ sequences
    def seq_len(self, sv):
        return sv.t.len(sv.z)

    def seq_get(self, sv, i):
        return SV(sv.t.elem, sv.t.arr(sv.z)[i])

    def new_seq(self, st, elem, ln, fn=None, kind="list", prefix="seq"):
        """Fresh sequence of length ln with r[j] == fn(j) (fn: z3 int -> z3 term) for 0<=j<ln."""
        t = TSeq(elem, kind)
        r = self.fresh(prefix, t)
        self.assume(st, t.len(r.z) == ln)
        if fn is not None:
            j = self.bvar("j")
            body = fn(j)
            self.assume(st, z3.ForAll([j], z3.Implies(z3.And(0 <= j, j < ln), t.arr(r.z)[j] == body),
                                      patterns=[t.arr(r.z)[j]]))
        for f in self.wf(r)[1:]:
            self.assume(st, f)
        return r

    def seq_lit(self, st, items, elem=None, kind="list"):
        if elem is None:
            if not items:
                raise Unsupported("empty list literal without declared type")
            elem = items[0].t
            for it in items[1:]:
                if it.t != elem:
                    if {it.t, elem} <= {INT, REAL, BOOL}:
                        elem = REAL if REAL in (it.t, elem) else INT
                    else:
                        raise Unsupported("heterogeneous list literal %s vs %s" % (it.t, elem))
        t = TSeq(elem, kind)
        arr = self.fresh_z("lit", z3.ArraySort(z3.IntSort(), elem.sort()))
        # ground element facts (not Store terms): they also provide the index terms e-matching needs
        for k, it in enumerate(items):
            self.assume(st, arr[k] == self.coerce(it, elem).z)
        return SV(t, t.mk(arr, z3.IntVal(len(items))))

    def seq_concat(self, st, a, b):
        if a.t.elem != b.t.elem:
            raise Unsupported("concat of %s and %s" % (a.t, b.t))
        la, lb = self.seq_len(a), self.seq_len(b)
        aa, ab = a.t.arr(a.z), b.t.arr(b.z)
        r = self.new_seq(st, a.t.elem, la + lb, lambda j: z3.If(j < la, aa[j], ab[j - la]), a.t.kind, "cat")
        # the same definition, triggered from the operands' side
        ra = r.t.arr(r.z)
        j = self.bvar("j")
        self.assume(st, z3.ForAll([j], z3.Implies(z3.And(0 <= j, j < la), ra[j] == aa[j]), patterns=[aa[j]]))
        # (no such axiom for the right operand: its index arithmetic la + j / j - la feeds a matching loop with
        # the defining axiom; a right operand that is a short literal gets ground facts instead)
        if z3.is_int_value(z3.simplify(lb)) and z3.simplify(lb).as_long() <= 4:
            for k in range(z3.simplify(lb).as_long()):
                self.assume(st, ra[la + k] == ab[k])
        return r

    def clamp_index(self, i, ln, literal_nonneg=False):
        if not literal_nonneg:
            i = z3.If(i < 0, i + ln, i)
        return z3.If(i < 0, z3.IntVal(0), z3.If(i > ln, ln, i))

    def seq_slice(self, st, a, lo, hi):
        ln = self.seq_len(a)
        lo_z = z3.IntVal(0) if lo is None else self.clamp_index(lo, ln)
        hi_z = ln if hi is None else self.clamp_index(hi, ln)
        n = z3.If(hi_z >= lo_z, hi_z - lo_z, z3.IntVal(0))
        aa = a.t.arr(a.z)
        return self.new_seq(st, a.t.elem, n, lambda j: aa[lo_z + j], a.t.kind, "slc")

    def seq_eq(self, a, b):
        if not (isinstance(a.t, TSeq) and isinstance(b.t, TSeq)) or a.t.elem != b.t.elem:
            raise Unsupported("sequence equality between %s and %s" % (a.t, b.t))
        j = self.bvar("e")
        la, lb = self.seq_len(a), self.seq_len(b)
        ea, eb = a.t.arr(a.z)[j], b.t.arr(b.z)[j]
        if isinstance(a.t.elem, TSeq):
            inner = self.seq_eq(SV(a.t.elem, ea), SV(b.t.elem, eb))
        else:
            inner = ea == eb
        return z3.And(la == lb, z3.ForAll([j], z3.Implies(z3.And(0 <= j, j < la), inner), patterns=[ea, eb]))

    def values_eq(self, a, b):
        if isinstance(a.t, TSeq) and isinstance(b.t, TSeq):
            return self.seq_eq(a, b)
        for (p_, q_) in ((a, b), (b, a)):
            if isinstance(p_.t, TPy) and p_.t.what == "emptydict" and isinstance(q_.t, TDict):
                return q_.t.keyseq.len(q_.t.keys(q_.z)) == 0
        if a.t is NONE or b.t is NONE:
            o = b if a.t is NONE else a
            if o.t is NONE:
                return z3.BoolVal(True)
            if isinstance(o.t, TOpt):
                return o.t.is_none(o.z)
            return z3.BoolVal(False)
        if isinstance(a.t, TOpt) and not isinstance(b.t, TOpt):
            return z3.And(z3.Not(a.t.is_none(a.z)), a.t.val(a.z) == self.coerce(b, a.t.inner).z)
        if isinstance(b.t, TOpt) and not isinstance(a.t, TOpt):
            return self.values_eq(b, a)
        if a.t in (INT, REAL, BOOL) and b.t in (INT, REAL, BOOL) and a.t != b.t:
            x, y, _ = self.unify_num(a, b)
            return x == y
        if a.t != b.t:
            raise Unsupported("equality between %s and %s" % (a.t, b.t))
        return a.z == b.z

    # ------------------------------------------------------------------ expressions
    def ev(self, st, node):
        m = getattr(self, "ev_" + type(node).__name__, None)
        if m is None:
            raise Unsupported("expression %s (%s)" % (type(node).__name__, src_prefix(node)))
        return m(st, node)

    def ev_Constant(self, st, node):
        v = node.value
        if isinstance(v, bool):
            return SV(BOOL, z3.BoolVal(v))
        if isinstance(v, int):
            return SV(INT, z3.IntVal(v))
        if isinstance(v, float):
            return SV(REAL, z3.RealVal(repr(v)))
        if isinstance(v, str):
            return self.strlit(v)
        if v is None:
            return SV(NONE)
        raise Unsupported("constant %r" % (v,))

    def ev_Name(self, st, node):
        n = node.id
        if n in st.env:
            return st.env[n]
        if n in self.ghost_fns:
            return SV(FUNC, py=("ghost", n))
        if n in self.c.consts:
            return self.const_value(st, n)
        if n in getattr(self, "block_assigned", ()) and st.spec and n in self.c.locals:
            # a specification may mention a declared local that is unbound on this path: an arbitrary value of its
            # type (whatever the clause says about it has to hold for every value, or be guarded)
            v = self.fresh("unbound_" + n, parse_type(self.c.locals[n]))
            st.env[n] = v
            return v
        if n in getattr(self, "block_assigned", ()) and not st.spec and not st.binders:
            # a local that is assigned somewhere in the verified code but not on this path: reading it raises
            # UnboundLocalError / NameError, so the path has to be infeasible
            self.oblige(st, "safety.bound", z3.BoolVal(False), "safety", node,
                        "local variable '%s' is bound wherever it is read" % n)
            raise DeadPath(n)
        return SV(FUNC, py=("name", n))

    def const_value(self, st, n):
        """module-level constant: a literal value, or a symbolic constant (same symbol on every path)"""
        ty, val = self.c.consts[n]
        t = parse_type(ty)
        if val is not None:
            return self.ev(st, ast.parse(repr(val), mode="eval").body)
        return self.const("K_" + n.replace(".", "_"), t)

    def ev_Attribute(self, st, node):
        # self.x  |  module.func  |  value.method
        try:
            dotted = ast.unparse(node)
        except Exception:
            dotted = None
        if dotted and dotted in st.env:
            return st.env[dotted]
        if isinstance(node.value, ast.Name):
            full = node.value.id + "." + node.attr
            if full in st.env:
                return st.env[full]
            if full in self.c.consts:
                return self.const_value(st, full)
            if node.value.id not in st.env:
                return SV(FUNC, py=("name", full))
        base = self.ev(st, node.value)
        if base.t is FUNC and base.py[0] == "name":
            return SV(FUNC, py=("name", base.py[1] + "." + node.attr))
        base = self.unwrap(st, base, node, "object")
        if isinstance(base.t, TAbs):
            ft = self.c.fields.get(base.t.name + "." + node.attr)
            if ft is not None and ft.startswith("maybe "):
                # duck typing: the attribute may be absent, reading it then raises AttributeError
                ft = ft[6:]
                has = self.uf("hasattr_%s_%s" % (base.t.name, node.attr), base.t.sort(), z3.BoolSort())(base.z)
                if not st.spec:
                    g = z3.And(*(st.guards + [z3.Not(has)])) if st.guards else z3.Not(has)
                    st.pending_exc.append((g, "AttributeError"))
            if ft is not None:
                t = parse_type(ft)
                f = self.uf("fld_%s_%s" % (base.t.name, node.attr), base.t.sort(), t.sort())
                r = SV(t, f(base.z))
                key = ("fld-wf", r.z.get_id())
                if key not in st.seen:
                    st.seen.add(key)
                    for w in self.wf(r):
                        self.assume(st, w)
                return r
        r = self.lib.attribute(self, st, base, node.attr, node)
        if r is not None:
            return r
        return SV(FUNC, py=("method", base, node.attr, node.value))

    def ev_Tuple(self, st, node):
        items = [self.ev(st, e) for e in node.elts]
        if all(not isinstance(i.t, TPy) for i in items):
            t = TTuple([i.t for i in items])
            return SV(t, t.mk([i.z for i in items]))
        return SV(TPy("pytuple"), py=items)

    def ev_List(self, st, node):
        items = [self.ev(st, e) for e in node.elts]
        if len(items) >= 2 and all(not isinstance(i.t, TPy) for i in items) and \
                len({i.t.key() for i in items}) > 1 and not ({i.t for i in items} <= {INT, REAL, BOOL}):
            # a python list used as a fixed record, e.g. [name, sequence]
            t = TTuple([i.t for i in items])
            return SV(t, t.mk([i.z for i in items]))
        elem = None
        if not items:
            elem = getattr(st, "_expect_elem", None)
            if elem is None:
                return SV(TPy("emptylist"), py=[])
        return self.seq_lit(st, items, elem)

    def ev_Slice(self, st, node):
        lo = self.ev(st, node.lower) if node.lower is not None else None
        hi = self.ev(st, node.upper) if node.upper is not None else None
        if node.step is not None:
            stp = self.ev(st, node.step)
            if not (z3.is_int_value(stp.z) and stp.z.as_long() == 1):
                raise Unsupported("slice step")
        return SV(SLICE, py=(lo, hi))

    def ev_UnaryOp(self, st, node):
        v = self.ev(st, node.operand)
        if isinstance(node.op, ast.Not):
            return SV(BOOL, z3.Not(self.truth(v)))
        if isinstance(node.op, ast.USub):
            if isinstance(v.t, TSeq):
                return self.lib.elementwise1(self, st, v, lambda x: -x, v.t.elem)
            if z3.is_int_value(v.z) or z3.is_rational_value(v.z):
                return SV(v.t, z3.simplify(-v.z))        # a negative literal stays a numeral
            return SV(v.t, -v.z)
        if isinstance(node.op, ast.UAdd):
            return v
        if isinstance(node.op, ast.Invert):
            if isinstance(v.t, TSeq) and v.t.elem == BOOL:
                return self.lib.elementwise1(self, st, v, lambda x: z3.Not(x), BOOL)
            if v.t == BOOL:
                return SV(BOOL, z3.Not(v.z))
        raise Unsupported("unary %s on %s" % (type(node.op).__name__, v.t))

    def ev_BoolOp(self, st, node):
        is_and = isinstance(node.op, ast.And)
        first = self.ev(st, node.values[0])
        # `x or default` on optionals
        if not is_and and isinstance(first.t, TOpt) and len(node.values) == 2:
            second = self.ev(st, node.values[1])
            inner = self.coerce(second, first.t.inner)
            return SV(first.t.inner, z3.If(first.t.is_none(first.z), inner.z, first.t.val(first.z)))
        if not is_and and first.t is NONE and len(node.values) == 2:
            return self.ev(st, node.values[1])
        acc = [self.truth(first)]
        pushed = 0
        for v in node.values[1:]:
            st.guards.append(acc[-1] if is_and else z3.Not(acc[-1]))
            pushed += 1
            acc.append(self.truth(self.ev(st, v)))
        for _ in range(pushed):
            st.guards.pop()
        return SV(BOOL, z3.And(*acc) if is_and else z3.Or(*acc))

    def ev_IfExp(self, st, node):
        c = self.truth(self.ev(st, node.test))
        st.guards.append(c)
        a = self.ev(st, node.body)
        st.guards.pop()
        st.guards.append(z3.Not(c))
        b = self.ev(st, node.orelse)
        st.guards.pop()
        for (p, q, first) in ((a, b, True), (b, a, False)):
            # `x if x is not None else []`: the optional is used unwrapped in its branch
            if isinstance(p.t, TOpt) and isinstance(p.t.inner, TSeq) and \
                    ((isinstance(q.t, TPy) and q.t.what == "emptylist") or q.t == p.t.inner):
                pv = SV(p.t.inner, p.t.val(p.z))
                qv = self.seq_lit(st, [], p.t.inner.elem, p.t.inner.kind) if isinstance(q.t, TPy) else q
                return SV(p.t.inner, z3.If(c, pv.z, qv.z) if first else z3.If(c, qv.z, pv.z))
        if isinstance(a.t, TSeq) and isinstance(b.t, TPy) and b.t.what == "emptylist":
            b = self.seq_lit(st, [], a.t.elem, a.t.kind)
        elif isinstance(b.t, TSeq) and isinstance(a.t, TPy) and a.t.what == "emptylist":
            a = self.seq_lit(st, [], b.t.elem, b.t.kind)
        if isinstance(a.t, TOpt) and a.t.inner == b.t:
            a = SV(b.t, a.t.val(a.z))
        elif isinstance(b.t, TOpt) and b.t.inner == a.t:
            b = SV(a.t, b.t.val(b.z))
        if a.t != b.t:
            if {a.t, b.t} <= {INT, REAL, BOOL}:
                x, y, t = self.unify_num(a, b)
                return SV(t, z3.If(c, x, y))
            if a.t is NONE and not isinstance(b.t, TPy):
                t = b.t if isinstance(b.t, TOpt) else TOpt(b.t)
                return SV(t, z3.If(c, t.none(), self.coerce(b, t).z))
            if b.t is NONE and not isinstance(a.t, TPy):
                t = a.t if isinstance(a.t, TOpt) else TOpt(a.t)
                return SV(t, z3.If(c, self.coerce(a, t).z, t.none()))
            raise Unsupported("if-expression branches %s / %s" % (a.t, b.t))
        return SV(a.t, z3.If(c, a.z, b.z))

    def ev_BinOp(self, st, node):
        a = self.ev(st, node.left)
        b = self.ev(st, node.right)
        return self.binop(st, node.op, a, b, node)

    def binop(self, st, op, a, b, node=None):
        if isinstance(a.t, TOpt) and isinstance(a.t.inner, TSeq):
            a = self.unwrap(st, a, node, "left operand")
        if isinstance(b.t, TOpt) and isinstance(b.t.inner, TSeq):
            b = self.unwrap(st, b, node, "right operand")
        r = self.lib.binop(self, st, op, a, b, node)
        if r is not None:
            return r
        if isinstance(a.t, TSeq) and isinstance(b.t, TSeq) and isinstance(op, ast.Add) and a.t.kind != "nd":
            return self.seq_concat(st, a, b)
        if a.t is not None and isinstance(a.t, TPy) and a.t.what == "emptylist" and isinstance(b.t, TSeq):
            return b
        if isinstance(b.t, TPy) and b.t.what == "emptylist" and isinstance(a.t, TSeq):
            return a
        if isinstance(a.t, TSeq) and b.t == INT and isinstance(op, ast.Mult) and a.t.kind != "nd":
            # [x] * n  (only for singleton literal-like sequences)
            la = self.seq_len(a)
            aa = a.t.arr(a.z)
            n = z3.If(b.z > 0, b.z, z3.IntVal(0))
            self.oblige(st, "safety.repeat_singleton", la == 1, "safety", node, "[x] * n needs a 1-element list")
            return self.new_seq(st, a.t.elem, n, lambda j: aa[0], a.t.kind, "rep")
        if isinstance(a.t, TOpt) and a.t.inner in (INT, REAL):
            a = self.unwrap(st, a, node, "left operand")
        if isinstance(b.t, TOpt) and b.t.inner in (INT, REAL):
            b = self.unwrap(st, b, node, "right operand")
        if a.t in (INT, REAL, BOOL) and b.t in (INT, REAL, BOOL):
            if isinstance(op, ast.Div):
                x, y = self.to_real(a), self.to_real(b)
                if not st.spec:
                    self.oblige(st, "safety.div_by_zero", y != 0, "safety", node, "division by zero")
                return SV(REAL, x / y)
            x, y, t = self.unify_num(a, b)
            if isinstance(op, ast.Add):
                return SV(t, x + y)
            if isinstance(op, ast.Sub):
                return SV(t, x - y)
            if isinstance(op, ast.Mult):
                return SV(t, x * y)
            if isinstance(op, (ast.FloorDiv, ast.Mod)) and t == INT:
                if not st.spec:
                    self.oblige(st, "safety.div_by_zero", y != 0, "safety", node, "integer division by zero")
                    self.oblige(st, "safety.positive_divisor", y > 0, "safety", node,
                                "floor semantics modelled for positive divisors only")
                return SV(INT, x / y if isinstance(op, ast.FloorDiv) else x % y)
            if isinstance(op, ast.Pow) and z3.is_int_value(y) and y.as_long() == 2:
                return SV(t, x * x)
            if t == INT and a.t == BOOL and b.t == BOOL:
                if isinstance(op, ast.BitAnd):
                    return SV(BOOL, z3.And(a.z, b.z))
                if isinstance(op, ast.BitOr):
                    return SV(BOOL, z3.Or(a.z, b.z))
        if isinstance(a.t, TSet) and isinstance(b.t, TSet):
            return self.lib.set_binop(self, st, op, a, b)
        raise Unsupported("binary %s on %s, %s" % (type(op).__name__, a.t, b.t))

    def ev_Compare(self, st, node):
        left = self.ev(st, node.left)
        conj = []
        for op, rn in zip(node.ops, node.comparators):
            right = self.ev(st, rn)
            r = self.compare(st, op, left, right, node)
            if isinstance(r, SV):      # element-wise comparison of arrays: the result is an array
                if len(node.ops) != 1:
                    raise Unsupported("chained element-wise comparison")
                return r
            conj.append(r)
            left = right
        return SV(BOOL, conj[0] if len(conj) == 1 else z3.And(*conj))

    def compare(self, st, op, a, b, node=None):
        r = self.lib.compare(self, st, op, a, b, node)
        if r is not None:
            return r
        if isinstance(op, (ast.Is, ast.Eq)):
            return self.values_eq(a, b)
        if isinstance(op, (ast.IsNot, ast.NotEq)):
            return z3.Not(self.values_eq(a, b))
        if isinstance(op, (ast.In, ast.NotIn)):
            res = self.contains(st, b, a)
            return res if isinstance(op, ast.In) else z3.Not(res)
        if isinstance(a.t, TOpt):
            a = SV(a.t.inner, a.t.val(a.z))
        if isinstance(b.t, TOpt):
            b = SV(b.t.inner, b.t.val(b.z))
        if a.t in (INT, REAL, BOOL) and b.t in (INT, REAL, BOOL):
            x, y, _ = self.unify_num(a, b)
            return {ast.Lt: lambda: x < y, ast.LtE: lambda: x <= y,
                    ast.Gt: lambda: x > y, ast.GtE: lambda: x >= y}[type(op)]()
        raise Unsupported("comparison %s on %s, %s" % (type(op).__name__, a.t, b.t))

    def contains(self, st, container, item):
        t = container.t
        if isinstance(t, TSeq):
            j = self.bvar("c")
            return z3.Exists([j], z3.And(0 <= j, j < t.len(container.z),
                                         t.arr(container.z)[j] == self.coerce(item, t.elem).z))
        if isinstance(t, TSet):
            return z3.Select(container.z, self.coerce(item, t.elem).z)
        if isinstance(t, TDict):
            return z3.Select(t.has(container.z), self.coerce(item, t.k).z)
        raise Unsupported("membership in %s" % t)

    def ev_Subscript(self, st, node):
        # x.shape[0]
        if (isinstance(node.value, ast.Attribute) and node.value.attr == "shape"):
            base = self.ev(st, node.value.value)
            if isinstance(base.t, TSeq):
                return SV(INT, self.seq_len(base))
        base = self.unwrap(st, self.ev(st, node.value), node, "subscripted object")
        sl = node.slice
        if isinstance(sl, ast.Tuple) and len(sl.elts) == 2 and isinstance(sl.elts[1], ast.Slice) and \
                sl.elts[1].lower is None and sl.elts[1].upper is None and isinstance(base.t, TSeq):
            sl = sl.elts[0]          # a[rows, :] on a 2-D array = row selection
        idx = self.ev(st, sl)
        return self.subscript(st, base, idx, node)

    def subscript(self, st, base, idx, node=None):
        r = self.lib.subscript(self, st, base, idx, node)
        if r is not None:
            return r
        if isinstance(base.t, TSeq):
            if idx.t is SLICE:
                lo, hi = idx.py
                ln = self.seq_len(base)

                def bound(b, dflt):
                    if b is None or b.t is NONE:
                        return None
                    if isinstance(b.t, TOpt):    # a[x:end] with end possibly None
                        return z3.If(b.t.is_none(b.z), dflt, b.t.val(b.z))
                    return b.z
                return self.seq_slice(st, base, bound(lo, z3.IntVal(0)), bound(hi, ln))
            if idx.t == INT:
                ln = self.seq_len(base)
                i = idx.z
                if z3.is_int_value(i) and i.as_long() < 0:
                    i = ln + i
                if not st.spec:
                    self.oblige(st, "safety.index", z3.And(0 <= i, i < ln), "safety", node,
                                "index in bounds: " + src_prefix(node) if node is not None else "index")
                return self.seq_get(base, i)
        if isinstance(base.t, TTuple) and idx.t == INT and z3.is_int_value(idx.z):
            k = idx.z.as_long()
            return SV(base.t.elems[k], base.t.get(base.z, k))
        if isinstance(base.t, TPy) and base.t.what == "pytuple" and idx.t == INT and z3.is_int_value(idx.z):
            return base.py[idx.z.as_long()]
        if isinstance(base.t, TMap):
            return SV(base.t.v, z3.Select(base.z, self.coerce(idx, base.t.k).z))
        if isinstance(base.t, TDict):
            k = self.coerce(idx, base.t.k)
            if not st.spec:
                self.oblige(st, "safety.key", z3.Select(base.t.has(base.z), k.z), "safety", node,
                            "key present: " + (src_prefix(node) if node is not None else ""))
            return SV(base.t.v, z3.Select(base.t.vals(base.z), k.z))
        raise Unsupported("subscript %s[%s]" % (base.t, idx.t))

    def ev_Dict(self, st, node):
        if not node.keys:
            return SV(TPy("emptydict"), py={})
        t = getattr(st, "_expect_dict", None)
        if t is None or any(k is None for k in node.keys):
            raise Unsupported("dict literal without a declared dict type for its target")
        st._expect_dict = None
        d = self.lib.dict_empty(self, st, t)
        for kn, vn in zip(node.keys, node.values):
            k = self.coerce(self.ev(st, kn), t.k)
            if isinstance(t.v, TSeq):
                st._expect_elem = t.v.elem
            try:
                v = self.coerce_decl(st, self.ev(st, vn), t.v)
            finally:
                st._expect_elem = None
            d = self.lib.dict_set(self, st, d, k, v)
        return d

    def ev_Lambda(self, st, node):
        return SV(FUNC, py=("lambda", node, dict(st.env)))

    def ev_JoinedStr(self, st, node):
        # f-strings used as messages / labels: an opaque string determined by its parts
        parts = []
        for v in node.values:
            if isinstance(v, ast.FormattedValue):
                parts.append(self.ev(st, v.value))
        key = "fstr_" + hashlib.md5(ast.unparse(node).encode()).hexdigest()[:8]
        sorts = [p.t.sort() for p in parts if not isinstance(p.t, TPy)]
        f = self.uf(key, *(sorts + [STR.sort()]))
        return SV(STR, f(*[p.z for p in parts if not isinstance(p.t, TPy)]) if sorts else
                  z3.Const(key, STR.sort()))

    def ev_Call(self, st, node):
        return self.lib.call(self, st, node)

    def ev_ListComp(self, st, node):
        return self.lib.comprehension(self, st, node)

    def ev_GeneratorExp(self, st, node):
        return SV(TPy("genexp"), py=node)

    def ev_DictComp(self, st, node):
        """{x: VALUE(x) for x in xs} assigned to a local of declared dict type.  Only the form whose key is the
        loop variable itself (so that equal keys get equal values whatever the order) and without filter."""
        t = getattr(st, "_expect_dict", None)
        if t is None:
            raise Unsupported("dict comprehension without a declared dict type for its target")
        if len(node.generators) != 1:
            raise Unsupported("nested dict comprehension")
        gen = node.generators[0]
        if gen.ifs or not isinstance(gen.target, ast.Name) or not isinstance(node.key, ast.Name) or \
                node.key.id != gen.target.id:
            raise Unsupported("dict comprehension whose key is not the loop variable / with a filter")
        xs = self.ev(st, gen.iter)
        if not isinstance(xs.t, TSeq) or xs.t.elem.key() != t.k.key():
            raise Unsupported("dict comprehension over %s for %s" % (xs.t, t))
        n = self.seq_len(xs)
        xa = xs.t.arr(xs.z)
        j = self.bvar("dc")
        saved = dict(st.env)
        st._expect_dict = None
        self.push_binder(st, [j], z3.And(0 <= j, j < n))
        try:
            st.env[gen.target.id] = self.seq_get(xs, j)
            if isinstance(t.v, TSeq):
                st._expect_elem = t.v.elem
            v = self.coerce_decl(st, self.ev(st, node.value), t.v)
        finally:
            st._expect_elem = None
            self.pop_binder(st)
            st.env = saved
        r = self.fresh("dictcomp", t)
        for f in self.wf(r):
            self.assume(st, f)
        has, vals = t.has(r.z), t.vals(r.z)
        self.assume(st, z3.ForAll([j], z3.Implies(z3.And(0 <= j, j < n),
                                                  z3.And(z3.Select(has, xa[j]), z3.Select(vals, xa[j]) == v.z)),
                                  patterns=[xa[j]]))
        kx = z3.Const("dc_k", t.k.sort())
        pos = self.uf("dcpos_" + t.key(), t.sort(), t.k.sort(), z3.IntSort())
        p_ = pos(r.z, kx)
        self.assume(st, z3.ForAll([kx], z3.Implies(z3.Select(has, kx), z3.And(0 <= p_, p_ < n, xa[p_] == kx)),
                                  patterns=[z3.Select(has, kx)]))
        a, b = self.bvar("da"), self.bvar("db")
        distinct = z3.ForAll([a, b], z3.Implies(z3.And(0 <= a, a < b, b < n), xa[a] != xa[b]),
                             patterns=[z3.MultiPattern(xa[a], xa[b])])
        self.assume(st, z3.Implies(distinct, t.keys(r.z) == xs.z))
        self.used_lib.add("dict comprehension {x: f(x) for x in xs}: domain = the elements of xs, value f(x); key "
                          "order = xs when xs has no duplicates")
        return r

    def ev_Starred(self, st, node):
        raise Unsupported("starred expression")

    # ------------------------------------------------------------------ spec evaluation
    def spec(self, st, text, extra=None, witness=None):
        """Evaluate a specification expression (text) to a z3 Bool in state st.
        witness: {bound variable name: spec text}: existentials over these variables are replaced by the
        instance at the witness (instance => exists, so proving the instance is sound)."""
        if isinstance(witness, (list, tuple)):
            # several candidate witnesses: any instance implies the existential
            return z3.Or(*[self.spec(st, text, extra, w) for w in witness])
        try:
            tree = ast.parse(text.strip(), mode="eval").body
        except SyntaxError as e:
            raise Unsupported("spec syntax: %s in %r" % (e, text))
        s2 = st.fork()
        s2.spec = True
        s2.guards = []
        s2.binders = []
        if extra:
            s2.env.update(extra)
        before = len(s2.hyps)
        s2.witness = {}
        if witness:
            for wn, wt in witness.items():
                s2.witness[wn] = LazySpec(self, wt)     # evaluated where it is used (may mention bound variables)
        v = self.ev(s2, tree)
        # definitional axioms produced while evaluating the spec (slices, concatenations) are kept, and so are
        # the memoised terms they define (the same expression in code and spec then denotes the same term)
        for h in s2.hyps[before:]:
            st.hyps.append(h)
        st.memo.update(s2.memo)
        set.update(st.seen, s2.seen)
        if hasattr(s2, "join_terms"):
            st.join_terms = list(s2.join_terms)
        return self.truth(v)

    # ------------------------------------------------------------------ statements
    def run_block(self, st, stmts):
        """-> list of (state, ctl, payload)"""
        states = [(st, NEXT, None)]
        for s in stmts:
            nxt = []
            for (cur, ctl, pay) in states:
                if ctl != NEXT:
                    nxt.append((cur, ctl, pay))
                    continue
                nxt.extend(self.run_stmt_anchored(cur, s))
            states = nxt
        return states

    def ghost_do(self, st, items, where):
        for g in items:
            self.ghost_stmt(st, g, where)

    def ghost_stmt(self, st, text, where=""):
        text = text.strip()
        if text.startswith("assert "):
            body = text[len("assert "):]
            self.oblige(st, "ghost.assert@%s" % where, self.spec(st, body), "assert", None, body)
        elif text.startswith("lemma "):
            call = ast.parse(text[len("lemma "):].strip(), mode="eval").body
            lname = call.func.id
            lem = self.lemmas.get(lname)
            if lem is None:
                raise Stale("unknown lemma %s" % lname)
            s2 = st.fork()
            s2.spec = True
            args = [self.ev(s2, a) for a in call.args]
            bind = {}
            for (pn, pt), a in zip(lem.params.items(), args):
                bind[pn] = self.coerce(a, parse_type(pt))
            for r in lem.requires:
                self.oblige(st, "lemma-call.%s.pre@%s" % (lname, where), self.spec(st, r, bind), "lemma-call",
                            None, r)
            for e in lem.ensures:
                st.hyps.append(self.spec(st, e, bind))
        elif text.startswith("let "):
            name, expr = text[4:].split("=", 1)
            s2 = st.fork()
            s2.spec = True
            v = self.ev(s2, ast.parse(expr.strip(), mode="eval").body)
            for h in s2.hyps[len(st.hyps):]:
                st.hyps.append(h)
            st.memo.update(s2.memo)
            set.update(st.seen, s2.seen)
            if hasattr(s2, "join_terms"):
                st.join_terms = list(s2.join_terms)
            st.env[name.strip()] = v
        elif text.startswith("havoc "):
            self.havoc(st, text[6:].strip())
        elif text.startswith("set "):
            # ghost update:  set m[key] = value   (maps / sequences declared in `locals`)
            tree = ast.parse(text[4:].strip()).body[0]
            s2 = st.fork()
            s2.spec = True
            s2.hyps = st.hyps
            val = self.ev(s2, tree.value)
            spec_was = st.spec
            st.spec = True
            try:
                self.assign_to(st, tree.targets[0], val, tree)
            finally:
                st.spec = spec_was
        elif text.startswith("mark "):
            # mark NAME(x, y): makes the marker term NAME(x, y) available to e-matching.  Markers occur ONLY in
            # triggers of quantified facts (never in a formula), so assuming the marker atom is conservative.
            call = ast.parse(text[5:].strip(), mode="eval").body
            s2 = st.fork()
            s2.spec = True
            args = [self.to_int(self.ev(s2, a)) for a in call.args]
            f = self.uf("marker_" + call.func.id, *([z3.IntSort()] * len(args) + [z3.BoolSort()]))
            st.hyps.append(f(*args))
        elif text.startswith("defseq "):
            # ghost sequence defined point-wise:  defseq NAME[p : LEN] = EXPR(p)
            import re as _re
            m = _re.match(r"defseq\s+(\w+)\[(\w+)\s*:\s*(.+?)\]\s*=\s*(.+)$", text, _re.S)
            if not m:
                raise Unsupported("defseq syntax: %r" % text)
            name, var, ln_txt, expr = m.groups()
            s2 = st.fork()
            s2.spec = True
            s2.hyps = st.hyps
            ln = self.to_int(self.ev(s2, ast.parse(ln_txt, mode="eval").body))
            j = self.bvar(var)
            s2.env[var] = SV(INT, j)
            self.push_binder(s2, [j], z3.And(0 <= j, j < ln))
            try:
                val = self.ev(s2, ast.parse(expr, mode="eval").body)
            finally:
                self.pop_binder(s2)
            t = TSeq(val.t, "list")
            r = self.fresh(name, t)
            st.hyps.append(t.len(r.z) == ln)
            st.hyps.append(z3.ForAll([j], z3.Implies(z3.And(0 <= j, j < ln), t.arr(r.z)[j] == val.z),
                                     patterns=[t.arr(r.z)[j]]))
            st.env[name] = r
        elif text.startswith("ghost "):
            # ghost declaration:  ghost name: type   (an arbitrary initial value)
            name, ty = text[6:].split(":", 1)
            nv = self.fresh(name.strip(), parse_type(ty.strip()))
            for f in self.wf(nv):
                st.hyps.append(f)
            st.env[name.strip()] = nv
        else:
            raise Unsupported("ghost statement %r" % text)

    def run_stmt_anchored(self, st, s):
        pre = src_prefix(s)
        befores = [g for g in self.c.ghost_at if "before" in g and pre.startswith(g["before"])]
        afters = [g for g in self.c.ghost_at if "after" in g and pre.startswith(g["after"])]
        for g in befores:
            self.anchors_hit.add(g["before"])
            self.ghost_do(st, g["do"], "before:" + g["before"])
        outs = self.run_stmt(st, s)
        if afters:
            for (cur, ctl, pay) in outs:
                if ctl == NEXT:
                    for g in afters:
                        self.anchors_hit.add(g["after"])
                        self.ghost_do(cur, g["do"], "after:" + g["after"])
        return outs

    def run_stmt(self, st, s):
        m = getattr(self, "st_" + type(s).__name__, None)
        if m is None:
            return self.abstract_stmt(st, s, "statement kind %s" % type(s).__name__)
        try:
            return m(st, s)
        except DeadPath:
            return []
        except Unsupported as e:
            return self.abstract_stmt(st, s, str(e))

    def abstract_stmt(self, st, s, why):
        """Over-approximate an unsupported statement by havocking everything it may assign."""
        pre = src_prefix(s)
        names = assigned_names([s])
        untyped = [n for n in names if n not in st.env and n not in self.c.locals]
        listed = any(pre.startswith(a) for a in self.c.abstract_ok)
        if not listed:
            # a statement the engine (or a specification clause attached to it) cannot handle is abstracted only
            # when the contract says so; otherwise the contract does not apply to this code any more (STALE) -
            # silently havocking it would turn a harmless refactoring into failing obligations further down
            raise Unsupported("statement %r is not supported (%s) and not listed in abstract_ok" % (pre, why))
        if untyped and not listed:
            raise Unsupported("cannot abstract %r (%s): no type for %s" % (pre, why, untyped))
        for n in names:
            if n in st.env:
                self.havoc(st, n)
            elif n in self.c.locals:
                nv = self.fresh(n, parse_type(self.c.locals[n]))
                for f in self.wf(nv):
                    st.hyps.append(f)
                st.env[n] = nv
        self.abstracted.append({"stmt": pre, "line": getattr(s, "lineno", 0), "why": why})
        return [(st, NEXT, None)]

    def split_exc(self, st):
        """Fork on exceptions registered by callee contracts while evaluating the current statement."""
        outs = []
        if st.pending_exc:
            pend = st.pending_exc
            st.pending_exc = []
            normal = []
            for cond, exc in pend:
                e = st.fork()
                e.hyps.append(cond)
                e.path.append("raises " + exc)
                outs.append((e, RAISE, (exc, None)))
                normal.append(z3.Not(cond))
            st.hyps.extend(normal)
        return outs

    def st_Expr(self, st, s):
        if isinstance(s.value, ast.Constant):
            return [(st, NEXT, None)]   # docstring
        if isinstance(s.value, ast.Call):
            f = s.value.func
            fn = ast.unparse(f)
            if fn.startswith(("LOGGER.", "logging.", "warnings.warn", "print")):
                return [(st, NEXT, None)]
        if isinstance(s.value, (ast.Yield, ast.YieldFrom)):
            return self.do_yield(st, s.value)
        self.ev(st, s.value)
        outs = self.split_exc(st)
        return outs + [(st, NEXT, None)]

    def do_yield(self, st, y):
        if isinstance(y, ast.YieldFrom):
            v = self.ev(st, y.value)
            cur = st.env["yielded"]
            st.env["yielded"] = self.seq_concat(st, cur, self.coerce_seq(v, cur.t))
            return [(st, NEXT, None)]
        v = self.ev(st, y.value)
        cur = st.env.get("yielded")
        if cur is None:
            raise Unsupported("yield without `yields` type in the contract")
        if v.t is RECORD and isinstance(cur.t.elem, TTuple):
            # a record (e.g. frame = rows + index) is yielded as the tuple of its fields; fields re-assigned
            # through `name.field = ...` take precedence
            fields = []
            for k, fname in enumerate(v.py):
                fv = v.py[fname]
                if isinstance(y.value, ast.Name) and (y.value.id + "." + fname) in st.env:
                    fv = st.env[y.value.id + "." + fname]
                fields.append(self.coerce(fv, cur.t.elem.elems[k]))
            v = SV(cur.t.elem, cur.t.elem.mk([f.z for f in fields]))
        v = self.coerce(v, cur.t.elem)
        ln = self.seq_len(cur)
        st.env["yielded"] = SV(cur.t, cur.t.mk(z3.Store(cur.t.arr(cur.z), ln, v.z), ln + 1))
        return [(st, NEXT, None)]

    def coerce_seq(self, v, t):
        if isinstance(v.t, TSeq) and v.t.elem == t.elem:
            return SV(t, v.z)
        raise Unsupported("yield from %s into %s" % (v.t, t))

    def assign_to(self, st, target, val, node):
        if isinstance(target, ast.Name):
            n = target.id
            if n in self.c.locals:
                val = self.coerce_decl(st, val, parse_type(self.c.locals[n]))
            elif n in st.env and not isinstance(st.env[n].t, TPy) and not isinstance(val.t, TPy) \
                    and st.env[n].t != val.t:
                try:
                    val = self.coerce(val, st.env[n].t)
                except Unsupported:
                    pass
            st.env[n] = val
            return
        if isinstance(target, (ast.Tuple, ast.List)):
            if isinstance(val.t, TTuple):
                if len(val.t.elems) != len(target.elts):
                    raise Unsupported("unpack arity")
                for k, e in enumerate(target.elts):
                    self.assign_to(st, e, SV(val.t.elems[k], val.t.get(val.z, k)), node)
                return
            if isinstance(val.t, TPy) and val.t.what == "pytuple":
                for e, v in zip(target.elts, val.py):
                    self.assign_to(st, e, v, node)
                return
            if isinstance(val.t, TSeq):
                ln = self.seq_len(val)
                self.oblige(st, "safety.unpack", ln == len(target.elts), "safety", node, "unpack arity")
                for k, e in enumerate(target.elts):
                    self.assign_to(st, e, self.seq_get(val, z3.IntVal(k)), node)
                return
            raise Unsupported("unpack of %s" % val.t)
        if isinstance(target, ast.Attribute) and isinstance(target.value, ast.Name):
            full = target.value.id + "." + target.attr
            if full in self.c.locals:
                val = self.coerce_decl(st, val, parse_type(self.c.locals[full]))
            elif target.value.id == "self" and target.attr in self.c.self_fields:
                val = self.coerce_decl(st, val, parse_type(self.c.self_fields[target.attr]))
            st.env[full] = val
            return
        if isinstance(target, ast.Subscript):
            r = self.lib.store(self, st, target, val, node)
            if r:
                return
            if isinstance(target.value, ast.Name):
                bn = target.value.id
            elif isinstance(target.value, ast.Attribute) and isinstance(target.value.value, ast.Name):
                bn = target.value.value.id + "." + target.value.attr
            elif isinstance(target.value, ast.Subscript) and isinstance(target.value.value, ast.Name):
                # a[i][j] = v  /  d[k] += ...  (nested one level)
                outer = target.value.value.id
                ob = st.env[outer]
                oi = self.ev(st, target.value.slice)
                inner = self.subscript(st, ob, oi, target.value)
                tmpn = "__tmp_inner"
                st.env[tmpn] = inner
                fake = ast.Subscript(value=ast.Name(id=tmpn, ctx=ast.Load()), slice=target.slice, ctx=ast.Store())
                self.assign_to(st, fake, val, node)
                newinner = st.env.pop(tmpn)
                self.store_into(st, outer, ob, oi, newinner, node)
                return
            else:
                raise Unsupported("store target %s" % src_prefix(target))
            base = st.env.get(bn)
            if base is None:
                raise Unsupported("store into unknown %s" % bn)
            idx = self.ev(st, target.slice)
            self.store_into(st, bn, base, idx, val, node)
            return
        raise Unsupported("assignment target %s" % type(target).__name__)

    def store_into(self, st, bn, base, idx, val, node):
        if isinstance(base.t, TSeq) and idx.t == INT:
            ln = self.seq_len(base)
            i = idx.z
            if z3.is_int_value(i) and i.as_long() < 0:
                i = ln + i
            self.oblige(st, "safety.index", z3.And(0 <= i, i < ln), "safety", node,
                        "store index in bounds: " + src_prefix(node))
            v = self.coerce(val, base.t.elem)
            st.env[bn] = SV(base.t, base.t.mk(z3.Store(base.t.arr(base.z), i, v.z), ln))
            return
        if isinstance(base.t, TSeq) and idx.t is SLICE:
            lo, hi = idx.py
            ln = self.seq_len(base)
            lo_z = z3.IntVal(0) if lo is None else self.clamp_index(lo.z, ln)
            hi_z = ln if hi is None else self.clamp_index(hi.z, ln)
            aa = base.t.arr(base.z)
            if isinstance(val.t, TSeq):
                va = val.t.arr(val.z)
                self.oblige(st, "safety.slice_assign_len", self.seq_len(val) == z3.If(hi_z >= lo_z, hi_z - lo_z, 0),
                            "safety", node, "slice assignment keeps the length (ndarray / equal-length list)")
                fn = lambda j: z3.If(z3.And(lo_z <= j, j < hi_z), va[j - lo_z], aa[j])
            else:
                if base.t.kind != "nd":
                    raise Unsupported("scalar slice assignment on a list")
                v = self.coerce(val, base.t.elem)
                fn = lambda j: z3.If(z3.And(lo_z <= j, j < hi_z), v.z, aa[j])
            st.env[bn] = self.new_seq(st, base.t.elem, ln, fn, base.t.kind, bn.replace(".", "_"))
            return
        if isinstance(base.t, TMap):
            st.env[bn] = SV(base.t, z3.Store(base.z, self.coerce(idx, base.t.k).z, self.coerce(val, base.t.v).z))
            return
        if isinstance(base.t, TDict):
            k = self.coerce(idx, base.t.k)
            v = self.coerce_decl(st, val, base.t.v)
            st.env[bn] = self.lib.dict_set(self, st, base, k, v)
            return
        raise Unsupported("store %s[%s]" % (base.t, idx.t))

    def coerce_decl(self, st, val, t):
        if isinstance(val.t, TPy) and val.t.what == "emptylist" and isinstance(t, TSeq):
            return self.seq_lit(st, [], t.elem, t.kind)
        if isinstance(val.t, TPy) and val.t.what == "emptylist" and isinstance(t, TOpt) and isinstance(t.inner, TSeq):
            return SV(t, t.some(self.seq_lit(st, [], t.inner.elem, t.inner.kind).z))
        if isinstance(val.t, TPy) and val.t.what == "emptydict" and isinstance(t, TDict):
            return self.lib.dict_empty(self, st, t)
        return self.coerce(val, t)

    def st_Assign(self, st, s):
        if len(s.targets) == 1 and isinstance(s.targets[0], ast.Name) and s.targets[0].id in self.c.locals:
            t = parse_type(self.c.locals[s.targets[0].id])
            if isinstance(t, TSeq):
                st._expect_elem = t.elem
            if isinstance(t, TDict):
                st._expect_dict = t
        try:
            val = self.ev(st, s.value)
        finally:
            st._expect_elem = None
            st._expect_dict = None
        outs = self.split_exc(st)
        for tg in s.targets:
            self.assign_to(st, tg, val, s)
        return outs + [(st, NEXT, None)]

    def st_AnnAssign(self, st, s):
        if s.value is None:
            return [(st, NEXT, None)]
        val = self.ev(st, s.value)
        outs = self.split_exc(st)
        self.assign_to(st, s.target, val, s)
        return outs + [(st, NEXT, None)]

    def st_AugAssign(self, st, s):
        cur = self.ev(st, ast.fix_missing_locations(_load(s.target)))
        val = self.ev(st, s.value)
        outs = self.split_exc(st)
        res = self.binop(st, s.op, cur, val, s)
        self.assign_to(st, s.target, res, s)
        return outs + [(st, NEXT, None)]

    def st_Pass(self, st, s):
        return [(st, NEXT, None)]

    def st_Delete(self, st, s):
        outs = []
        for tg in s.targets:
            if isinstance(tg, ast.Name):
                st.env.pop(tg.id, None)
            elif isinstance(tg, ast.Attribute):
                pass
            elif isinstance(tg, ast.Subscript):
                if not self.lib.delete(self, st, tg, s):
                    raise Unsupported("del %s" % src_prefix(tg))
            else:
                raise Unsupported("del target")
        return outs + [(st, NEXT, None)]

    def st_Assert(self, st, s):
        c = self.truth(self.ev(st, s.test))
        bad = st.fork()
        bad.hyps.append(z3.Not(c))
        bad.path.append("assert fails")
        st.hyps.append(c)
        return [(bad, RAISE, ("AssertionError", None)), (st, NEXT, None)]

    def st_If(self, st, s):
        # static resolution of isinstance-style tests is done by lib via BoolVal
        c = self.truth(self.ev(st, s.test))
        pre_exc = self.split_exc(st)
        c = z3.simplify(c)
        outs = list(pre_exc)
        if not z3.is_false(c):
            a = st.fork()
            if not z3.is_true(c):
                a.hyps.append(c)
                a.path.append("L%d:then" % s.lineno)
            outs += self.run_block(a, s.body)
        if not z3.is_true(c):
            b = st.fork()
            if not z3.is_false(c):
                b.hyps.append(z3.Not(c))
                b.path.append("L%d:else" % s.lineno)
            outs += self.run_block(b, s.orelse)
        return outs

    def st_Return(self, st, s):
        val = self.ev(st, s.value) if s.value is not None else SV(NONE)
        outs = self.split_exc(st)
        return outs + [(st, RETURN, val)]

    def st_Raise(self, st, s):
        name = "Exception"
        if s.exc is not None:
            e = s.exc
            if isinstance(e, ast.Call):
                e = e.func
            if isinstance(e, ast.Name):
                name = e.id
                if name in st.env and isinstance(st.env[name].t, TPy) and st.env[name].t.what == "exc":
                    name = st.env[name].py
            elif isinstance(e, ast.Attribute):
                name = e.attr
        else:
            name = st.env.get("__current_exc", SV(TPy("exc"), py="Exception")).py
        return [(st, RAISE, (name, None))]

    def st_Break(self, st, s):
        return [(st, BREAK, None)]

    def st_Continue(self, st, s):
        return [(st, CONTINUE, None)]

    def st_With(self, st, s):
        for it in s.items:
            ce = ast.unparse(it.context_expr)
            if ce.startswith("warnings."):
                continue
            r = self.lib.with_item(self, st, it)
            if not r:
                raise Unsupported("with %s" % ce)
        outs = self.run_block(st, s.body)
        final = []
        for (cur, ctl, pay) in outs:
            for it in s.items:
                self.lib.with_exit(self, cur, it)
            final.append((cur, ctl, pay))
        return final

    def st_Try(self, st, s):
        outs = self.run_block(st, s.body)
        res = []
        for (cur, ctl, pay) in outs:
            if ctl == RAISE:
                handled = False
                for h in s.handlers:
                    names = handler_names(h)
                    if pay[0] in names or "Exception" in names or "BaseException" in names or not names:
                        handled = True
                        if h.name:
                            cur.env[h.name] = SV(TPy("exc"), py=pay[0])
                        cur.env["__current_exc"] = SV(TPy("exc"), py=pay[0])
                        cur.path.append("except " + pay[0])
                        res += self.run_block(cur, h.body)
                        break
                if not handled:
                    res.append((cur, ctl, pay))
            elif ctl == NEXT and s.orelse:
                res += self.run_block(cur, s.orelse)
            else:
                res.append((cur, ctl, pay))
        if s.finalbody:
            final = []
            for (cur, ctl, pay) in res:
                for (c2, ctl2, pay2) in self.run_block(cur, s.finalbody):
                    if ctl2 == NEXT:
                        final.append((c2, ctl, pay))
                    else:
                        final.append((c2, ctl2, pay2))
            res = final
        return res

    def st_FunctionDef(self, st, s):
        st.env[s.name] = SV(FUNC, py=("localdef", s, None))
        return [(st, NEXT, None)]

    def st_Import(self, st, s):
        return [(st, NEXT, None)]

    st_ImportFrom = st_Import

    # ------------------------------------------------------------------ loops
    def loop_spec(self, s):
        o = self.loop_ord.get(id(s))
        if o is None:
            raise Stale("loop at line %d has no ordinal" % s.lineno)
        lp = self.c.loops.get(o)
        if lp is None:
            raise Stale("loop %d (line %d: %s) has no invariant in the contract" % (o, s.lineno, src_prefix(s)))
        return o, lp

    def check_invariant(self, st, o, lp, phase, node, extra_implicit=()):
        for k, z in enumerate(extra_implicit):
            self.oblige(st, "loop%d.%s.implicit%d" % (o, phase, k), z, "invariant-" + phase, node, "0 <= k <= n")
        for k, inv in enumerate(lp.invariant):
            self.oblige(st, "loop%d.%s.inv%d" % (o, phase, k),
                        self.spec(st, inv, witness=getattr(lp, "witness", {}).get(inv)), "invariant-" + phase,
                        node, inv)

    def assume_invariant(self, st, lp):
        for inv in lp.invariant:
            st.hyps.append(self.spec(st, inv))

    def st_While(self, st, s):
        o, lp = self.loop_spec(s)
        self._cur_loop_ghost = lp.ghost_pre + lp.ghost_post
        mods = self.modified_in(s.body, st)
        self._cur_loop_ghost = []
        self.check_invariant(st, o, lp, "init", s)
        outs = []
        # preserve
        b = st.fork()
        for n in mods:
            self.havoc(b, n)
        self.assume_invariant(b, lp)
        g = self.truth(self.ev(b, s.test))
        b.hyps.append(g)
        b.path.append("loop%d:body" % o)
        self.canaries.append(("loop%d.body-reachable" % o, list(b.hyps)))
        self.ghost_do(b, lp.ghost_pre, "loop%d.pre" % o)
        dec0 = None
        if lp.decreases:
            dec0 = self.ev_spec_value(b, lp.decreases)
        for (cur, ctl, pay) in self.run_block(b, s.body):
            if ctl in (NEXT, CONTINUE):
                self.ghost_do(cur, lp.ghost_post, "loop%d.post" % o)
                self.check_invariant(cur, o, lp, "preserve", s)
                if dec0 is not None:
                    d1 = self.ev_spec_value(cur, lp.decreases)
                    self.oblige(cur, "loop%d.decreases" % o, z3.And(d1.z < dec0.z, dec0.z >= 0), "decreases", s,
                                lp.decreases)
            elif ctl == BREAK:
                outs.append((cur, NEXT, None))
            else:
                outs.append((cur, ctl, pay))
        # use
        a = st.fork()
        for n in mods:
            self.havoc(a, n)
        self.assume_invariant(a, lp)
        g = self.truth(self.ev(a, s.test))
        a.hyps.append(z3.Not(g))
        a.path.append("loop%d:exit" % o)
        if s.orelse:
            outs += self.run_block(a, s.orelse)
        else:
            outs.append((a, NEXT, None))
        return outs

    def ev_spec_value(self, st, text):
        s2 = st.fork()
        s2.spec = True
        return self.ev(s2, ast.parse(text, mode="eval").body)

    def st_For(self, st, s):
        o, lp = self.loop_spec(s)
        it = self.lib.iteration(self, st, s.iter)   # -> (n: z3 Int, bind(state, k) -> value SV or list)
        outs0 = self.split_exc(st)
        n, getter = it
        kname = lp.counter or ("_k%d" % o)
        self._cur_loop_ghost = lp.ghost_pre + lp.ghost_post
        mods = [m for m in self.modified_in(s.body, st) if m != kname]
        self._cur_loop_ghost = []
        tnames = assigned_names([ast.Assign(targets=[s.target], value=ast.Constant(0))])

        def bind(state, k):
            state.env[kname] = SV(INT, k)
            state.spec = True
            try:
                val = getter(state, k)
            finally:
                state.spec = False
            self.assign_to(state, s.target, val, s)

        # init
        bind(st, z3.IntVal(0))
        self.check_invariant(st, o, lp, "init", s, [n >= 0])
        outs = list(outs0)
        # preserve
        b = st.fork()
        for m in mods:
            self.havoc(b, m)
        k = self.fresh_z("k%d" % o, z3.IntSort())
        b.hyps.append(z3.And(0 <= k, k < n))
        bind(b, k)
        self.assume_invariant(b, lp)
        b.path.append("loop%d:body" % o)
        self.canaries.append(("loop%d.body-reachable" % o, list(b.hyps)))
        self.ghost_do(b, lp.ghost_pre, "loop%d.pre" % o)
        for (cur, ctl, pay) in self.run_block(b, s.body):
            if ctl in (NEXT, CONTINUE):
                self.ghost_do(cur, lp.ghost_post, "loop%d.post" % o)
                bind(cur, k + 1)
                self.check_invariant(cur, o, lp, "preserve", s)
            elif ctl == BREAK:
                for tn in tnames:
                    pass
                outs.append((cur, NEXT, None))
            else:
                outs.append((cur, ctl, pay))
        # use
        a = st.fork()
        for m in mods:
            self.havoc(a, m)
        bind(a, n)
        self.assume_invariant(a, lp)
        a.path.append("loop%d:exit" % o)
        # after the loop the target variable holds the last element (python) - not the virtual next one
        for tn in tnames:
            if tn in a.env:
                self.havoc(a, tn)
        if s.orelse:
            outs += self.run_block(a, s.orelse)
        else:
            outs.append((a, NEXT, None))
        return outs

    def modified_in(self, body, st):
        names = assigned_names(body)
        # mutating method calls / contract calls with `modifies`
        for node in ast.walk(ast.Module(body=list(body), type_ignores=[])):
            if isinstance(node, ast.Call):
                f = node.func
                if isinstance(f, ast.Attribute) and f.attr in MUTATORS:
                    b = f.value
                    if isinstance(b, ast.Name):
                        names.append(b.id)
                    elif isinstance(b, ast.Attribute) and isinstance(b.value, ast.Name):
                        names.append(b.value.id + "." + b.attr)
                    elif isinstance(b, ast.Subscript) and isinstance(b.value, ast.Name):
                        names.append(b.value.id)
                    try:
                        names.append(ast.unparse(b) + ".sink")
                    except Exception:
                        pass
                if isinstance(f, ast.Attribute):
                    try:
                        bname = ast.unparse(f.value)
                    except Exception:
                        bname = None
                    bv = st.env.get(bname) if bname else None
                    if bv is not None and isinstance(bv.t, TAbs):
                        lc = self.registry.get("lib:%s.%s" % (bv.t.name, f.attr))
                        if lc is not None and "self" in lc.modifies:
                            names.append(bname)
                callee = self.resolve_contract(ast.unparse(f))
                if callee is not None and callee.modifies:
                    names += [m for m in callee.modifies if m.startswith("self.")]
                    pnames = list(callee.params)
                    for i, a in enumerate(node.args):
                        if i < len(pnames) and pnames[i] in callee.modifies and isinstance(a, ast.Name):
                            names.append(a.id)
                    for kw in node.keywords:
                        if kw.arg in callee.modifies and isinstance(kw.value, ast.Name):
                            names.append(kw.value.id)
                if isinstance(f, ast.Name) and f.id == "next" and node.args and isinstance(node.args[0], ast.Name):
                    names.append(node.args[0].id)
            if isinstance(node, (ast.Yield, ast.YieldFrom)):
                names.append("yielded")
        # ghost variables assigned by ghost statements attached to statements of this body
        import re as _re

        def ghost_targets(texts):
            outn = []
            for tx in texts:
                tx = tx.strip()
                m = _re.match(r"(?:let|havoc|ghost)\s+(\w+)", tx) or _re.match(r"(?:set|defseq)\s+(\w+)\s*\[", tx)
                if m:
                    outn.append(m.group(1))
            return outn
        for node in _walk_in_order(list(body)):
            pre = src_prefix(node)
            for g in self.c.ghost_at:
                anchor = g.get("before") or g.get("after")
                if anchor and pre.startswith(anchor):
                    names += ghost_targets(g["do"])
            if isinstance(node, (ast.For, ast.While)):
                o = self.loop_ord.get(id(node))
                lp2 = self.c.loops.get(o)
                if lp2 is not None:
                    names += ghost_targets(lp2.ghost_pre + lp2.ghost_post)
        names += ghost_targets(getattr(self, "_cur_loop_ghost", []))
        out = []
        for n in names:
            if n in st.env and n not in out:
                out.append(n)
        return out

    def resolve_contract(self, name):
        """Callee contract for a source-level callee name.
        `f`            -> a module-level function `...f` (same module preferred)
        `self.m`       -> a method of the class of the function under verification
        `mod.f`        -> function f of a module whose last name component is `mod` (utils.f, qvalues.tdc)
        anything else  -> only through an explicit alias in the contract's `uses`: "expr=qualified.target"."""
        for u in self.c.uses:
            if "=" in u:
                alias, tgt = u.split("=", 1)
                if alias == name:
                    return self.registry.get(tgt)
        parts = name.split(".")
        last = parts[-1]
        cands = [c for q, c in self.registry.items() if q.split(".")[-1] == last]
        if not cands:
            return None
        me = self.c.target.split("#")[0]
        if len(parts) == 1:
            mod = me.rsplit(".", 1)[0]
            # module-level functions only (qualname = module + function)
            cands = [c for c in cands if _is_module_level(c.target)]
            same = [c for c in cands if c.target.rsplit(".", 1)[0] == mod or
                    c.target.rsplit(".", 1)[0] == mod.rsplit(".", 1)[0]]
            if len(same) == 1:
                return same[0]
            if len(cands) == 1:
                return cands[0]
            pref = [c for c in cands if c.target in self.c.uses]
            return pref[0] if len(pref) == 1 else None
        if len(parts) == 2 and parts[0] == "self":
            cls = me.rsplit(".", 1)[0]
            same = [c for c in cands if c.target.rsplit(".", 1)[0] == cls]
            return same[0] if len(same) == 1 else None
        if len(parts) == 2 and parts[0][:1].isupper():
            same = [c for c in cands if c.target.split(".")[-2] == parts[0]]      # Class.static_method
            return same[0] if len(same) == 1 else None
        if len(parts) == 2:
            same = [c for c in cands if _is_module_level(c.target) and c.target.split(".")[-2] == parts[0]]
            if len(same) == 1:
                return same[0]
            pref = [c for c in cands if c.target in self.c.uses and _is_module_level(c.target)]
            return pref[0] if len(pref) == 1 else None
        return None

    # ------------------------------------------------------------------ driver
    def number_loops(self, body):
        k = 0
        for node in _walk_in_order(body):
            if isinstance(node, (ast.For, ast.While)):
                self.loop_ord[id(node)] = k
                k += 1
        return k

    def select_block(self):
        body = self.fn.body
        if not self.c.block:
            return body
        flat = body
        path = self.c.block.get("inside", [])
        for pfx in path:   # descend into compound statements by prefix
            found = None
            for s in flat:
                if src_prefix(s).startswith(pfx):
                    found = s
                    break
            if found is None:
                raise Stale("block anchor %r not found" % pfx)
            sub = self.c.block.get("suite", {}).get(pfx, "body")
            flat = getattr(found, sub)
            if sub == "handlers":
                flat = flat[0].body
        start = self.c.block.get("start")
        end = self.c.block.get("end")
        i0, i1 = 0, len(flat)
        def has(s, key):
            want = self.c.block.get(key)
            return want is None or want in ast.unparse(s)
        if start:
            idx = [i for i, s in enumerate(flat) if src_prefix(s).startswith(start) and has(s, "start_contains")]
            if not idx:
                raise Stale("block start anchor %r not found" % start)
            i0 = idx[0]
        if end:
            idx = [i for i, s in enumerate(flat) if i >= i0 and src_prefix(s).startswith(end)
                   and has(s, "end_contains")]
            if not idx:
                raise Stale("block end anchor %r not found" % end)
            i1 = idx[-1] + 1 if self.c.block.get("end_inclusive", True) else idx[-1]
        return flat[i0:i1]

    def setup_state(self):
        st = State()
        c = self.c
        for pn, pt in list(c.params.items()) + list(c.free.items()):
            t = parse_type(pt)
            if hasattr(t, "make_param"):
                st.env[pn] = t.make_param(self, st, pn)
                continue
            if isinstance(t, TIter):
                items = self.const(pn.replace(".", "_") + "_items", t.seq_t)
                pos = z3.Const(pn.replace(".", "_") + "_pos", z3.IntSort())
                st.hyps.append(z3.And(0 <= pos, pos <= t.seq_t.len(items.z), t.seq_t.len(items.z) >= 0))
                st.env[pn] = SV(t, py={"seq": items, "pos": pos})
                self.param_svs[pn + ".items"] = items
                continue
            sv = self.const(pn.replace(".", "_"), t)
            st.env[pn] = sv
            self.param_svs[pn] = sv
            for f in self.wf(sv):
                st.hyps.append(f)
        for fn_, ft in c.self_fields.items():
            t = parse_type(ft)
            sv = self.const("self_" + fn_, t)
            st.env["self." + fn_] = sv
            self.param_svs["self." + fn_] = sv
            for f in self.wf(sv):
                st.hyps.append(f)
        if c.yields:
            t = TSeq(parse_type(c.yields))
            arr = self.fresh_z("y0", z3.ArraySort(z3.IntSort(), t.elem.sort()))
            st.env["yielded"] = SV(t, t.mk(arr, z3.IntVal(0)))
        self.declare_ghosts(st)
        st.old = dict(st.env)
        self.ghost_do(st, c.entry_ghost, "entry")     # ghost declarations / lets usable in requires
        st.old = dict(st.env)
        for r in c.requires + c.assumes:
            st.hyps.append(self.spec(st, r))
        self.canaries.append(("requires-satisfiable", list(st.hyps)))
        return st

    def declare_global(self, g):
        args, res = g.sig.split("->")
        asorts = [parse_type(a.strip()) for a in args.split(",") if a.strip()]
        rt = parse_type(res.strip())
        f = self.uf("G_" + g.name, *([a.sort() for a in asorts] + [rt.sort()]))
        self.ghost_fns[g.name] = (f, asorts, rt)

    def declare_ghosts(self, st, with_lemmas=True):
        for g in self.c.global_ghosts:
            self.declare_global(g)
        for g in self.c.global_ghosts:
            for ax in g.axioms:
                st.hyps.append(self.spec(st, ax))
        for g in self.c.ghosts:
            args, res = g.sig.split("->")
            asorts = [parse_type(a.strip()) for a in args.split(",") if a.strip()]
            rt = parse_type(res.strip())
            f = z3.Function(g.name, *([a.sort() for a in asorts] + [rt.sort()]))
            self.ghost_fns[g.name] = (f, asorts, rt)
        for g in self.c.ghosts:
            for ax in g.axioms:
                st.hyps.append(self.spec(st, ax))
        if with_lemmas:
            for l in self.c.lemmas:
                if l.auto:
                    st.hyps.append(self.lemma_formula(st, l))

    def lemma_formula(self, st, l):
        bind = {}
        vs = []
        for pn, pt in l.params.items():
            t = parse_type(pt)
            v = z3.Const("L_%s_%s" % (l.name, pn), t.sort())
            bind[pn] = SV(t, v)
            vs.append(v)
        s2 = st.fork()
        pre = [self.spec(s2, r, bind) for r in l.requires]
        post = [self.spec(s2, e, bind) for e in l.ensures]
        pats = None
        if l.triggers:
            s3 = s2.fork()
            s3.spec = True
            s3.env.update(bind)
            pats = []
            for trig in l.triggers:
                terms = [self.ev(s3, ast.parse(x, mode="eval").body).z for x in trig]
                pats.append(z3.MultiPattern(*terms) if len(terms) > 1 else terms[0])
        body = z3.Implies(z3.And(*pre) if pre else z3.BoolVal(True), z3.And(*post))
        return z3.ForAll(vs, body, patterns=pats) if pats else z3.ForAll(vs, body)

    def run(self):
        c = self.c
        self.run_lemmas()
        if c.skip_body:
            return
        body = self.select_block()
        self.block_assigned = set(assigned_names(body)) - set(c.params) - set(c.free)
        self.number_loops(body)
        missing = [o for o in c.loops if o >= len(self.loop_ord)]
        if missing:
            raise Stale("contract has invariants for loops %s but the code has %d loops" % (missing, len(self.loop_ord)))
        st = self.setup_state()
        outs = self.run_block(st, body)
        n_exit = 0
        for (cur, ctl, pay) in outs:
            if ctl == RAISE:
                exc = pay[0]
                cond = c.raises.get(exc)
                if cond is None and exc == "AssertionError" and "AssertionError" not in c.raises:
                    cond = c.raises.get("*")
                if cond is None:
                    self.oblige(cur, "raises.%s.not-allowed" % exc, z3.BoolVal(False), "raises", None,
                                "%s must not escape (no raises clause)" % exc)
                else:
                    s2 = cur.fork()
                    s2.env = dict(cur.old)
                    g = self.spec(s2, cond)
                    cur.hyps.extend(s2.hyps[len(cur.hyps):])
                    self.oblige(cur, "raises.%s" % exc, g, "raises", None, cond)
                continue
            if ctl in (BREAK, CONTINUE):
                raise Unsupported("break/continue outside loop")
            n_exit += 1
            res = pay if ctl == RETURN else SV(NONE)
            self.check_exit(cur, res, n_exit)
        # every allowed exception's condition must not hide a normal-exit obligation: checked via `exits`
        unhit = [g.get("before") or g.get("after") for g in c.ghost_at
                 if (g.get("before") or g.get("after")) not in self.anchors_hit]
        if unhit:
            raise Stale("ghost anchors not found in the source: %s" % unhit)

    def check_exit(self, cur, res, n_exit):
        c = self.c
        if c.returns and not isinstance(res.t, TPy):
            res = self.coerce(res, parse_type(c.returns))
        elif c.returns and res.t is NONE:
            rt = parse_type(c.returns)
            if isinstance(rt, TOpt):
                res = SV(rt, rt.none())
        cur.env["result"] = res
        # postconditions speak about the ENTRY values of (immutable) parameters, whatever the body rebinds
        for pn in c.params:
            if pn not in c.modifies and pn in cur.old:
                cur.env[pn] = cur.old[pn]
        self.ghost_do(cur, c.exit_ghost, "exit%d" % n_exit)
        self.canaries.append(("exit%d-reachable" % n_exit, list(cur.hyps)))
        for k, e in enumerate(c.ensures):
            self.oblige(cur, "ensures%d@exit%d" % (k, n_exit), self.spec(cur, e, witness=c.witness.get(e)),
                        "ensures", None, e)

    def run_lemmas(self):
        for l in self.c.lemmas:
            st = State()
            for pn, pt in list(self.c.params.items()) + list(self.c.free.items()):
                t = parse_type(pt)
                if isinstance(t, TIter):
                    continue
                if hasattr(t, "make_param"):
                    st.env[pn] = t.make_param(self, st, pn)
                    continue
                sv = self.const(pn.replace(".", "_"), t)
                st.env[pn] = sv
                for f in self.wf(sv):
                    st.hyps.append(f)
            for fn_, ft in self.c.self_fields.items():
                t = parse_type(ft)
                sv = self.const("self_" + fn_, t)
                st.env["self." + fn_] = sv
            if not self.ghost_fns:
                self.declare_ghosts(st, with_lemmas=False)
            else:
                for g in self.c.ghosts:
                    for ax in g.axioms:
                        st.hyps.append(self.spec(st, ax))
            # only lemmas proved EARLIER may be used (no circularity)
            for l2 in self.c.lemmas:
                if l2.auto and l2.name != l.name and self.c.lemmas.index(l2) < self.c.lemmas.index(l):
                    st.hyps.append(self.lemma_formula(st, l2))
            st.old = dict(st.env)
            # lemmas may rely on the contract's requires only if they say so (hints == ["requires"])
            if "requires" in l.hints:
                for r in self.c.requires + self.c.quiet_requires:
                    st.hyps.append(self.spec(st, r))
            bind = {}
            for pn, pt in l.params.items():
                t = parse_type(pt)
                bind[pn] = self.const("lem_%s_%s" % (l.name, pn), t)
            st.env.update(bind)
            for r in l.requires:
                st.hyps.append(self.spec(st, r))
            if l.induct:
                # strong induction hypothesis: the lemma for all smaller values of the induction variable
                iv = l.induct
                q = {}
                vs = []
                for pn, pt in l.params.items():
                    t = parse_type(pt)
                    v = z3.Const("ih_%s_%s" % (l.name, pn), t.sort())
                    q[pn] = SV(t, v)
                    vs.append(v)
                s2 = st.fork()
                pre = [self.spec(s2, r, q) for r in l.requires]
                post = [self.spec(s2, e, q) for e in l.ensures]
                smaller = z3.And(q[iv].z < bind[iv].z, q[iv].z >= -1)
                pats = None
                if l.triggers:
                    s3 = s2.fork()
                    s3.spec = True
                    s3.env.update(q)
                    pats = []
                    for trig in l.triggers:
                        terms = [self.ev(s3, ast.parse(x, mode="eval").body).z for x in trig]
                        pats.append(z3.MultiPattern(*terms) if len(terms) > 1 else terms[0])
                body = z3.Implies(z3.And(smaller, *pre), z3.And(*post))
                st.hyps.append(z3.ForAll(vs, body, patterns=pats) if pats else z3.ForAll(vs, body))
            self.canaries.append(("lemma.%s.requires-satisfiable" % l.name, list(st.hyps)))
            self.ghost_do(st, l.uses, "lemma." + l.name)
            for k, e in enumerate(l.ensures):
                self.oblige(st, "lemma.%s.ensures%d" % (l.name, k), self.spec(st, e), "lemma", None, e)


def _is_module_level(target):
    """mokapot.utils.f -> True; mokapot.model.Model.fit -> False (a capitalised component = class)"""
    parts = target.split("#")[0].split(".")
    return not any(p[:1].isupper() for p in parts[:-1])


def consts_in(z):
    """ids of the uninterpreted constants (0-ary applications) occurring in z"""
    out = set()
    seen = set()
    stack = [z]
    while stack:
        t = stack.pop()
        i = t.get_id()
        if i in seen:
            continue
        seen.add(i)
        if z3.is_quantifier(t):
            stack.append(t.body())
            for k in range(t.num_patterns()):
                stack.append(t.pattern(k))
            continue
        if z3.is_app(t):
            if t.num_args() == 0 and t.decl().kind() == z3.Z3_OP_UNINTERPRETED:
                out.add(i)
            for k in range(t.num_args()):
                stack.append(t.arg(k))
    return out


MUTATORS = {"append", "pop", "add", "remove", "sort", "extend", "insert", "update", "shuffle", "clear",
            "discard", "write", "initialize", "finalize", "append_data", "unlink", "drop"}


def _load(target):
    t = ast.parse(ast.unparse(target), mode="eval").body
    return t


def handler_names(h):
    if h.type is None:
        return []
    if isinstance(h.type, ast.Tuple):
        return [ast.unparse(e).split(".")[-1] for e in h.type.elts]
    return [ast.unparse(h.type).split(".")[-1]]


def assigned_names(stmts):
    out = []

    def tgt(t):
        if isinstance(t, ast.Name):
            out.append(t.id)
        elif isinstance(t, (ast.Tuple, ast.List)):
            for e in t.elts:
                tgt(e)
        elif isinstance(t, ast.Subscript):
            b = t.value
            while isinstance(b, ast.Subscript):
                b = b.value
            if isinstance(b, ast.Name):
                out.append(b.id)
            elif isinstance(b, ast.Attribute) and isinstance(b.value, ast.Name):
                out.append(b.value.id + "." + b.attr)
        elif isinstance(t, ast.Attribute) and isinstance(t.value, ast.Name):
            out.append(t.value.id + "." + t.attr)
        elif isinstance(t, ast.Starred):
            tgt(t.value)

    for node in ast.walk(ast.Module(body=list(stmts), type_ignores=[])):
        if isinstance(node, ast.Assign):
            for t in node.targets:
                tgt(t)
        elif isinstance(node, (ast.AugAssign, ast.AnnAssign)):
            tgt(node.target)
        elif isinstance(node, ast.For):
            tgt(node.target)
        elif isinstance(node, ast.With):
            for it in node.items:
                if it.optional_vars is not None:
                    tgt(it.optional_vars)
        elif isinstance(node, ast.ExceptHandler) and node.name:
            out.append(node.name)
        elif isinstance(node, ast.NamedExpr):
            tgt(node.target)
    seen = []
    for n in out:
        if n not in seen:
            seen.append(n)
    return seen


def _walk_in_order(stmts):
    for s in stmts:
        yield s
        for fld in ("body", "orelse", "finalbody"):
            sub = getattr(s, fld, None)
            if isinstance(sub, list) and sub and isinstance(sub[0], ast.stmt):
                yield from _walk_in_order(sub)
        if isinstance(s, ast.Try):
            for h in s.handlers:
                yield from _walk_in_order(h.body)


def find_function(tree, qual):
    """qual: 'func' | 'Class.method' | 'func.inner'"""
    parts = qual.split(".")
    body = tree.body
    node = None
    for p in parts:
        node = None
        for s in body:
            if isinstance(s, (ast.FunctionDef, ast.AsyncFunctionDef, ast.ClassDef)) and s.name == p:
                node = s
                break
        if node is None:
            return None
        body = node.body
    return node if isinstance(node, (ast.FunctionDef, ast.AsyncFunctionDef)) else None


def strip_for_hash(fn):
    """The extraction drops decorators, docstrings and annotations; hash what remains."""
    f = ast.parse(ast.unparse(fn)).body[0]
    f.decorator_list = []
    if f.body and isinstance(f.body[0], ast.Expr) and isinstance(f.body[0].value, ast.Constant) \
            and isinstance(f.body[0].value.value, str):
        f.body = f.body[1:] or [ast.Pass()]
    f.returns = None
    for a in f.args.args + f.args.kwonlyargs + f.args.posonlyargs:
        a.annotation = None
    return hashlib.sha256(ast.unparse(f).encode()).hexdigest()
