"""pyvc - a small contract-based deductive verifier for a Python subset.

ast -> symbolic execution -> verification conditions -> z3 / cvc5.
See /verif/DESIGN.md section 2.
"""
