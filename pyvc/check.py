"""Driver:  python3-vt -m pyvc.check <Cxx> [--tier quick|thorough] [--replay FILE]

exit 0 property held on everything explored / 1 violation (VIOLATION line) / 2 undecided / 3 checker error.
"""
import argparse
import ast
import glob
import hashlib
import importlib
import json
import os
import shutil
import subprocess
import sys
import tempfile
import time
import traceback

VERIF = os.path.dirname(os.path.dirname(os.path.abspath(__file__)))
REPO = os.environ.get("MOKAPOT_REPO", "/repo")
VENV_PY = os.environ.get("MOKAPOT_PY", "/venv/bin/python")
# evidence/ and replays/ live under /verif; experiments on scratch trees redirect them (never used by the
# registered commands)
OUT = os.environ.get("VERIF_OUT", VERIF)

from .engine import Exec, Stale, Unsupported, find_function, strip_for_hash  # noqa: E402
from .lib import LIB  # noqa: E402
from . import libnp, libstr, libio, libbio  # noqa: E402,F401  (register the assumed library contracts)
from . import solve  # noqa: E402
from .spec import Contract  # noqa: E402


def load_modules():
    sys.path.insert(0, VERIF)
    mods = {}
    for p in sorted(glob.glob(os.path.join(VERIF, "contracts", "*.py"))):
        name = os.path.basename(p)[:-3]
        if name.startswith("_"):
            continue
        mods[name] = importlib.import_module("contracts." + name)
    return mods


def registry_of(mods):
    reg = {}
    for m in mods.values():
        for c in getattr(m, "CONTRACTS", []):
            key = c.target.split("#")[0]
            if "#" in c.target:
                continue            # block / variant contracts are not callable
            reg[key] = c
        for c in getattr(m, "LIB_CONTRACTS", []):   # assumed contracts of methods of abstract objects
            reg[c.target] = c
    return reg


def locate(target):
    """'mokapot.parsers.pin.create_chunks' -> (path, 'create_chunks')"""
    t = target.split("#")[0]
    if t.startswith("lib:"):
        raise Stale("library contract %s has no body" % t)
    parts = t.split(".")
    for k in range(len(parts) - 1, 0, -1):
        path = os.path.join(REPO, *parts[:k]) + ".py"
        if os.path.isfile(path):
            return path, ".".join(parts[k:])
    raise Stale("no source file for %s" % target)


def source_function(target, mutate=None):
    path, qual = locate(target)
    src = open(path).read()
    if mutate is not None:
        # mutate inside the target function only (the same text may occur elsewhere in the file)
        fn0 = find_function(ast.parse(src), qual)
        if fn0 is None:
            return None, None, None
        lines = src.split("\n")
        lo = min([fn0.lineno] + [d.lineno for d in fn0.decorator_list]) - 1
        seg = "\n".join(lines[lo:fn0.end_lineno])
        if mutate["find"] not in seg:
            return None, None, None
        seg = seg.replace(mutate["find"], mutate["replace"], 1)
        src = "\n".join(lines[:lo] + seg.split("\n") + lines[fn0.end_lineno:])
    tree = ast.parse(src)
    fn = find_function(tree, qual)
    if fn is None:
        raise Stale("function %s not found in %s" % (qual, path))
    return fn, path, src


def generate(contract, registry, mutate=None):
    fn, path, src = source_function(contract.target, mutate)
    if fn is None:
        return None
    ex = Exec(contract, fn, registry, LIB, filename=path)
    ex.run()
    ex.src_sha = strip_for_hash(fn)
    ex.src_lines = (fn.lineno, fn.end_lineno)
    ex.src_path = path
    return ex


def clause_coverage(contract, ex):
    """Every ensures / raises / invariant clause of the contract must have produced >= 1 obligation."""
    missing = []
    hit = set(c for (_, c) in ex.clauses_hit)
    if contract.skip_body:
        return missing
    for e in contract.ensures:
        if e not in hit:
            missing.append("ensures: " + e)
    for o, lp in contract.loops.items():
        for inv in lp.invariant:
            if inv not in hit:
                missing.append("loop%d invariant: %s" % (o, inv))
    for l in contract.lemmas:
        for e in l.ensures:
            if e not in hit:
                missing.append("lemma %s: %s" % (l.name, e))
    return missing


class Run:
    def __init__(self, prop, tier, seed):
        self.prop = prop
        self.tier = tier
        self.seed = seed
        self.t0 = time.time()
        self.lines = []
        self.violations = []
        self.known = []
        self.undecided = []
        self.stale = []
        self.errors = []
        self.functions = []
        self.obligations = 0
        self.discharged = 0
        self.samples = []
        self.trusted = set()
        self.assumptions = set()
        self.bounded = []
        self.backends = {}
        self.solver_s = 0.0
        self.canaries = {"checked": 0, "vacuous": []}
        self.mutants = {"run": 0, "killed": 0, "survived": [], "skipped": 0}
        self.workdir = None

    def say(self, s):
        print(s, flush=True)
        self.lines.append(s)


def load_known():
    p = os.path.join(VERIF, "known_findings.json")
    if not os.path.isfile(p):
        return {"findings": [], "fixed": []}
    return json.load(open(p))


def match_known(known, prop, kind, key):
    for f in known.get("findings", []):
        if f["property"] != prop or f.get("kind") != kind:
            continue
        if kind == "obligation":
            if f["target"] == key["target"] and key["obligation"].startswith(f["obligation"]):
                return f
        elif kind == "bounded":
            if f.get("check") == key.get("check") and f.get("case") == key.get("case"):
                return f
    return None


def budget_for(tier):
    b = os.environ.get("PYVC_BUDGET")
    if b:
        return int(b)
    return 30 if tier == "quick" else 120


def verify_contracts(run, contracts, registry, mutate=None, collect=True):
    """Generate and discharge all obligations of `contracts`.  -> list of failed (contract, ex, obl, result)"""
    failed = []
    gens = []
    for c in contracts:
        if c.skip_body and not c.lemmas:
            continue
        try:
            ex = generate(c, registry, mutate if (mutate and mutate["target"] == c.target) else None)
            if ex is None:
                return None   # mutant not applicable
        except Stale as e:
            if collect:
                run.stale.append({"contract": c.target, "reason": str(e)})
                run.say("STALE contract=%s reason=%s" % (c.target, e))
            else:
                failed.append((c, None, None, {"status": "stale", "reason": str(e)}))
            continue
        except Unsupported as e:
            if collect:
                run.stale.append({"contract": c.target, "reason": "unsupported: %s" % e})
                run.say("STALE contract=%s reason=unsupported construct: %s" % (c.target, e))
            else:
                failed.append((c, None, None, {"status": "stale", "reason": str(e)}))
            continue
        except Exception as e:   # engine crash on this target: the contract cannot be applied
            tb = traceback.format_exc()
            if collect:
                run.stale.append({"contract": c.target, "reason": "engine error: %r" % e, "traceback": tb[-1500:]})
                run.say("STALE contract=%s reason=engine error %r" % (c.target, e))
            else:
                failed.append((c, None, None, {"status": "stale", "reason": repr(e)}))
            continue
        gens.append((c, ex))
    items = []
    index = {}
    for ci, (c, ex) in enumerate(gens):
        distinct = list(ex.strlits.values())
        for oi, o in enumerate(ex.obls):
            tag = "c%d_o%d" % (ci, oi)
            items.append((tag, solve.vc_text(o.hyps, o.goal, distinct)))
            index[tag] = (c, ex, o)
    res = solve.solve_all(items, budget_for(run.tier), run.workdir, both=(run.tier == "thorough" and collect))
    for ci, (c, ex) in enumerate(gens):
        n_ok = 0
        tsum = 0.0
        per_backend = {}
        for oi, o in enumerate(ex.obls):
            r = res["c%d_o%d" % (ci, oi)]
            tsum += r["time"]
            if os.environ.get("PYVC_VERBOSE"):
                print("   [%s] %-40s %-8s %-10s %6.2fs  %s  path=%s" % (c.target.split(".")[-1], o.name, r["status"], r["solver"],
                                                            r["time"], o.clause[:70], ""))
            if r["status"] == "unsat":
                n_ok += 1
                per_backend[r["solver"]] = per_backend.get(r["solver"], 0) + 1
            else:
                failed.append((c, ex, o, r))
        if collect:
            run.obligations += len(ex.obls)
            run.discharged += n_ok
            run.solver_s += tsum
            for k, v in per_backend.items():
                run.backends[k] = run.backends.get(k, 0) + v
            miss = clause_coverage(c, ex)
            if len(ex.obls) == 0:
                run.errors.append("zero obligations generated for %s" % c.target)
            if miss:
                run.errors.append("clauses of %s that produced no obligation: %s" % (c.target, miss))
            run.functions.append({
                "qualname": c.target, "file": os.path.relpath(ex.src_path, REPO), "lines": list(ex.src_lines),
                "sha256": ex.src_sha, "obligations": len(ex.obls), "discharged": n_ok,
                "backends": per_backend, "solver_s": round(tsum, 3),
                "abstracted_statements": [dict(t) for t in sorted({tuple(sorted(a.items())) for a in ex.abstracted})],
                "callee_contracts_used": sorted(ex.used_contracts),
                "block": c.block,
            })
            for u in ex.used_lib:
                run.trusted.add("assumed library contract: " + u)
            for u in ex.used_contracts:
                cc = registry.get(u)
                if cc is not None and cc.skip_body:
                    run.trusted.add("assumed (unverified) contract of %s" % u)
            for a in ex.abstracted:
                run.trusted.add("abstracted statement (havoc) in %s: %s" % (c.target, a["stmt"]))
            for oi, o in enumerate(ex.obls[:3]):
                r = res["c%d_o%d" % (ci, oi)]
                run.samples.append({"obligation": "%s:%s" % (c.target, o.name), "kind": o.kind,
                                    "clause": o.clause[:160], "verdict": r["status"], "solver": r["solver"],
                                    "time_s": round(r["time"], 3),
                                    "smt2_bytes": len(items[[t for t, _ in items].index("c%d_o%d" % (ci, oi))][1])})
            # vacuity canaries: hypotheses must be satisfiable (not refutable)
            distinct = list(ex.strlits.values())
            citems = [("c%d_can%d" % (ci, k), solve.sat_text(h, distinct)) for k, (_, h) in enumerate(ex.canaries)]
            from concurrent.futures import ThreadPoolExecutor
            with ThreadPoolExecutor(max_workers=16) as tp:
                outs = list(tp.map(lambda it: solve.check_sat_quick(it[1], run.workdir, it[0]), citems))
            for (nm, _), stt in zip(ex.canaries, outs):
                run.canaries["checked"] += 1
                if stt == "unsat":
                    if "requires-satisfiable" in nm:
                        run.canaries["vacuous"].append("%s:%s" % (c.target, nm))
                    else:   # an infeasible path (dead combination of branches) is not an error, but is reported
                        run.canaries.setdefault("infeasible_paths", []).append("%s:%s" % (c.target, nm))
    return failed


def triage(run, failed, known, mods):
    """Failed obligations -> KNOWN-FINDING / VIOLATION (replayed or no-failing-input-found) / UNDECIDED."""
    os.makedirs(os.path.join(OUT, "replays"), exist_ok=True)
    for (c, ex, o, r) in failed:
        key = {"target": c.target, "obligation": o.name}
        kf = match_known(known, run.prop, "obligation", key)
        if kf is not None:
            run.known.append(kf)
            run.say("KNOWN-FINDING: property=%s %s [obligation %s:%s]" % (run.prop, kf["what"], c.target, o.name))
            continue
        if r["status"] == "timeout":
            # a timeout is never a violation by itself: only a natively confirmed failing input makes it one
            out = native_search(c.replay, run.seed) if c.replay else {}
            if not out.get("violated"):
                run.undecided.append({"obligation": "%s:%s" % (c.target, o.name), "result": r})
                run.say("UNDECIDED property=%s obligation=%s:%s (solver timeout, no failing input found)"
                        % (run.prop, c.target, o.name))
                continue
        if r["status"] == "disagree":
            run.errors.append("solver disagreement on %s:%s (%s)" % (c.target, o.name, r["solver"]))
            continue
        # candidate counterexample -> native replay
        rid = hashlib.md5(("%s:%s" % (c.target, o.name)).encode()).hexdigest()[:8]
        rpath = os.path.join(OUT, "replays", "%s-%s-%s.json" % (run.prop, c.target.split(".")[-1].replace("#", "_"), rid))
        rec = {"property": run.prop, "target": c.target, "obligation": o.name, "kind": o.kind,
               "clause": o.clause, "line": o.line, "solver": r, "adapter": c.replay,
               "source_sha256": ex.src_sha, "replayed": False}
        model = None
        try:
            if not os.environ.get("PYVC_NO_MODEL"):      # development switch: skip the counter-model search
                model = solve.get_model(o, list(ex.strlits.values()), ex.param_svs)
        except Exception as e:
            rec["model_error"] = repr(e)
        confirmed = False
        if model:
            rec["solver_model"] = model.get("values")
        if model and c.replay:
            rec["inputs"] = model["values"]
            json.dump(rec, open(rpath, "w"), indent=1, default=str)
            out = native_replay(rpath)
            rec["native"] = out
            if out.get("violated"):
                confirmed = True
                rec["replayed"] = True
        if not confirmed and c.replay:
            # bounded search with the same contract for a failing input
            out = native_search(c.replay, run.seed)
            if out.get("violated"):
                rec["inputs"] = out.get("inputs")
                rec["native"] = out
                rec["replayed"] = True
                confirmed = True
        json.dump(rec, open(rpath, "w"), indent=1, default=str)
        rel = os.path.relpath(rpath, OUT)
        run.violations.append({"obligation": "%s:%s" % (c.target, o.name), "replay": rel, "replayed": confirmed})
        if confirmed:
            run.say("VIOLATION property=%s replay=%s" % (run.prop, rel))
        else:
            run.say("VIOLATION property=%s replay=%s no-failing-input-found" % (run.prop, rel))


def native_replay(path):
    try:
        p = subprocess.run([VENV_PY, "-m", "harness.replay", path], cwd=VERIF, stdout=subprocess.PIPE,
                           stderr=subprocess.PIPE, text=True, timeout=300, env=harness_env())
        last = [l for l in p.stdout.strip().split("\n") if l.startswith("{")]
        if last:
            return json.loads(last[-1])
        return {"violated": False, "error": (p.stdout + p.stderr)[-800:]}
    except Exception as e:
        return {"violated": False, "error": repr(e)}


def native_search(adapter, seed):
    try:
        p = subprocess.run([VENV_PY, "-m", "harness.replay", "--search", adapter, "--seed", str(seed)], cwd=VERIF,
                           stdout=subprocess.PIPE, stderr=subprocess.PIPE, text=True, timeout=600,
                           env=harness_env())
        last = [l for l in p.stdout.strip().split("\n") if l.startswith("{")]
        if last:
            return json.loads(last[-1])
        return {"violated": False, "error": (p.stdout + p.stderr)[-800:]}
    except Exception as e:
        return {"violated": False, "error": repr(e)}


def harness_env():
    env = dict(os.environ)
    env["PYTHONPATH"] = VERIF + os.pathsep + REPO + os.pathsep + env.get("PYTHONPATH", "")
    env["MOKAPOT_VERIF"] = "1"
    env["MOKAPOT_REPO"] = REPO
    env.setdefault("NUMBA_CACHE_DIR", os.path.join(VERIF, ".work", "numba"))
    env["PYTHONDONTWRITEBYTECODE"] = "1"
    return env


def run_bounded(run, mod, known):
    spec = getattr(mod, "BOUNDED", None)
    if not spec:
        return
    cmd = [VENV_PY, "-m", spec["module"], "--tier", run.tier, "--seed", str(run.seed)]
    t0 = time.time()
    try:
        p = subprocess.run(cmd, cwd=VERIF, stdout=subprocess.PIPE, stderr=subprocess.PIPE, text=True,
                           timeout=spec.get("timeout", 900 if run.tier == "quick" else 7200), env=harness_env())
    except subprocess.TimeoutExpired:
        run.errors.append("bounded harness %s timed out" % spec["module"])
        return
    lines = [l for l in p.stdout.split("\n") if l.startswith("{")]
    if p.returncode not in (0, 1) or not lines:
        run.errors.append("bounded harness %s failed (rc=%s): %s" % (spec["module"], p.returncode,
                                                                     (p.stdout + p.stderr)[-1500:]))
        return
    out = json.loads(lines[-1])
    os.makedirs(os.path.join(OUT, "replays"), exist_ok=True)
    for chk in out["checks"]:
        entry = {k: chk[k] for k in ("function", "bound", "evaluations", "distinct_nontrivial", "rule", "samples")
                 if k in chk}
        entry["wall_s"] = chk.get("wall_s")
        entry["violations"] = len(chk.get("violations", []))
        run.bounded.append(entry)
        for v in chk.get("violations", []):
            key = {"check": chk["name"], "case": v.get("case")}
            kf = match_known(known, run.prop, "bounded", key)
            if kf is not None:
                if kf not in run.known:
                    run.known.append(kf)
                    run.say("KNOWN-FINDING: property=%s %s [bounded %s case=%s]" % (run.prop, kf["what"],
                                                                                  chk["name"], v.get("case")))
                continue
            rid = hashlib.md5(json.dumps(v, sort_keys=True, default=str).encode()).hexdigest()[:8]
            rpath = os.path.join(OUT, "replays", "%s-%s-%s.json" % (run.prop, chk["name"], rid))
            rec = {"property": run.prop, "bounded_check": chk["name"], "module": spec["module"],
                   "function": chk.get("function"), "violation": v, "replayed": True}
            json.dump(rec, open(rpath, "w"), indent=1, default=str)
            rel = os.path.relpath(rpath, OUT)
            run.violations.append({"bounded": chk["name"], "replay": rel, "replayed": True})
            run.say("VIOLATION property=%s replay=%s" % (run.prop, rel))
    for a in out.get("assumptions", []):
        run.assumptions.add(a)


def run_frames(run, mod, known):
    """C08 frame obligations: tagged nondeterminism reads found in the source must be declared (pyvc/frames.py)."""
    from . import frames as F
    decl = dict(getattr(mod, "FRAMES", {}))
    decl.update(getattr(mod, "FRAMES_BY_DESIGN", {}))
    if not decl:
        return
    os.makedirs(os.path.join(OUT, "replays"), exist_ok=True)
    for target, allowed in sorted(decl.items()):
        try:
            fn, path, src = source_function(target)
        except Stale as e:
            run.stale.append({"contract": "frame:" + target, "reason": str(e)})
            run.say("STALE contract=frame:%s reason=%s" % (target, e))
            continue
        reads = F.tagged_reads(fn)
        tags_found = sorted({t for (t, _, _) in reads})
        all_tags = ["GLOBAL_RNG", "ENTROPY", "HASHSEED", "FSORDER"]
        n_ok = 0
        for tag in all_tags:
            run.obligations += 1
            bad = [(t, ln, txt) for (t, ln, txt) in reads if t == tag and tag not in allowed]
            if not bad:
                run.discharged += 1
                n_ok += 1
                continue
            key = {"target": target, "obligation": "frame.%s" % tag}
            kf = match_known(known, run.prop, "obligation", key)
            if kf is not None:
                run.known.append(kf)
                run.say("KNOWN-FINDING: property=%s %s [frame %s of %s]" % (run.prop, kf["what"], tag, target))
                continue
            rid = hashlib.md5(("%s:%s" % (target, tag)).encode()).hexdigest()[:8]
            rpath = os.path.join(OUT, "replays", "%s-frame-%s-%s.json" % (run.prop, target.split(".")[-1], rid))
            json.dump({"property": run.prop, "target": target, "obligation": "frame.%s" % tag,
                       "clause": "%s reads %s outside its declared frame %s" % (target, tag, sorted(allowed)),
                       "reads": [{"tag": t, "line": ln, "source": txt} for (t, ln, txt) in bad],
                       "file": os.path.relpath(path, REPO), "replayed": False,
                       "note": "syntactic frame obligation: the witness is the source location, not an input"},
                      open(rpath, "w"), indent=1)
            rel = os.path.relpath(rpath, OUT)
            run.violations.append({"obligation": "%s:frame.%s" % (target, tag), "replay": rel, "replayed": False})
            run.say("VIOLATION property=%s replay=%s no-failing-input-found" % (run.prop, rel))
        run.functions.append({"qualname": target, "file": os.path.relpath(path, REPO),
                              "lines": [fn.lineno, fn.end_lineno], "sha256": strip_for_hash(fn),
                              "obligations": len(all_tags), "discharged": n_ok, "backends": {"frame-analysis": n_ok},
                              "solver_s": 0.0, "abstracted_statements": [], "callee_contracts_used": [],
                              "declared_frame": allowed, "tagged_reads_found": tags_found})
        run.backends["frame-analysis"] = run.backends.get("frame-analysis", 0) + n_ok
    run.samples.append({"obligation": "frame obligations", "kind": "frame",
                        "clause": "tagged reads of GLOBAL_RNG / ENTROPY / HASHSEED / FSORDER within the declared frame",
                        "verdict": "see functions_under_contract[].tagged_reads_found"})


def run_mutants(run, mod, contracts, registry):
    """Thorough tier: in-memory mutation canaries.  A mutant that still verifies means the contract (or engine)
    is too weak -> checker error."""
    muts = getattr(mod, "MUTANTS", [])
    for m in muts:
        sub = [c for c in contracts if c.target == m["target"]]
        if not sub:
            continue
        failed = verify_contracts(run, sub, registry, mutate=m, collect=False)
        if failed is None:
            run.mutants["skipped"] += 1
            continue
        run.mutants["run"] += 1
        if failed and all(f[3].get("status") == "stale" for f in failed):
            # the mutation made the contract inapplicable (unsupported construct): the deductive part abstains on such
            # code, which is neither a kill nor a survival - counted separately, reported in the evidence
            run.mutants.setdefault("made_stale", []).append(m.get("name", m["find"]))
        elif failed:
            run.mutants["killed"] += 1
        else:
            run.mutants["survived"].append(m.get("name", m["find"]))


def write_evidence(run, mod, rc):
    cov = {
        "obligations": run.obligations,
        "discharged": run.discharged,
        "checker_cmd": "python3-vt -m pyvc.check %s --tier %s  (VCs: z3-new 5.1 e-matching, /usr/bin/cvc5 1.0.3, "
                       "z3-new MBQI; one killable process per VC)" % (run.prop, run.tier),
        "trusted_base": sorted(run.trusted),
        "functions_under_contract": run.functions,
        "backends": run.backends,
        "solver_s": round(run.solver_s, 3),
        "bounded": run.bounded,
        "canaries": run.canaries,
        "stale_contracts": run.stale,
        "undecided": run.undecided,
        "known_findings_reported": [k["what"] for k in run.known],
        "samples": run.samples[:12] + [{"bounded": b["function"], "sample": b["samples"][:2]} for b in run.bounded
                                       if b.get("samples")],
        "evaluations": sum(b["evaluations"] for b in run.bounded) + run.obligations,
        "distinct_nontrivial": sum(b["distinct_nontrivial"] for b in run.bounded) + run.discharged,
        "rule": "obligations: one per (path, contract clause) generated from the current source; bounded: see "
                "each entry of `bounded` (enumeration rule and what counts as non-trivial are stated there)",
        "explanation": getattr(mod, "EXPLANATION", ""),
        "errors": run.errors,
    }
    if run.tier == "thorough":
        cov["mutants"] = run.mutants
    level = getattr(mod, "LEVEL", "other")
    if level == "proof" and (run.discharged != run.obligations or run.stale or run.obligations == 0):
        level = "other"
    ev = {
        "property_id": run.prop, "tier": run.tier, "seed": run.seed, "level": level,
        "coverage": cov,
        "assumptions": sorted(run.assumptions | set(getattr(mod, "ASSUMPTIONS", []))),
        "wall_s": round(time.time() - run.t0, 2),
        "violations": len(run.violations),
        "exit_code": rc,
    }
    os.makedirs(os.path.join(OUT, "evidence"), exist_ok=True)
    json.dump(ev, open(os.path.join(OUT, "evidence", "%s.json" % run.prop), "w"), indent=1, default=str)


def main(argv=None):
    ap = argparse.ArgumentParser()
    import atexit
    from . import lib as _lib
    atexit.register(_lib.dump_shapes)
    ap.add_argument("prop")
    ap.add_argument("--tier", default=os.environ.get("VERIF_TIER", "quick"))
    ap.add_argument("--replay")
    ap.add_argument("--only", help="restrict to contracts whose target contains this text (debugging)")
    ap.add_argument("--no-bounded", action="store_true")
    ap.add_argument("--keep", action="store_true")
    ap.add_argument("--mutants", action="store_true", help="run the in-memory mutation canaries in any tier")
    args = ap.parse_args(argv)
    if args.replay:
        out = native_replay(os.path.abspath(args.replay)) if json.load(open(args.replay)).get("inputs") is not None \
            else {"violated": None, "note": "no concrete input recorded; see solver output in the file"}
        print(json.dumps(out))
        return 1 if out.get("violated") else 0
    seed = int(os.environ.get("VERIF_SEED", "0") or 0)
    run = Run(args.prop, args.tier if args.tier in ("quick", "thorough") else "quick", seed)
    os.makedirs(os.path.join(VERIF, ".work"), exist_ok=True)
    run.workdir = tempfile.mkdtemp(prefix="vc_%s_" % args.prop, dir=os.path.join(VERIF, ".work"))
    rc = 3
    mod = None
    try:
        mods = load_modules()
        mod = next((m for m in mods.values() if getattr(m, "PROPERTY", None) == args.prop), None)
        if mod is None:
            print("no contracts module for property %s" % args.prop)
            return 3
        registry = registry_of(mods)
        known = load_known()
        contracts = list(getattr(mod, "CONTRACTS", []))
        for extra in getattr(mod, "ALSO_VERIFY", []):   # contracts living in another module (shared targets)
            mname, tgt = extra
            contracts += [c for c in mods[mname].CONTRACTS if c.target == tgt]
        if args.only:
            contracts = [c for c in contracts if args.only in c.target]
        for name in getattr(mod, "FORBIDDEN_IN_ENSURES", []):
            for c in contracts:
                for e in c.ensures:
                    if name in e:
                        run.errors.append("postcondition of %s mentions the constant %s" % (c.target, name))
        failed = verify_contracts(run, contracts, registry)
        triage(run, failed, known, mods)
        run_frames(run, mod, known)
        if not args.no_bounded:
            run_bounded(run, mod, known)
        if run.tier == "thorough" or args.mutants:
            run_mutants(run, mod, contracts, registry)
            print("mutation canaries: %s" % run.mutants)
            if run.mutants["survived"]:
                run.errors.append("mutation canaries survived (contract too weak or engine unsound): %s"
                                  % run.mutants["survived"])
        if run.canaries["vacuous"]:
            run.errors.append("vacuous hypotheses (contradictory requires/invariant): %s" % run.canaries["vacuous"])
        if run.obligations == 0 and not run.bounded:
            run.errors.append("nothing was checked")
        new_viol = [v for v in run.violations]
        if new_viol:
            rc = 1
        elif run.errors:
            rc = 3
        elif run.undecided:
            rc = 2
        else:
            rc = 0
    except Exception as e:
        traceback.print_exc()
        run.errors.append("checker crash: %r" % e)
        rc = 3
    finally:
        try:
            if mod is not None:
                write_evidence(run, mod, rc)
        except Exception:
            traceback.print_exc()
            rc = 3 if rc == 0 else rc
        if not args.keep:
            shutil.rmtree(run.workdir, ignore_errors=True)
    for e in run.errors:
        print("CHECKER-ERROR: %s" % e)
    print("property=%s tier=%s obligations=%d discharged=%d stale=%d bounded_checks=%d violations=%d known=%d exit=%d wall=%.1fs"
          % (run.prop, run.tier, run.obligations, run.discharged, len(run.stale), len(run.bounded),
             len(run.violations), len(run.known), rc, time.time() - run.t0))
    return rc


if __name__ == "__main__":
    sys.exit(main())
