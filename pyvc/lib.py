"""Built-in and library semantics used by the symbolic executor.

Two kinds of entries:
  * core Python semantics (len, range, list/str/dict/set methods, comprehensions, iteration) - encoded here;
  * ASSUMED library contracts (numpy, pandas, ... DESIGN.md section 3) - each registered with @libfn and a
    human-readable statement; every use is recorded in Exec.used_lib and reported as trusted base.
"""
import ast
import z3

from .types import (INT, REAL, BOOL, STR, NONE, SLICE, FUNC, MODULE, RECORD, TAbs, TSeq, TSet, TOpt, TTuple,
                    TDict, TPy, TIter, SV, parse_type)

LIBFNS = {}      # qualified name -> (python impl, statement)
METHODS = {}     # (typeclass, method) -> (impl, statement)


import json as _json
import os as _os

_SHAPES_FILE = _os.path.join(_os.path.dirname(_os.path.abspath(__file__)), "callshapes.json")
RECORD_SHAPES = set() if _os.environ.get("PYVC_RECORD_SHAPES") else None
# shapes whose handlers were reviewed by hand although the unchanged tree does not use them (the duals of recorded
# ones: np.max next to np.min, dict.get with one argument, min next to max)
EXTRA_SHAPES = {"lib:np.max/1/", "lib:numpy.max/1/", "method:dict.get/1/", "builtin:min/1/key", "builtin:min/2/",
                "builtin:max/2/", "builtin:max/1/", "builtin:min/1/", "builtin:abs/1/", "builtin:bool/1/", "builtin:tuple/1/", "builtin:dict/1/"}
try:
    KNOWN_SHAPES = set(_json.load(open(_SHAPES_FILE))) | EXTRA_SHAPES
except Exception:
    KNOWN_SHAPES = None


def dump_shapes():
    """merge the shapes recorded in this process into pyvc/callshapes.json"""
    if RECORD_SHAPES is None:
        return
    old = set()
    try:
        old = set(_json.load(open(_SHAPES_FILE)))
    except Exception:
        pass
    _json.dump(sorted(old | RECORD_SHAPES), open(_SHAPES_FILE, "w"), indent=0)


def libfn(*names, stmt=""):
    def deco(f):
        for n in names:
            LIBFNS[n] = (f, stmt)
        return f
    return deco


def method(tclass, *names, stmt=""):
    def deco(f):
        for n in names:
            METHODS[(tclass, n)] = (f, stmt)
        return f
    return deco


def tclass_of(t):
    if isinstance(t, TSeq):
        return "seq"
    if isinstance(t, TSet):
        return "set"
    if isinstance(t, TDict):
        return "dict"
    if isinstance(t, TIter):
        return "iter"
    if t == STR:
        return "str"
    if isinstance(t, TAbs):
        return "abs:" + t.name
    if isinstance(t, TPy):
        return "py:" + t.what
    return t.key()


class Lib:
    def __init__(self):
        from . import engine
        self.E = engine

    # ---------------------------------------------------------------- dispatch
    def attribute(self, ex, st, base, attr, node):
        if isinstance(base.t, TSeq) and attr in ("values", "T"):
            if attr == "values":
                return SV(base.t.with_kind("nd"), base.z)
        if isinstance(base.t, TSeq) and attr == "size":
            return SV(INT, ex.seq_len(base))
        if isinstance(base.t, TIter) and st.spec:
            if attr == "items":
                return base.py["seq"]
            if attr == "pos":
                return SV(INT, base.py["pos"])
        if isinstance(base.t, TPy) and base.t is RECORD:
            if attr in base.py:
                return base.py[attr]
        return None

    def binop(self, ex, st, op, a, b, node):
        an = isinstance(a.t, TSeq) and a.t.kind == "nd"
        bn = isinstance(b.t, TSeq) and b.t.kind == "nd"
        if an or bn:
            return self.elementwise2(ex, st, op, a, b, node)
        return None

    def compare(self, ex, st, op, a, b, node):
        an = isinstance(a.t, TSeq) and a.t.kind == "nd"
        bn = isinstance(b.t, TSeq) and b.t.kind == "nd"
        if (an or bn) and not isinstance(op, (ast.In, ast.NotIn, ast.Is, ast.IsNot)):
            # in specifications `a == b` on two arrays is value equality; array-against-scalar has no such reading
            # and is numpy's element-wise comparison there too
            scalar_other = (an != bn) and (b if an else a).t in (INT, REAL, BOOL)
            if not st.spec or scalar_other:
                return self.elementwise2(ex, st, op, a, b, node)
        return None

    def elementwise1(self, ex, st, a, f, elem):
        aa = a.t.arr(a.z)
        probe = f(aa[z3.Int("memo_probe")])
        key = ("ew1", a.z.get_id(), probe.get_id(), elem.key())
        if key in st.memo and not ex.binder_vars:
            return st.memo[key][0]
        r = ex.new_seq(st, elem, ex.seq_len(a), lambda j: f(aa[j]), a.t.kind, "ew")
        if not ex.binder_vars:
            st.memo[key] = (r, probe)     # the probe term is kept alive so that its id stays valid
        return r

    def elementwise2(self, ex, st, op, a, b, node):
        key = ("ew2", type(op).__name__, a.z.get_id() if a.z is not None else id(a),
               b.z.get_id() if b.z is not None else id(b))
        if key in st.memo and not ex.binder_vars:
            return st.memo[key]
        r = self._elementwise2(ex, st, op, a, b, node)
        if not ex.binder_vars:
            st.memo[key] = r
        return r

    def _elementwise2(self, ex, st, op, a, b, node):
        ex.used_lib.add("numpy element-wise arithmetic/comparison on equal-length arrays (scalars broadcast)")
        if isinstance(a.t, TSeq) and isinstance(b.t, TSeq):
            ex.oblige(st, "safety.broadcast", ex.seq_len(a) == ex.seq_len(b), "safety", node,
                      "element-wise operands have equal length")
        ref = a if isinstance(a.t, TSeq) else b
        ln = ex.seq_len(ref)
        j = ex.bvar("j")

        def at(x):
            if isinstance(x.t, TSeq):
                return SV(x.t.elem, x.t.arr(x.z)[j])
            return x
        ex.push_binder(st, [j], z3.And(0 <= j, j < ln))
        try:
            xa, xb = at(a), at(b)
            if isinstance(op, ast.cmpop):
                sp = st.spec
                st.spec = True   # scalar comparison semantics on the elements
                try:
                    val = SV(BOOL, ex.compare(st, op, xa, xb, node))
                finally:
                    st.spec = sp
            elif isinstance(op, (ast.BitAnd, ast.BitOr)) and xa.t == BOOL and xb.t == BOOL:
                val = SV(BOOL, z3.And(xa.z, xb.z) if isinstance(op, ast.BitAnd) else z3.Or(xa.z, xb.z))
            elif isinstance(op, ast.Div):
                # numpy division never raises (inf/nan with a warning): the quotient is only constrained where
                # the divisor is non-zero (sound over-approximation of the real-arithmetic model)
                x, y = ex.to_real(xa), ex.to_real(xb)
                ex.used_lib.add("numpy element-wise division: x / y where y != 0 (unconstrained elsewhere, no exception)")
                t = TSeq(REAL, "nd")
                ex.pop_binder(st)
                r = ex.fresh("ewdiv", t)
                ex.assume(st, t.len(r.z) == ln)
                ex.assume(st, z3.ForAll([j], z3.Implies(z3.And(0 <= j, j < ln, y != 0), t.arr(r.z)[j] == x / y),
                                        patterns=[t.arr(r.z)[j]]))
                ex.push_binder(st, [j], z3.And(0 <= j, j < ln))
                return r
            else:
                val = ex.binop(st, op, xa, xb, node)
        finally:
            ex.pop_binder(st)
        return self.new_seq_q(ex, st, val.t, ln, j, val.z, "nd", "ew")

    def new_seq_q(self, ex, st, elem, ln, j, body, kind, prefix):
        t = TSeq(elem, kind)
        r = ex.fresh(prefix, t)
        ex.assume(st, t.len(r.z) == ln)
        ex.assume(st, z3.ForAll([j], z3.Implies(z3.And(0 <= j, j < ln), t.arr(r.z)[j] == body),
                                patterns=[t.arr(r.z)[j]]))
        for f in ex.wf(r)[1:]:
            ex.assume(st, f)
        return r

    def subscript(self, ex, st, base, idx, node):
        if isinstance(base.t, TSeq) and isinstance(idx.t, TSeq):
            if idx.t.elem == BOOL:
                return mask_select(ex, st, base, idx, node)
            if idx.t.elem == INT:
                return gather(ex, st, base, idx, node)
        return None

    def store(self, ex, st, target, val, node):
        # a[mask] = v
        if isinstance(target.value, ast.Name) and target.value.id in st.env:
            base = st.env[target.value.id]
            if isinstance(base.t, TSeq):
                idx = ex.ev(st, target.slice)
                if isinstance(idx.t, TSeq) and idx.t.elem == BOOL:
                    ex.used_lib.add("numpy boolean-mask assignment a[m] = v sets exactly the masked positions")
                    ex.oblige(st, "safety.mask_len", ex.seq_len(idx) == ex.seq_len(base), "safety", node,
                              "mask length equals array length")
                    v = ex.coerce(val, base.t.elem)
                    aa, ma = base.t.arr(base.z), idx.t.arr(idx.z)
                    st.env[target.value.id] = ex.new_seq(
                        st, base.t.elem, ex.seq_len(base), lambda j: z3.If(ma[j], v.z, aa[j]), base.t.kind,
                        target.value.id)
                    return True
        return False

    def delete(self, ex, st, tg, node):
        if isinstance(tg.value, ast.Name) and tg.value.id in st.env:
            base = st.env[tg.value.id]
            if isinstance(base.t, TDict):
                k = ex.coerce(ex.ev(st, tg.slice), base.t.k)
                ex.oblige(st, "safety.key", z3.Select(base.t.has(base.z), k.z), "safety", node, "del key present")
                st.env[tg.value.id] = self.dict_del(ex, st, base, k)
                return True
        return False

    def with_item(self, ex, st, it):
        return False

    def with_exit(self, ex, st, it):
        return None

    def havoc_py(self, ex, st, old, name):
        if isinstance(old.t, TIter):
            p = ex.fresh_z(name + "_pos", z3.IntSort())
            sq = old.py["seq"]
            st.hyps.append(z3.And(0 <= p, p <= ex.seq_len(sq)))
            return SV(old.t, py={"seq": sq, "pos": p})
        return old

    # ---------------------------------------------------------------- sets / dicts
    def set_binop(self, ex, st, op, a, b):
        if a.t != b.t:
            raise self.E.Unsupported("set op on %s, %s" % (a.t, b.t))
        x = ex.bvar("x", a.t.elem.sort())
        r = ex.fresh("set", a.t)
        if isinstance(op, ast.Sub):
            body = z3.And(a.z[x], z3.Not(b.z[x]))
        elif isinstance(op, ast.BitAnd):
            body = z3.And(a.z[x], b.z[x])
        elif isinstance(op, ast.BitOr):
            body = z3.Or(a.z[x], b.z[x])
        else:
            raise self.E.Unsupported("set operator")
        ex.assume(st, z3.ForAll([x], r.z[x] == body, patterns=[r.z[x]]))
        return r

    def dict_empty(self, ex, st, t):
        ks = ex.seq_lit(st, [], t.k)
        has = z3.K(t.k.sort(), z3.BoolVal(False))
        vals = ex.fresh_z("dv", z3.ArraySort(t.k.sort(), t.v.sort()))
        return SV(t, t.mk(vals, has, ks.z))

    def dict_set(self, ex, st, d, k, v):
        t = d.t
        has = t.has(d.z)
        keys = SV(t.keyseq, t.keys(d.z))
        kl = ex.seq_len(keys)
        newkeys = z3.If(has[k.z], keys.z,
                        t.keyseq.mk(z3.Store(t.keyseq.arr(keys.z), kl, k.z), kl + 1))
        nd = SV(t, t.mk(z3.Store(t.vals(d.z), k.z, v.z), z3.Store(has, k.z, z3.BoolVal(True)), newkeys))
        # re-establish the key-sequence invariant for the new dictionary as a derived fact
        r = ex.fresh("dict", t)
        ex.assume(st, r.z == nd.z)
        for f in ex.wf(r):
            ex.assume(st, f)
        return r

    def dict_del(self, ex, st, d, k):
        t = d.t
        keys = SV(t.keyseq, t.keys(d.z))
        kl = ex.seq_len(keys)
        pos = ex.uf("dpos_" + t.key(), t.sort(), t.k.sort(), z3.IntSort())
        p = pos(d.z, k.z)
        ka = t.keyseq.arr(keys.z)
        nk = ex.new_seq(st, t.k, kl - 1, lambda j: z3.If(j < p, ka[j], ka[j + 1]), "list", "keys")
        r = ex.fresh("dict", t)
        ex.assume(st, r.z == t.mk(t.vals(d.z), z3.Store(t.has(d.z), k.z, z3.BoolVal(False)), nk.z))
        for f in ex.wf(r):
            ex.assume(st, f)
        return r

    # ---------------------------------------------------------------- iteration
    def iteration(self, ex, st, node):
        """-> (n, getter(state, k) -> SV)"""
        if isinstance(node, ast.Call) and isinstance(node.func, ast.Name):
            fn = node.func.id
            if fn in ("range", "zip", "list", "tuple", "iter") and node.keywords:
                raise self.E.Unsupported("%s(...) with keyword arguments" % fn)
            if fn == "range":
                if not 1 <= len(node.args) <= 3:
                    raise self.E.Unsupported("range with %d arguments" % len(node.args))
                args = [ex.ev(st, a) for a in node.args]
                if len(args) == 1:
                    lo, hi, stp = z3.IntVal(0), ex.to_int(args[0]), z3.IntVal(1)
                elif len(args) == 2:
                    lo, hi, stp = ex.to_int(args[0]), ex.to_int(args[1]), z3.IntVal(1)
                else:
                    lo, hi, stp = ex.to_int(args[0]), ex.to_int(args[1]), ex.to_int(args[2])
                    if not st.spec:
                        ex.oblige(st, "safety.range_step", stp > 0, "safety", node, "range step positive")
                n = z3.If(hi > lo, (hi - lo + stp - 1) / stp, z3.IntVal(0))
                if z3.is_int_value(stp) and stp.as_long() == 1:
                    n = z3.If(hi > lo, hi - lo, z3.IntVal(0))
                return n, (lambda s, k: SV(INT, lo + k * stp))
            if fn == "enumerate":
                kw = {k.arg: k.value for k in node.keywords}
                if len(node.args) not in (1, 2) or set(kw) - {"start"} or (len(node.args) == 2 and kw):
                    raise self.E.Unsupported("enumerate form")
                start_node = node.args[1] if len(node.args) == 2 else kw.get("start")
                start = ex.to_int(ex.ev(st, start_node)) if start_node is not None else z3.IntVal(0)
                n, g = self.iteration(ex, st, node.args[0])
                return n, (lambda s, k: SV(TPy("pytuple"), py=[SV(INT, start + k), g(s, k)]))
            if fn == "zip" and len(node.args) == 1 and isinstance(node.args[0], ast.Starred):
                # zip(*x): transposition of a list of equally long lists; item k = [row[k] for row in x]
                x = ex.ev(st, node.args[0].value)
                if not (isinstance(x.t, TSeq) and isinstance(x.t.elem, TSeq)):
                    raise self.E.Unsupported("zip(*%s)" % x.t)
                inner = x.t.elem
                xa = x.t.arr(x.z)
                nrows = ex.seq_len(x)
                if not st.spec:
                    ex.oblige(st, "safety.zip_star_nonempty", nrows >= 1, "safety", node,
                              "zip(*x) over at least one list")
                    j = ex.bvar("j")
                    ex.oblige(st, "safety.zip_star_equal_lengths",
                              z3.ForAll([j], z3.Implies(z3.And(0 <= j, j < nrows),
                                                        inner.len(xa[j]) == inner.len(xa[0])), patterns=[xa[j]]),
                              "safety", node, "zip(*x): all lists equally long (otherwise items are silently dropped)")
                n = inner.len(xa[0])

                def getter(s, k):
                    return ex.new_seq(s, inner.elem, nrows, lambda jj: inner.arr(xa[jj])[k], "tuple", "col")
                return n, getter
            if fn == "zip":
                if any(isinstance(a, ast.Starred) for a in node.args):
                    raise self.E.Unsupported("zip(*x)")
                subs = [self.iteration(ex, st, a) for a in node.args]
                n = subs[0][0]
                for (m, _) in subs[1:]:
                    n = z3.If(m < n, m, n)
                return n, (lambda s, k: SV(TPy("pytuple"), py=[g(s, k) for (_, g) in subs]))
            if fn in ("list", "tuple", "iter") and len(node.args) == 1:
                return self.iteration(ex, st, node.args[0])
        if isinstance(node, ast.Call) and isinstance(node.func, ast.Attribute) and \
                node.func.attr in ("items", "keys", "values"):
            d = ex.ev(st, node.func.value)
            if isinstance(d.t, TDict):
                keys = SV(d.t.keyseq, d.t.keys(d.z))
                n = ex.seq_len(keys)
                ka = d.t.keyseq.arr(keys.z)
                va = d.t.vals(d.z)
                what = node.func.attr
                if what == "items":
                    return n, (lambda s, k: SV(TPy("pytuple"), py=[SV(d.t.k, ka[k]), SV(d.t.v, va[ka[k]])]))
                if what == "keys":
                    return n, (lambda s, k: SV(d.t.k, ka[k]))
                return n, (lambda s, k: SV(d.t.v, va[ka[k]]))
        v = ex.ev(st, node)
        if isinstance(v.t, TSeq):
            return ex.seq_len(v), (lambda s, k: ex.seq_get(v, k))
        if isinstance(v.t, TDict):
            keys = SV(v.t.keyseq, v.t.keys(v.z))
            return ex.seq_len(keys), (lambda s, k: ex.seq_get(keys, k))
        if isinstance(v.t, TIter):
            # consume the rest of the iterator; its cursor ends at len(seq)
            sq, p0 = v.py["seq"], v.py["pos"]
            n = ex.seq_len(sq) - p0
            if isinstance(node, ast.Name):
                name = node.id

                def getter(s, k):
                    s.env[name] = SV(v.t, py={"seq": sq, "pos": p0 + k + 1})
                    return ex.seq_get(sq, p0 + k)
                return n, getter
            return n, (lambda s, k: ex.seq_get(sq, p0 + k))
        raise self.E.Unsupported("iteration over %s" % v.t)

    # ---------------------------------------------------------------- comprehensions
    def comprehension(self, ex, st, node):
        if len(node.generators) != 1:
            raise self.E.Unsupported("nested comprehension generators")
        gen = node.generators[0]
        canon = self.canonical_comprehension(ex, st, node, gen)
        if canon is not None:
            return canon
        n, getter = self.iteration(ex, st, gen.iter)
        j = ex.bvar("j")
        saved = dict(st.env)
        outer_expect = getattr(st, "_expect_elem", None)
        # the declared element type of the comprehension's target describes the ELEMENTS being built
        st._expect_elem = outer_expect.elem if isinstance(outer_expect, TSeq) else None
        ex.push_binder(st, [j], z3.And(0 <= j, j < n))
        try:
            ex.assign_to(st, gen.target, getter(st, j), node)
            if gen.ifs:
                conds = [ex.truth(ex.ev(st, c)) for c in gen.ifs]
                cond = z3.And(*conds) if len(conds) > 1 else conds[0]
                st.guards.append(cond)
                try:
                    val = ex.ev(st, node.elt)
                finally:
                    st.guards.pop()
            else:
                cond = None
                val = ex.ev(st, node.elt)
        finally:
            ex.pop_binder(st)
            st.env = saved
            st._expect_elem = outer_expect
        if isinstance(val.t, TPy) and val.t.what == "emptylist":
            exp = getattr(st, "_expect_elem", None)
            if isinstance(exp, TSeq):
                val = ex.seq_lit(st, [], exp.elem, exp.kind)     # [[] for ...] with a declared element type
        if isinstance(val.t, TPy):
            if val.t.what == "emptylist":
                raise self.E.Unsupported("comprehension of empty lists needs a declared type")
            raise self.E.Unsupported("comprehension element %s" % val.t)
        if cond is None:
            return self.new_seq_q(ex, st, val.t, n, j, val.z, "list", "comp")
        return filtered_seq(ex, st, val.t, n, j, cond, val.z)

    def canonical_comprehension(self, ex, st, node, gen):
        """[f(x, free...) for x in xs] with xs a plain sequence expression and no filter: the result is a FUNCTION
        of xs and of the free variables of f - the same source text applied to the same values denotes the same
        term (needed when code and specification build the same list independently).  -> SV or None"""
        if gen.ifs or not isinstance(gen.target, ast.Name) or not isinstance(gen.iter, (ast.Name, ast.Subscript,
                                                                                        ast.Attribute)):
            return None
        try:
            xs = ex.ev(st, gen.iter)
        except Exception:
            return None
        if not isinstance(xs.t, TSeq):
            return None
        tgt = gen.target.id
        free = []
        for n in ast.walk(node.elt):
            name = None
            if isinstance(n, ast.Name) and isinstance(n.ctx, ast.Load):
                name = n.id
            elif isinstance(n, ast.Attribute):
                try:
                    name = ast.unparse(n)
                except Exception:
                    name = None
            if name and name != tgt and name in st.env and st.env[name].z is not None and name not in free:
                free.append(name)
        free.sort()
        j = ex.bvar("j")
        saved = dict(st.env)
        n_len = ex.seq_len(xs)
        outer_expect = getattr(st, "_expect_elem", None)
        st._expect_elem = outer_expect.elem if isinstance(outer_expect, TSeq) else None
        ex.push_binder(st, [j], z3.And(0 <= j, j < n_len))
        try:
            st.env[tgt] = ex.seq_get(xs, j)
            val = ex.ev(st, node.elt)
        except Exception:
            return None
        finally:
            ex.pop_binder(st)
            st.env = saved
            st._expect_elem = outer_expect
        if isinstance(val.t, TPy):
            return None
        if val.t == xs.t.elem and z3.eq(val.z, ex.seq_get(xs, j).z):
            # [x for x in xs] / [copy_of(x) for x in xs] with a value-identity copy: a new list with the content of xs
            return SV(xs.t.with_kind("list"), xs.z)
        import hashlib as _h
        # the name depends on the element expression, not on the text of the iterated sequence (an argument)
        key = _h.md5((ast.unparse(node.elt) + "|" + tgt + "|" + ",".join(free) + "|" + xs.t.key() + "|" +
                      val.t.key()).encode()).hexdigest()[:10]
        args = [xs] + [st.env[f] for f in free]
        rt = TSeq(val.t, "list")
        fn = ex.uf("comp_" + key, *([a.t.sort() for a in args] + [rt.sort()]))
        r = SV(rt, fn(*[a.z for a in args]))
        skey = ("canon-comp", r.z.get_id())
        if skey not in st.seen:
            st.seen.add(skey)
            ex.assume(st, rt.len(r.z) == n_len)
            body = z3.Implies(z3.And(0 <= j, j < n_len), rt.arr(r.z)[j] == val.z)
            pats = [rt.arr(r.z)[j]]
            if not st.binders:
                # also defined wherever the source element is mentioned (under outer binders the source term need
                # not contain every bound variable, so it cannot serve as a pattern there)
                pats.append(xs.t.arr(xs.z)[j])
            ex.assume(st, z3.ForAll([j], body, patterns=pats))
        return r

    # ---------------------------------------------------------------- calls
    def check_shape(self, ex, st, kind, name, node):
        """A library call in the CODE is accepted only in an argument shape (number of positional arguments, names
        of keyword arguments) that was recorded from the unchanged tree (pyvc/callshapes.json, written by
        `PYVC_RECORD_SHAPES=1 tools/regress.sh`): the assumed contract of e.g. enumerate(xs) says nothing about
        enumerate(xs, 1) or split(sep, maxsplit), and a handler that ignores the extra argument would silently
        model the wrong function.  Unknown shapes make the contract inapplicable (STALE)."""
        if st.spec:
            return
        shape = "%s:%s/%d/%s" % (kind, name, len(node.args) + (1000 if any(isinstance(a, ast.Starred)
                                                                      for a in node.args) else 0),
                                 ",".join(sorted(k.arg or "**" for k in node.keywords)))
        if RECORD_SHAPES is not None:
            RECORD_SHAPES.add(shape)
            return
        if KNOWN_SHAPES is not None and shape not in KNOWN_SHAPES:
            raise self.E.Unsupported("library call shape %s was not validated on the unchanged tree" % shape)

    def call(self, ex, st, node):
        f = node.func
        # ---- spec-only / builtin names
        if isinstance(f, ast.Name):
            name = f.id
            h = getattr(self, "b_" + name, None)
            if name in st.env and st.env[name].t is FUNC:
                return self.call_local(ex, st, st.env[name], node)
            if name in ex.ghost_fns or any(name in sc for sc in ex.ghost_scope):
                return self.call_ghost(ex, st, name, node)
            if h is not None:
                self.check_shape(ex, st, "builtin", name, node)
                return h(ex, st, node)
        fv = ex.ev(st, f)
        if fv.t is not FUNC:
            raise self.E.Unsupported("call of non-function %s" % ast.unparse(f))
        kind = fv.py[0]
        if kind in ("lambda", "localdef"):
            return self.call_local(ex, st, fv, node)
        if kind == "name":
            qual = fv.py[1]
            callee = ex.resolve_contract(qual)
            if callee is not None and callee.target != ex.c.target:
                return self.call_contract(ex, st, callee, node)
            if qual in LIBFNS:
                impl, stmt = LIBFNS[qual]
                self.check_shape(ex, st, "lib", qual, node)
                ex.used_lib.add("%s: %s" % (qual, stmt))
                return impl(ex, st, node)
            short = qual.split(".")[-1]
            raise self.E.Unsupported("call of unknown function %s" % qual)
        if kind == "method":
            base, attr = fv.py[1], fv.py[2]
            tc = tclass_of(base.t)
            key = (tc, attr)
            if key not in METHODS and tc.startswith("abs:"):
                key = ("abs", attr)
            if tc.startswith("abs:"):
                lc = ex.registry.get("lib:%s.%s" % (tc[4:], attr))
                if lc is not None:
                    return self.call_contract(ex, st, lc, node, self_sv=base, self_node=fv.py[3])
            if key in METHODS:
                impl, stmt = METHODS[key]
                self.check_shape(ex, st, "method", "%s.%s" % key, node)
                if stmt:
                    ex.used_lib.add("%s.%s: %s" % (tc, attr, stmt))
                return impl(ex, st, base, node, fv.py[3])
            try:
                dotted = ast.unparse(node.func)
            except Exception:
                dotted = attr
            callee = ex.resolve_contract(dotted)
            if callee is not None:
                return self.call_contract(ex, st, callee, node, self_sv=base)
            raise self.E.Unsupported("method %s.%s" % (tc, attr))
        raise self.E.Unsupported("call kind %s" % kind)

    def call_ghost(self, ex, st, name, node):
        ent = None
        for sc in reversed(ex.ghost_scope):
            if name in sc:
                ent = sc[name]
                break
        if ent is None:
            ent = ex.ghost_fns[name]
        f, asorts, rt = ent
        args = [ex.coerce(ex.ev(st, a), t) for a, t in zip(node.args, asorts)]
        if len(args) != len(asorts):
            raise self.E.Unsupported("ghost %s arity" % name)
        return SV(rt, f(*[a.z for a in args]))

    def call_local(self, ex, st, fv, node):
        kind = fv.py[0]
        args = [ex.ev(st, a) for a in node.args]
        if kind == "lambda":
            lam, env = fv.py[1], fv.py[2]
            params = [a.arg for a in lam.args.args]
            body = lam.body
        else:
            fd = fv.py[1]
            params = [a.arg for a in fd.args.args]
            stmts = [s for s in fd.body if not (isinstance(s, ast.Expr) and isinstance(s.value, ast.Constant))]
            if len(stmts) != 1 or not isinstance(stmts[0], ast.Return):
                raise self.E.Unsupported("local function %s is not a single return" % fd.name)
            body = stmts[0].value
            env = None
        saved = dict(st.env)
        if env is not None:
            for k, v in env.items():
                st.env.setdefault(k, v)
        for p, a in zip(params, args):
            st.env[p] = a
        try:
            return ex.ev(st, body)
        finally:
            st.env = saved

    def bind_args(self, ex, st, callee, node, self_sv=None, self_node=None):
        pnames = list(callee.params)
        bound = {}
        argnodes = {}
        pos = 0
        if self_sv is not None and pnames and pnames[0] == "self":
            bound["self"] = self_sv
            if self_node is not None:
                argnodes["self"] = self_node
            pos = 1
        for a in node.args:
            if pos >= len(pnames):
                raise self.E.Unsupported("too many args for %s" % callee.target)
            bound[pnames[pos]] = ex.ev(st, a)
            argnodes[pnames[pos]] = a
            pos += 1
        for kw in node.keywords:
            if kw.arg not in callee.params:
                raise self.E.Unsupported("unknown keyword %s for %s" % (kw.arg, callee.target))
            bound[kw.arg] = ex.ev(st, kw.value)
            argnodes[kw.arg] = kw.value
        for fn_ in callee.self_fields:
            key = "self." + fn_
            if key not in st.env:
                raise self.E.Unsupported("callee %s needs %s" % (callee.target, key))
            bound[key] = st.env[key]
        for pn in pnames:
            if pn not in bound and pn.startswith("ghost_") and pn in st.env:
                bound[pn] = st.env[pn]          # ghost state is threaded implicitly
                argnodes[pn] = ast.Name(id=pn, ctx=ast.Load())
        for pn in pnames:
            if pn not in bound:
                d = getattr(callee, "defaults", {}).get(pn)
                if d is None:
                    raise self.E.Unsupported("missing argument %s for %s" % (pn, callee.target))
                bound[pn] = ex.ev(st, ast.parse(d, mode="eval").body)
        for pn in pnames:
            bound[pn] = ex.coerce_decl(st, bound[pn], parse_type(callee.params[pn]))
        return bound, argnodes

    def call_contract(self, ex, st, callee, node, self_sv=None, self_node=None):
        ex.used_contracts.add(callee.target)
        bound, argnodes = self.bind_args(ex, st, callee, node, self_sv, self_node)
        short = callee.target.split(".")[-1]
        site = "L%d" % getattr(node, "lineno", 0)
        # callee ghosts: fresh UFs for this call site, axioms instantiated with the actual arguments
        scope = {}
        for g in callee.ghosts:
            args, res = g.sig.split("->")
            asorts = [parse_type(a.strip()) for a in args.split(",") if a.strip()]
            rt = parse_type(res.strip())
            ex.n += 1
            fz = z3.Function("%s@%s!%d" % (g.name, short, ex.n), *([a.sort() for a in asorts] + [rt.sort()]))
            scope[g.name] = (fz, asorts, rt)
        for g in callee.global_ghosts:
            if g.name not in ex.ghost_fns:
                ex.declare_global(g)
        ex.ghost_scope.append(scope)
        try:
            s2 = st.fork()
            s2.env = dict(bound)
            if callee.global_ghosts:
                s2g = s2.fork()
                s2g.hyps = st.hyps
                for g in callee.global_ghosts:
                    for ax in g.axioms:
                        ex.assume(st, self._spec_in(ex, st, s2g, ax))
            s2.old = dict(bound)
            s2.hyps = st.hyps   # share: definitional axioms go to the caller's path
            for g in callee.ghosts:
                for ax in g.axioms:
                    ex.assume(st, self._spec_in(ex, st, s2, ax))
            for k, r in enumerate(callee.requires + callee.quiet_requires):
                ex.oblige(st, "call.%s.requires%d@%s" % (short, k, site), self._spec_in(ex, st, s2, r),
                          "requires-at-call", node, r)
            # result and modified arguments
            post_env = dict(bound)
            for m in callee.modifies:
                nv = ex.fresh(m.replace(".", "_"), bound[m].t)
                for fct in ex.wf(nv):
                    ex.assume(st, fct)
                post_env[m] = nv
                if m.startswith("self."):
                    st.env[m] = nv
                    continue
                an = argnodes.get(m)
                if isinstance(an, ast.Name) and an.id in st.env:
                    st.env[an.id] = nv
                elif an is not None and ast.unparse(an) in st.env:
                    st.env[ast.unparse(an)] = nv
                elif an is not None:
                    raise self.E.Unsupported("modified argument %s is not a plain name" % m)
            res = SV(NONE)
            if callee.returns:
                res = ex.fresh("ret_" + short, parse_type(callee.returns))
                for fct in ex.wf(res):
                    ex.assume(st, fct)
            s3 = st.fork()
            s3.env = dict(post_env)
            for gname, gty in callee.ghost_returns.items():
                gv = ex.fresh(gname, parse_type(gty))
                s3.env[gname] = gv
                st.env[gname] = gv
            s3.env["result"] = res
            s3.old = dict(bound)
            s3.hyps = st.hyps
            # exceptional exits allowed by the callee contract
            exc_conds = []
            for exc, cond in callee.raises.items():
                cz = self._spec_in(ex, st, s2, cond)
                exc_conds.append(cz)
                g = z3.And(*(st.guards + [cz])) if st.guards else cz
                st.pending_exc.append((g, exc))
            if callee.result_fn:
                f, asorts, rt = ex.ghost_fns[callee.result_fn]
                pn = [p for p in callee.params if p not in callee.modifies and p != "self"]
                ex.assume(st, res.z == f(*[ex.coerce(bound[p], t).z for p, t in zip(pn, asorts)]))
            for e in callee.ensures:
                ez = self._spec_in(ex, st, s3, e)
                if exc_conds and not getattr(callee, "raises_exact", False):
                    pass
                ex.assume(st, ez)
            return res
        finally:
            ex.ghost_scope.pop()

    def _spec_in(self, ex, st, senv, text):
        s = st.fork()
        s.env = dict(senv.env)
        s.old = senv.old
        z = ex.spec(s, text)
        for h in s.hyps[len(st.hyps):]:
            st.hyps.append(h)
        return z

    # ---------------------------------------------------------------- builtins (b_<name>)
    def b_len(self, ex, st, node):
        v = ex.unwrap(st, ex.ev(st, node.args[0]), node, "argument of len")
        return self.len_value(ex, st, v, node)

    def len_value(self, ex, st, v, node):
        if isinstance(v.t, TSeq):
            return SV(INT, ex.seq_len(v))
        if isinstance(v.t, TDict):
            return SV(INT, v.t.keyseq.len(v.t.keys(v.z)))
        if isinstance(v.t, TPy) and v.t.what == "pytuple":
            return SV(INT, z3.IntVal(len(v.py)))
        if isinstance(v.t, TTuple):
            return SV(INT, z3.IntVal(len(v.t.elems)))
        if v.t == STR:
            return SV(INT, ex.uf("strlen", STR.sort(), z3.IntSort())(v.z))
        raise self.E.Unsupported("len of %s" % v.t)

    def b_implies(self, ex, st, node):
        a = ex.truth(ex.ev(st, node.args[0]))
        st.guards.append(a)
        try:
            b = ex.truth(ex.ev(st, node.args[1]))
        finally:
            st.guards.pop()
        return SV(BOOL, z3.Implies(a, b))

    def b_iff(self, ex, st, node):
        a = ex.truth(ex.ev(st, node.args[0]))
        b = ex.truth(ex.ev(st, node.args[1]))
        return SV(BOOL, a == b)

    def b_old(self, ex, st, node):
        s2 = st.fork()
        s2.env = dict(st.old)
        s2.env.update({k: v for k, v in st.env.items() if k not in st.old and k != "result"})
        s2.hyps = st.hyps
        return ex.ev(s2, node.args[0])

    def _quant(self, ex, st, node, universal):
        lam = node.args[0]
        if not isinstance(lam, ast.Lambda):
            raise self.E.Unsupported("forall/exists needs a lambda")
        types = {}
        trig = None
        for kw in node.keywords:
            if kw.arg == "trigger":
                trig = kw.value
            elif kw.arg == "types":
                types = ast.literal_eval(kw.value)
        names = [a.arg for a in lam.args.args]
        vs = []
        saved = dict(st.env)
        for nme in names:
            t = parse_type(types.get(nme, "int"))
            v = ex.bvar(nme, t.sort())
            vs.append(v)
            st.env[nme] = SV(t, v)
        ex.push_binder(st, vs, z3.BoolVal(True))
        try:
            body = ex.truth(ex.ev(st, lam.body))
            pats = None
            if trig is not None:
                ex._in_trigger = getattr(ex, "_in_trigger", 0) + 1
                tl = trig.body if isinstance(trig, ast.Lambda) else trig
                groups = tl.elts if isinstance(tl, ast.List) else [tl]
                pats = []
                for g in groups:
                    terms = g.elts if isinstance(g, ast.Tuple) else [g]
                    zs = [ex.ev(st, t_).z for t_ in terms]
                    pats.append(z3.MultiPattern(*zs) if len(zs) > 1 else zs[0])
                ex._in_trigger -= 1
        finally:
            ex.pop_binder(st)
            st.env = saved
        q = z3.ForAll if universal else z3.Exists
        return SV(BOOL, q(vs, body, patterns=pats) if pats else q(vs, body))

    def b_forall(self, ex, st, node):
        return self._quant(ex, st, node, True)

    def b_exists(self, ex, st, node):
        return self._quant(ex, st, node, False)

    def _allany(self, ex, st, node, universal):
        a = node.args[0]
        if isinstance(a, (ast.GeneratorExp, ast.ListComp)):
            gens = a.generators
            vs, conds = [], []
            saved = dict(st.env)
            pushed = 0
            try:
                for gen in gens:
                    it = gen.iter
                    if (isinstance(it, ast.Call) and isinstance(it.func, ast.Name) and it.func.id == "range"
                            and len(it.args) <= 2 and isinstance(gen.target, ast.Name)):
                        # quantify over the python variable itself (keeps index terms free of arithmetic,
                        # which e-matching needs): lo <= i < hi
                        ra = [ex.to_int(ex.ev(st, a_)) for a_ in it.args]
                        lo, hi = (z3.IntVal(0), ra[0]) if len(ra) == 1 else (ra[0], ra[1])
                        j = ex.bvar(gen.target.id)
                        vs.append(j)
                        rng = z3.And(lo <= j, j < hi)
                        ex.push_binder(st, [j], rng)
                        pushed += 1
                        conds.append(rng)
                        st.env[gen.target.id] = SV(INT, j)
                    else:
                        n, getter = self.iteration(ex, st, gen.iter)
                        j = ex.bvar("q")
                        vs.append(j)
                        ex.push_binder(st, [j], z3.And(0 <= j, j < n))
                        pushed += 1
                        conds.append(z3.And(0 <= j, j < n))
                        ex.assign_to(st, gen.target, getter(st, j), node)
                    for c in gen.ifs:
                        conds.append(ex.truth(ex.ev(st, c)))
                elt = a.elt
                pats = None
                if isinstance(elt, ast.Call) and isinstance(elt.func, ast.Name) and elt.func.id == "trig":
                    zs = [ex.ev(st, t_).z for t_ in elt.args[1:]]
                    pats = [z3.MultiPattern(*zs) if len(zs) > 1 else zs[0]]
                    elt = elt.args[0]
                wit = getattr(st, "witness", {}) or {}
                tnames = [g.target.id for g in gens if isinstance(g.target, ast.Name)]
                if (not universal) and tnames and all(t in wit for t in tnames) and len(tnames) == len(gens):
                    # proof by witness: evaluate the instance instead of the existential
                    for _ in range(pushed):
                        ex.pop_binder(st)
                    pushed = 0
                    st.env = dict(saved)
                    inst = []
                    for gen in gens:
                        it = gen.iter
                        w = ex.to_int(wit[gen.target.id].value(st))
                        if (isinstance(it, ast.Call) and isinstance(it.func, ast.Name) and it.func.id == "range"
                                and len(it.args) <= 2):
                            ra = [ex.to_int(ex.ev(st, a_)) for a_ in it.args]
                            lo, hi = (z3.IntVal(0), ra[0]) if len(ra) == 1 else (ra[0], ra[1])
                            inst.append(z3.And(lo <= w, w < hi))     # the witness is the VALUE of the variable
                            st.env[gen.target.id] = SV(INT, w)
                        else:
                            n, getter = self.iteration(ex, st, gen.iter)
                            inst.append(z3.And(0 <= w, w < n))
                            ex.assign_to(st, gen.target, getter(st, w), node)
                        for c in gen.ifs:
                            inst.append(ex.truth(ex.ev(st, c)))
                    inst.append(ex.truth(ex.ev(st, elt)))
                    return SV(BOOL, z3.And(*inst))
                body = ex.truth(ex.ev(st, elt))
            finally:
                for _ in range(pushed):
                    ex.pop_binder(st)
                st.env = saved
            # rewrite range-variables so that the bound variable is the python variable where possible
            if universal:
                if pats:
                    return SV(BOOL, z3.ForAll(vs, z3.Implies(z3.And(*conds), body), patterns=pats))
                if len(vs) == 1:
                    # every array access indexed by exactly the bound variable is offered as an alternative
                    # trigger (the solver's own choice may be a term that never shows up in the goal)
                    cands = index_terms(body, vs[0])
                    if cands:
                        return SV(BOOL, z3.ForAll(vs, z3.Implies(z3.And(*conds), body), patterns=cands[:6]))
                return SV(BOOL, z3.ForAll(vs, z3.Implies(z3.And(*conds), body)))
            return SV(BOOL, z3.Exists(vs, z3.And(*(conds + [body]))))
        v = ex.ev(st, a)
        if isinstance(v.t, TSeq):
            j = ex.bvar("q")
            el = ex.truth(ex.seq_get(v, j))
            rng = z3.And(0 <= j, j < ex.seq_len(v))
            if universal:
                return SV(BOOL, z3.ForAll([j], z3.Implies(rng, el)))
            return SV(BOOL, z3.Exists([j], z3.And(rng, el)))
        if isinstance(v.t, tuple) or (isinstance(v.t, TPy) and v.t.what == "elementwise"):
            pass
        raise self.E.Unsupported("all/any over %s" % v.t)

    def b_all(self, ex, st, node):
        return self._allany(ex, st, node, True)

    def b_any(self, ex, st, node):
        return self._allany(ex, st, node, False)

    def b_min(self, ex, st, node):
        return self._minmax(ex, st, node, True)

    def b_max(self, ex, st, node):
        return self._minmax(ex, st, node, False)

    def _pairs_of_enumerate(self, ex, st, node):
        """enumerate(map(itemgetter(k), xs)) / enumerate(xs) -> the value sequence, or None"""
        if not (isinstance(node, ast.Call) and isinstance(node.func, ast.Name) and node.func.id == "enumerate"
                and len(node.args) == 1 and not node.keywords):
            return None
        inner = node.args[0]
        if isinstance(inner, ast.Call) and isinstance(inner.func, ast.Name) and inner.func.id == "map" and \
                len(inner.args) == 2:
            g = inner.args[0]
            if isinstance(g, ast.Call) and ast.unparse(g.func).split(".")[-1] == "itemgetter" and \
                    len(g.args) == 1 and isinstance(g.args[0], ast.Constant) and isinstance(g.args[0].value, int):
                k = g.args[0].value
                xs = ex.ev(st, inner.args[1])
                if isinstance(xs.t, TSeq) and isinstance(xs.t.elem, TTuple):
                    et = xs.t.elem.elems[k]
                    xa = xs.t.arr(xs.z)
                    col = ex.new_seq(st, et, ex.seq_len(xs), lambda j: xs.t.elem.get(xa[j], k), "list", "col")
                    jj = ex.bvar("cj")
                    # the projected column is also defined wherever the source element is mentioned
                    ex.assume(st, z3.ForAll([jj], z3.Implies(z3.And(0 <= jj, jj < ex.seq_len(xs)),
                                                             col.t.arr(col.z)[jj] == xs.t.elem.get(xa[jj], k)),
                                            patterns=[xa[jj]]))
                    return col
            return None
        xs = ex.ev(st, inner)
        return xs if isinstance(xs.t, TSeq) else None

    def _minmax(self, ex, st, node, is_min):
        kw = {k.arg: k.value for k in node.keywords}
        if len(node.args) == 1 and set(kw) == {"key"} and isinstance(kw["key"], ast.Call) and \
                ast.unparse(kw["key"].func).split(".")[-1] == "itemgetter" and len(kw["key"].args) == 1 and \
                isinstance(kw["key"].args[0], ast.Constant) and kw["key"].args[0].value == 1:
            vals = self._pairs_of_enumerate(ex, st, node.args[0])
            if vals is not None and vals.t.elem in (INT, REAL):
                # max(enumerate(vals), key=itemgetter(1)): the FIRST pair (i, vals[i]) with an extremal value
                n = ex.seq_len(vals)
                va = vals.t.arr(vals.z)
                g = z3.And(*(st.guards + [n == 0])) if st.guards else (n == 0)
                st.pending_exc.append((g, "ValueError"))
                idx = ex.fresh_z("argext", z3.IntSort())
                j = ex.bvar("mm")
                better = (lambda a, b: a < b) if is_min else (lambda a, b: a > b)
                ex.assume(st, z3.Implies(n > 0, z3.And(0 <= idx, idx < n)))
                ex.assume(st, z3.ForAll([j], z3.Implies(z3.And(0 <= j, j < n), z3.Not(better(va[j], va[idx]))),
                                        patterns=[va[j]]))
                ex.assume(st, z3.ForAll([j], z3.Implies(z3.And(0 <= j, j < idx), better(va[idx], va[j])),
                                        patterns=[va[j]]))
                ex.used_lib.add("max/min(enumerate(xs), key=itemgetter(1)): the first (index, value) pair whose value "
                                "is extremal; ValueError on an empty sequence")
                return SV(TPy("pytuple"), py=[SV(INT, idx), SV(vals.t.elem, va[idx])])
        if len(node.args) == 1 and not node.keywords:
            vals = self._pairs_of_enumerate(ex, st, node.args[0])
            if vals is not None:
                # max/min(enumerate(vals)) WITHOUT key: (index, value) pairs compare by index first, so the result
                # is simply the last / first pair; ValueError on an empty sequence
                n = ex.seq_len(vals)
                va = vals.t.arr(vals.z)
                g = z3.And(*(st.guards + [n == 0])) if st.guards else (n == 0)
                st.pending_exc.append((g, "ValueError"))
                idx = z3.IntVal(0) if is_min else n - 1
                ex.used_lib.add("max/min(enumerate(xs)) without key: pairs are ordered by their index")
                return SV(TPy("pytuple"), py=[SV(INT, idx), SV(vals.t.elem, va[idx])])
        if len(node.args) == 2 and not node.keywords:
            a, b = ex.ev(st, node.args[0]), ex.ev(st, node.args[1])
            x, y, t = ex.unify_num(a, b)
            return SV(t, z3.If((x <= y) if is_min else (x >= y), x, y))
        raise self.E.Unsupported("min/max form")

    def b_abs(self, ex, st, node):
        a = ex.ev(st, node.args[0])
        return SV(a.t, z3.If(a.z >= 0, a.z, -a.z))

    def b_int(self, ex, st, node):
        a = ex.ev(st, node.args[0])
        if a.t in (INT, BOOL):
            return SV(INT, ex.to_int(a))
        if a.t == STR:
            return SV(INT, ex.uf("int_of_str", STR.sort(), z3.IntSort())(a.z))
        raise self.E.Unsupported("int() of %s" % a.t)

    def b_float(self, ex, st, node):
        a = ex.ev(st, node.args[0])
        if a.t in (INT, BOOL, REAL):
            return SV(REAL, ex.to_real(a))
        if a.t == STR:
            return SV(REAL, ex.uf("float_of_str", STR.sort(), z3.RealSort())(a.z))
        if isinstance(a.t, TAbs):
            return SV(REAL, ex.uf("float_of_" + a.t.name, a.t.sort(), z3.RealSort())(a.z))
        raise self.E.Unsupported("float() of %s" % a.t)

    def b_bool(self, ex, st, node):
        return SV(BOOL, ex.truth(ex.ev(st, node.args[0])))

    def b_list(self, ex, st, node):
        if not node.args:
            return SV(TPy("emptylist"), py=[])
        a = ex.ev(st, node.args[0])
        if isinstance(a.t, TSeq):
            return SV(a.t.with_kind("list"), a.z)
        if isinstance(a.t, TSet):
            return list_of_set(ex, st, a)
        if isinstance(a.t, TPy) and a.t.what == "genexp":
            lc = ast.ListComp(elt=a.py.elt, generators=a.py.generators)
            return self.comprehension(ex, st, lc)
        raise self.E.Unsupported("list() of %s" % a.t)

    def b_dict(self, ex, st, node):
        """dict(m) of ONE mapping value (a Row record or a dict): a new object with the same content.  Values are
        mathematical here - the engine has no object identity for rows - so the copy IS the value; aliasing between
        the copy and the original is therefore outside what a contract can observe (bounded harness only)."""
        if len(node.args) != 1 or node.keywords:
            raise self.E.Unsupported("dict() with other than one positional argument")
        a = ex.ev(st, node.args[0])
        if (isinstance(a.t, TAbs) and a.t.name == "Row") or isinstance(a.t, TDict):
            return a
        raise self.E.Unsupported("dict() of %s" % a.t)

    def b_tuple(self, ex, st, node):
        a = ex.ev(st, node.args[0])
        if isinstance(a.t, TSeq):
            return SV(a.t.with_kind("tuple"), a.z)
        if isinstance(a.t, TPy) and a.t.what == "genexp":
            lc = ast.ListComp(elt=a.py.elt, generators=a.py.generators)
            r = self.comprehension(ex, st, lc)
            return SV(r.t.with_kind("tuple"), r.z)
        raise self.E.Unsupported("tuple() of %s" % a.t)

    def b_set(self, ex, st, node):
        if not node.args:
            t = getattr(st, "_expect_set", None)
            raise self.E.Unsupported("empty set() needs declared type")
        a = ex.ev(st, node.args[0])
        if isinstance(a.t, TSeq):
            return set_of_seq(ex, st, a)
        if isinstance(a.t, TSet):
            return a
        if isinstance(a.t, TPy) and a.t.what == "range":
            lo, hi = a.py
            t = TSet(INT)
            r = ex.fresh("rset", t)
            x = ex.bvar("x")
            ex.assume(st, z3.ForAll([x], r.z[x] == z3.And(lo <= x, x < hi), patterns=[r.z[x]]))
            return r
        raise self.E.Unsupported("set() of %s" % a.t)

    def b_range(self, ex, st, node):
        args = [ex.to_int(ex.ev(st, a)) for a in node.args]
        if len(args) == 1:
            return SV(TPy("range"), py=(z3.IntVal(0), args[0]))
        if len(args) == 2:
            return SV(TPy("range"), py=(args[0], args[1]))
        raise self.E.Unsupported("range with step as a value")

    def b_isinstance(self, ex, st, node):
        v = node.args[0]
        cls = ast.unparse(node.args[1])
        tags = getattr(ex.c, "tags", {}) or {}
        vname = ast.unparse(v)
        if vname in tags:
            names_ = cls.strip("()").replace(" ", "").split(",")
            tg = tags[vname]
            if isinstance(tg, dict):
                for c_ in names_:
                    if c_ in tg:
                        s2 = st.fork()
                        s2.spec = True
                        return SV(BOOL, ex.truth(ex.ev(s2, ast.parse(tg[c_], mode="eval").body)))
                return SV(BOOL, z3.BoolVal(False))
            return SV(BOOL, z3.BoolVal(any(c_ in tg for c_ in names_)))
        val = ex.ev(st, v)
        names = cls.strip("()").replace(" ", "").split(",")
        if val.t == STR:
            return SV(BOOL, z3.BoolVal("str" in names))
        if isinstance(val.t, TSeq):
            m = {"list": "list", "tuple": "tuple", "nd": "np.ndarray"}[val.t.kind]
            return SV(BOOL, z3.BoolVal(m in names))
        if isinstance(val.t, TDict):
            return SV(BOOL, z3.BoolVal("dict" in names))
        raise self.E.Unsupported("isinstance(%s, %s) needs a tag in the contract" % (ast.unparse(v), cls))

    def b_next(self, ex, st, node):
        a = node.args[0]
        it = ex.ev(st, a)
        if not isinstance(it.t, TIter):
            raise self.E.Unsupported("next() of %s" % it.t)
        sq, p = it.py["seq"], it.py["pos"]
        exhausted = p >= ex.seq_len(sq)
        g = z3.And(*(st.guards + [exhausted])) if st.guards else exhausted
        st.pending_exc.append((g, "StopIteration"))
        if isinstance(a, ast.Name):
            st.env[a.id] = SV(it.t, py={"seq": sq, "pos": p + 1})
        else:
            ok = self.iter_advance(ex, st, a, it)
            if not ok:
                raise self.E.Unsupported("next() on a non-name iterator expression")
        return ex.seq_get(sq, p)

    def iter_advance(self, ex, st, node, it):
        return False

    def b_str(self, ex, st, node):
        a = ex.ev(st, node.args[0])
        if a.t == STR:
            return a
        if isinstance(a.t, TPy):
            raise self.E.Unsupported("str() of %s" % a.t)
        return SV(STR, ex.uf("str_of_" + a.t.key(), a.t.sort(), STR.sort())(a.z))

    def b_sum(self, ex, st, node):
        a = ex.ev(st, node.args[0])
        if isinstance(a.t, TPy) and a.t.what == "genexp":
            a = self.comprehension(ex, st, ast.ListComp(elt=a.py.elt, generators=a.py.generators))
        if isinstance(a.t, TSeq) and a.t.elem in (INT, BOOL, REAL):
            return seq_sum(ex, st, a)
        raise self.E.Unsupported("sum of %s" % a.t)

    def b_psum(self, ex, st, node):
        """spec: psum(s, k) = s[0] + ... + s[k-1]"""
        a = ex.ev(st, node.args[0])
        k = ex.ev(st, node.args[1])
        return SV(a.t.elem if a.t.elem != BOOL else INT, psum_fn(ex, st, a)(a.z, k.z))

    def b_count(self, ex, st, node):
        """spec: count(mask, k) = number of True among mask[0..k-1]"""
        a = ex.ev(st, node.args[0])
        k = ex.ev(st, node.args[1])
        return SV(INT, psum_fn(ex, st, a)(a.z, k.z))

    def b_is_perm(self, ex, st, node):
        """spec: is_perm(p, n): p is a permutation of range(n) (via the inverse witness function)."""
        p = ex.ev(st, node.args[0])
        n = ex.to_int(ex.ev(st, node.args[1]))
        return SV(BOOL, is_perm(ex, p, n))

    def b_inv(self, ex, st, node):
        """spec: inv(p, v) = the position of value v in permutation p."""
        p = ex.ev(st, node.args[0])
        v = ex.to_int(ex.ev(st, node.args[1]))
        return SV(INT, ex.uf("perm_inv", p.t.sort(), z3.IntSort(), z3.IntSort())(p.z, v))

    def b_flatten(self, ex, st, node):
        a = ex.ev(st, node.args[0])
        return flatten(ex, st, a)

    def b_flat_off(self, ex, st, node):
        """spec: flat_off(xss, k) = position in flatten(xss) at which block k starts (sum of the first k lengths)"""
        a = ex.ev(st, node.args[0])
        k = ex.to_int(ex.ev(st, node.args[1]))
        if not st.binders:
            flatten(ex, st, a)      # the defining facts of the offsets of this particular block list
        return SV(INT, ex.uf("flat_off_" + a.t.key(), a.t.sort(), z3.IntSort(), z3.IntSort())(a.z, k))

    def _infix_at(self, ex, xs, ys, o):
        j = ex.bvar("j")
        lx, ly = ex.seq_len(xs), ex.seq_len(ys)
        return z3.And(0 <= o, o + lx <= ly,
                      z3.ForAll([j], z3.Implies(z3.And(0 <= j, j < lx),
                                                ys.t.arr(ys.z)[o + j] == xs.t.arr(xs.z)[j]),
                                patterns=[xs.t.arr(xs.z)[j]]))

    def b_is_infix_at(self, ex, st, node):
        """spec: is_infix_at(xs, ys, o): ys[o:o+len(xs)] == xs"""
        xs = ex.ev(st, node.args[0])
        ys = ex.ev(st, node.args[1])
        o = ex.to_int(ex.ev(st, node.args[2]))
        return SV(BOOL, self._infix_at(ex, xs, ys, o))

    def b_is_infix(self, ex, st, node):
        """spec: is_infix(xs, ys): xs occurs contiguously in ys"""
        xs = ex.ev(st, node.args[0])
        ys = ex.ev(st, node.args[1])
        wit = getattr(st, "witness", {}) or {}
        if "off" in wit:
            return SV(BOOL, self._infix_at(ex, xs, ys, ex.to_int(wit["off"].value(st))))
        o = ex.bvar("off")
        return SV(BOOL, z3.Exists([o], self._infix_at(ex, xs, ys, o)))

    def b_same(self, ex, st, node):
        """spec: same(a, b) - identity of the two values as terms (for sequences: also beyond their length)"""
        a, b = ex.ev(st, node.args[0]), ex.ev(st, node.args[1])
        return SV(BOOL, a.z == b.z)

    def b_has_attr(self, ex, st, node):
        """spec: has_attr(obj, 'name') - the object has that attribute (see Contract.fields 'maybe T')"""
        o = ex.ev(st, node.args[0])
        name = node.args[1].value
        return SV(BOOL, ex.uf("hasattr_%s_%s" % (o.t.name, name), o.t.sort(), z3.BoolSort())(o.z))

    def b_marked(self, ex, st, node):
        """spec: marked('name', a, b, ...) - an uninterpreted boolean MARKER term.  A quantified fact of the form
        forall a, b: range(a, b) -> (fact(a, b) and marked('n', a, b)) with trigger marked('n', a, b) never fires on
        its own (no quadratic instantiation); it is used by first asserting marked('n', x, y) for the wanted
        instance, which the fact itself proves.  Constraining the marker to True is a definitional extension."""
        if not getattr(ex, "_in_trigger", 0):
            raise self.E.Unsupported("marked(...) may only occur in a trigger")
        name = node.args[0].value
        args = [ex.to_int(ex.ev(st, a)) for a in node.args[1:]]
        f = ex.uf("marker_" + name, *([z3.IntSort()] * len(args) + [z3.BoolSort()]))
        return SV(BOOL, f(*args))

    def b_trig(self, ex, st, node):
        return ex.ev(st, node.args[0])

    def b_print(self, ex, st, node):
        return SV(NONE)

    def b_iter(self, ex, st, node):
        return ex.ev(st, node.args[0])


def index_terms(body, v):
    """select(a, v) subterms of body whose array term does not mention v (candidate e-matching triggers)."""
    out, seen, stack = [], set(), [body]
    vid = v.get_id()

    def mentions(t):
        st2, sn = [t], set()
        while st2:
            x = st2.pop()
            if x.get_id() in sn:
                continue
            sn.add(x.get_id())
            if x.get_id() == vid:
                return True
            if z3.is_app(x):
                st2.extend(x.children())
            elif z3.is_quantifier(x):
                st2.append(x.body())
        return False
    while stack:
        t = stack.pop()
        if t.get_id() in seen:
            continue
        seen.add(t.get_id())
        if z3.is_quantifier(t):
            # terms inside a nested quantifier qualify when they do not mention its bound variables
            stack.append(t.body())
            continue
        if z3.is_app(t):
            if t.decl().kind() == z3.Z3_OP_SELECT and t.arg(1).get_id() == vid and not mentions(t.arg(0)) \
                    and not has_var(t.arg(0)):
                if all(o.get_id() != t.get_id() for o in out):
                    out.append(t)
            stack.extend(t.children())
    return out


def has_var(t):
    st2, sn = [t], set()
    while st2:
        x = st2.pop()
        if x.get_id() in sn:
            continue
        sn.add(x.get_id())
        if z3.is_var(x):
            return True
        if z3.is_app(x):
            st2.extend(x.children())
        elif z3.is_quantifier(x):
            return True
    return False


# -------------------------------------------------------------------- helper constructions
def psum_fn(ex, st, a):
    """Prefix-sum UF over a sequence type with its defining axioms (added once per sequence term)."""
    et = a.t.elem
    rs = z3.IntSort() if et in (INT, BOOL) else z3.RealSort()
    f = ex.uf("psum_" + a.t.key(), a.t.sort(), z3.IntSort(), rs)
    key = ("psum-ax", a.z.get_id())
    if key not in st.seen:
        st.seen.add(key)
        k = ex.bvar("k")
        aa = a.t.arr(a.z)
        term = aa[k] if et != BOOL else z3.If(aa[k], 1, 0)
        zero = z3.IntVal(0) if rs == z3.IntSort() else z3.RealVal(0)
        ex.assume(st, f(a.z, 0) == zero)
        ex.assume(st, z3.ForAll([k], z3.Implies(k >= 0, f(a.z, k + 1) == f(a.z, k) + term),
                                patterns=[f(a.z, k + 1)]))
        ex.assume(st, z3.ForAll([k], z3.Implies(k >= 0, f(a.z, k + 1) == f(a.z, k) + term),
                                patterns=[z3.MultiPattern(f(a.z, k), aa[k])]))
    return f


def seq_sum(ex, st, a):
    f = psum_fn(ex, st, a)
    et = a.t.elem
    total = f(a.z, ex.seq_len(a))
    if et == BOOL:
        key = ("boolsum", a.z.get_id())
        if key not in st.seen:
            st.seen.add(key)
            ex.used_lib.add("sum of a boolean array counts the True entries: >= 0, and 0 iff no entry is True "
                            "(and equals the number of rows a mask selects)")
            i = ex.bvar("i")
            aa = a.t.arr(a.z)
            n = ex.seq_len(a)
            wit = ex.uf("true_at_" + a.t.key(), a.t.sort(), z3.IntSort())
            ex.assume(st, total >= 0)
            ex.assume(st, z3.Implies(total == 0, z3.ForAll([i], z3.Implies(z3.And(0 <= i, i < n), z3.Not(aa[i])),
                                                           patterns=[aa[i]])))
            ex.assume(st, z3.Implies(total != 0, z3.And(0 <= wit(a.z), wit(a.z) < n, aa[wit(a.z)])))
            cnt = ex.uf("sel_cnt", a.t.sort(), z3.IntSort())
            ex.assume(st, cnt(a.z) == total)
    return SV(INT if et in (INT, BOOL) else REAL, total)


def is_perm(ex, p, n):
    """p (Seq Int) is a permutation of 0..n-1: in range, and perm_inv(p, .) is a two-sided inverse."""
    inv = ex.uf("perm_inv", p.t.sort(), z3.IntSort(), z3.IntSort())
    pa = p.t.arr(p.z)
    i = ex.bvar("pi")
    v = ex.bvar("pv")
    return z3.And(
        p.t.len(p.z) == n,
        z3.ForAll([i], z3.Implies(z3.And(0 <= i, i < n), z3.And(0 <= pa[i], pa[i] < n, inv(p.z, pa[i]) == i)),
                  patterns=[pa[i]]),
        z3.ForAll([v], z3.Implies(z3.And(0 <= v, v < n),
                                  z3.And(0 <= inv(p.z, v), inv(p.z, v) < n, pa[inv(p.z, v)] == v)),
                  patterns=[inv(p.z, v)]))


def mask_select(ex, st, a, m, node):
    """a[mask]: the masked elements in order.  Ghost position maps: sel_pos (result index -> source index,
    strictly increasing) and sel_rank (source index -> result index)."""
    ex.used_lib.add("numpy/pandas boolean-mask selection a[m] keeps exactly the masked elements, in order "
                    "(two arrays filtered by the same mask stay aligned)")
    if not st.spec:
        ex.oblige(st, "safety.mask_len", ex.seq_len(m) == ex.seq_len(a), "safety", node,
                  "mask length equals array length")
    n = ex.seq_len(a)
    aa, ma = a.t.arr(a.z), m.t.arr(m.z)
    pos = ex.uf("sel_pos", m.t.sort(), z3.IntSort(), z3.IntSort())
    rank = ex.uf("sel_rank", m.t.sort(), z3.IntSort(), z3.IntSort())
    cnt = ex.uf("sel_cnt", m.t.sort(), z3.IntSort())
    key = ("mask-ax", m.z.get_id())
    j = ex.bvar("j")
    i = ex.bvar("i")
    c = cnt(m.z)
    if key not in st.seen:
        st.seen.add(key)
        ex.assume(st, z3.And(0 <= c, c <= n))
        ex.assume(st, z3.ForAll([j], z3.Implies(z3.And(0 <= j, j < c),
                                                z3.And(0 <= pos(m.z, j), pos(m.z, j) < n, ma[pos(m.z, j)],
                                                       rank(m.z, pos(m.z, j)) == j)),
                                patterns=[pos(m.z, j)]))
        ex.assume(st, z3.ForAll([i], z3.Implies(z3.And(0 <= i, i < n, ma[i]),
                                                z3.And(0 <= rank(m.z, i), rank(m.z, i) < c,
                                                       pos(m.z, rank(m.z, i)) == i)),
                                patterns=[rank(m.z, i)]))
        i2 = ex.bvar("i2")
        ex.assume(st, z3.ForAll([j, i2], z3.Implies(z3.And(0 <= j, j < i2, i2 < c), pos(m.z, j) < pos(m.z, i2)),
                                patterns=[z3.MultiPattern(pos(m.z, j), pos(m.z, i2))]))
    mkey = ("mask_select", a.z.get_id(), m.z.get_id())
    if mkey in st.memo and not ex.binder_vars:
        return st.memo[mkey][0]
    r = ex.new_seq(st, a.t.elem, c, lambda jj: aa[pos(m.z, jj)], a.t.kind, "sel")
    # the same fact seen from the source side (so that a goal about a[i] reaches the selection by e-matching):
    # a masked element a[i] is the element number rank(i) of the selection
    ra = r.t.arr(r.z)
    ex.assume(st, z3.ForAll([i], z3.Implies(z3.And(0 <= i, i < n, ma[i]),
                                            z3.And(0 <= rank(m.z, i), rank(m.z, i) < c,
                                                   ra[rank(m.z, i)] == aa[i])),
                            patterns=[aa[i]]))
    if not ex.binder_vars:
        st.memo[mkey] = (r, a.z, m.z)
    return r


def gather(ex, st, a, idx, node):
    ex.used_lib.add("numpy fancy indexing a[p] = element-wise gather")
    n = ex.seq_len(a)
    aa, ia = a.t.arr(a.z), idx.t.arr(idx.z)
    if not st.spec:
        j = ex.bvar("j")
        ex.oblige(st, "safety.gather_index",
                  z3.ForAll([j], z3.Implies(z3.And(0 <= j, j < ex.seq_len(idx)), z3.And(0 <= ia[j], ia[j] < n)),
                            patterns=[ia[j]]),
                  "safety", node, "gather indices in bounds")
    mkey = ("gather", a.z.get_id(), idx.z.get_id())
    if mkey in st.memo and not ex.binder_vars:
        return st.memo[mkey][0]
    r = ex.new_seq(st, a.t.elem, ex.seq_len(idx), lambda jj: aa[ia[jj]], a.t.kind, "gat")
    if not ex.binder_vars:
        st.memo[mkey] = (r, a.z, idx.z)
    return r


def filtered_seq(ex, st, elem, n, j, cond, body):
    """[body(j) for j in range(n) if cond(j)] with ghost position maps (strictly increasing, complete)."""
    ex.n += 1
    tag = ex.n
    pos = z3.Function("flt_pos!%d" % tag, *([v.sort() for v in ex.binder_vars] + [z3.IntSort(), z3.IntSort()]))
    rank = z3.Function("flt_rank!%d" % tag, *([v.sort() for v in ex.binder_vars] + [z3.IntSort(), z3.IntSort()]))
    bv = list(ex.binder_vars)
    c = ex.fresh_z("flt_cnt", z3.IntSort())
    t = TSeq(elem, "list")
    r = ex.fresh("flt", t)
    q = ex.bvar("q")
    q2 = ex.bvar("q2")
    P = lambda x: pos(*(bv + [x]))
    R = lambda x: rank(*(bv + [x]))
    condq = lambda x: z3.substitute(cond, (j, x))
    bodyq = lambda x: z3.substitute(body, (j, x))
    ex.assume(st, z3.And(0 <= c, c <= n, t.len(r.z) == c))
    ex.assume(st, z3.ForAll([q], z3.Implies(z3.And(0 <= q, q < c),
                                            z3.And(0 <= P(q), P(q) < n, condq(P(q)), R(P(q)) == q,
                                                   t.arr(r.z)[q] == bodyq(P(q)))),
                            patterns=[P(q)]))
    ex.assume(st, z3.ForAll([q], z3.Implies(z3.And(0 <= q, q < c), t.arr(r.z)[q] == bodyq(P(q))),
                            patterns=[t.arr(r.z)[q]]))
    ex.assume(st, z3.ForAll([q], z3.Implies(z3.And(0 <= q, q < n, condq(q)),
                                            z3.And(0 <= R(q), R(q) < c, P(R(q)) == q)),
                            patterns=[R(q)]))
    ex.assume(st, z3.ForAll([q, q2], z3.Implies(z3.And(0 <= q, q < q2, q2 < c), P(q) < P(q2)),
                            patterns=[z3.MultiPattern(P(q), P(q2))]))
    ex.last_filter = {"pos": P, "rank": R, "cnt": c, "result": r}
    return r


def set_of_seq(ex, st, a):
    t = TSet(a.t.elem)
    r = ex.fresh("sset", t)
    aa = a.t.arr(a.z)
    n = ex.seq_len(a)
    j = ex.bvar("j")
    x = ex.bvar("x", a.t.elem.sort())
    wit = ex.uf("set_wit_" + a.t.key(), a.t.sort(), a.t.elem.sort(), z3.IntSort())
    ex.assume(st, z3.ForAll([j], z3.Implies(z3.And(0 <= j, j < n), r.z[aa[j]]), patterns=[aa[j]]))
    ex.assume(st, z3.ForAll([x], z3.Implies(r.z[x], z3.And(0 <= wit(a.z, x), wit(a.z, x) < n,
                                                            aa[wit(a.z, x)] == x)),
                            patterns=[r.z[x]]))
    return r


def list_of_set(ex, st, s):
    """list(set): SOME duplicate-free enumeration of the set (order uninterpreted: reads HASHSEED)."""
    ex.used_lib.add("list(set) = some duplicate-free enumeration of the set (iteration order unspecified)")
    t = TSeq(s.t.elem, "list")
    r = ex.fresh("lset", t)
    ra = t.arr(r.z)
    n = t.len(r.z)
    j = ex.bvar("j")
    x = ex.bvar("x", s.t.elem.sort())
    idx = ex.uf("lset_idx_" + t.key(), t.sort(), s.t.elem.sort(), z3.IntSort())
    ex.assume(st, n >= 0)
    ex.assume(st, z3.ForAll([j], z3.Implies(z3.And(0 <= j, j < n), z3.And(s.z[ra[j]], idx(r.z, ra[j]) == j)),
                            patterns=[ra[j]]))
    ex.assume(st, z3.ForAll([x], z3.Implies(s.z[x], z3.And(0 <= idx(r.z, x), idx(r.z, x) < n,
                                                            ra[idx(r.z, x)] == x)),
                            patterns=[s.z[x]]))
    return r


def flatten(ex, st, a):
    """Concatenation of a sequence of sequences, via ghost offset function off(k) = sum of the first k lengths."""
    if not (isinstance(a.t, TSeq) and isinstance(a.t.elem, TSeq)):
        raise Lib().E.Unsupported("flatten of %s" % a.t)
    inner = a.t.elem
    off = ex.uf("flat_off_" + a.t.key(), a.t.sort(), z3.IntSort(), z3.IntSort())
    blk = ex.uf("flat_blk_" + a.t.key(), a.t.sort(), z3.IntSort(), z3.IntSort())
    res = ex.uf("flat_res_" + a.t.key(), a.t.sort(), TSeq(inner.elem).sort())
    rt = TSeq(inner.elem, "list")
    r = SV(rt, res(a.z))
    key = ("flat-ax", a.z.get_id())
    if key not in st.seen:
        st.seen.add(key)
        n = ex.seq_len(a)
        aa = a.t.arr(a.z)
        k = ex.bvar("k")
        i = ex.bvar("i")
        p = ex.bvar("p")
        ex.define(st, off(a.z, 0) == 0)
        ex.define(st, z3.ForAll([k], z3.Implies(z3.And(0 <= k, k < n),
                                                off(a.z, k + 1) == off(a.z, k) + inner.len(aa[k])),
                                patterns=[off(a.z, k + 1)]))
        ex.define(st, z3.ForAll([k], z3.Implies(z3.And(0 <= k, k < n),
                                                off(a.z, k + 1) == off(a.z, k) + inner.len(aa[k])),
                                patterns=[aa[k]]))
        ex.define(st, rt.len(r.z) == off(a.z, n))
        # element view, both directions
        ex.define(st, z3.ForAll([k, i], z3.Implies(z3.And(0 <= k, k < n, 0 <= i, i < inner.len(aa[k])),
                                                   z3.And(rt.arr(r.z)[off(a.z, k) + i] == inner.arr(aa[k])[i],
                                                          blk(a.z, off(a.z, k) + i) == k,
                                                          # the position lies inside the concatenation
                                                          0 <= off(a.z, k), off(a.z, k) + i < rt.len(r.z))),
                                patterns=[inner.arr(aa[k])[i]]))
        ex.define(st, z3.ForAll([p], z3.Implies(z3.And(0 <= p, p < rt.len(r.z)),
                                                z3.And(0 <= blk(a.z, p), blk(a.z, p) < n,
                                                       off(a.z, blk(a.z, p)) <= p,
                                                       p < off(a.z, blk(a.z, p) + 1),
                                                       rt.arr(r.z)[p] ==
                                                       inner.arr(aa[blk(a.z, p)])[p - off(a.z, blk(a.z, p))])),
                                patterns=[rt.arr(r.z)[p]]))
    # offsets depend only on the block lengths (provable by induction on k; assumed here as a library fact)
    key2 = ("flat-shape", a.t.key())
    if key2 not in st.seen:
        st.seen.add(key2)
        A = ex.bvar("A", a.t.sort())
        B = ex.bvar("B", a.t.sort())
        k = ex.bvar("k")
        p = ex.bvar("p")
        same_shape = z3.And(a.t.len(A) == a.t.len(B),
                            z3.ForAll([k], z3.Implies(z3.And(0 <= k, k < a.t.len(A)),
                                                      inner.len(a.t.arr(A)[k]) == inner.len(a.t.arr(B)[k]))))
        ex.used_lib.add("flatten / np.concatenate: the offset of block k is the sum of the lengths of the blocks "
                        "before it, so two block lists of the same shape have the same offsets and block map")
        st.hyps.append(z3.ForAll([A, B], z3.Implies(same_shape, z3.And(
            rt.len(res(A)) == rt.len(res(B)),
            z3.ForAll([k], z3.Implies(z3.And(0 <= k, k <= a.t.len(A)), off(A, k) == off(B, k)),
                      patterns=[off(A, k)]),
            z3.ForAll([p], z3.Implies(z3.And(0 <= p, p < rt.len(res(A))), blk(A, p) == blk(B, p)),
                      patterns=[blk(A, p)]))),
            patterns=[z3.MultiPattern(res(A), res(B))]))
    return r


@libfn("utils.flatten", "flatten", "np.concatenate", "numpy.concatenate",
       stmt="flatten(list of sequences) / np.concatenate(list of arrays) = their concatenation in order")
def _flatten_fn(ex, st, node):
    a = ex.ev(st, node.args[0])
    r = flatten(ex, st, a)
    return SV(r.t.with_kind("nd"), r.z)


LIB = Lib()
