"""Protein sequences as an abstract base string with SLICES (DESIGN.md 2.3 "abstract slices"):
  bstr            a base string: only its length is known (and per-position predicates)
  Pep             a substring value  pep_sub(a, b) = sequence[a:b]  with  pep_len(pep_sub(a, b)) == b - a
Slicing a Pep whose bounds are known yields the corresponding slice of the base string (the assumed contract
of str.__getitem__ for slices); two different slices may or may not be equal strings (no assumption)."""
import ast
import z3

from .types import INT, BOOL, STR, NONE, SLICE, TAbs, TSeq, TSet, TPy, SV, parse_type
from . import types as _types
from .lib import Lib, method, libfn, LIB
from .engine import Unsupported, Exec

PEP = TAbs("Pep")


class TBaseStr(TPy):
    def __init__(self):
        TPy.__init__(self, "bstr")

    def make_param(self, ex, st, name):
        L = z3.Const(name.replace(".", "_") + "_len", z3.IntSort())
        st.hyps.append(L >= 0)
        return SV(self, py={"len": L, "name": name})


BSTR = TBaseStr()

_orig_parse = _types.parse_type


def parse_type2(s):
    if s.strip() == "bstr":
        return BSTR
    return _orig_parse(s)


_types.parse_type = parse_type2
import pyvc.engine as _eng  # noqa: E402
import pyvc.lib as _lib  # noqa: E402
_eng.parse_type = parse_type2
_lib.parse_type = parse_type2


def PU(ex):
    return {"sub": ex.uf("pep_sub", z3.IntSort(), z3.IntSort(), PEP.sort()),
            "len": ex.uf("pep_len", PEP.sort(), z3.IntSort()),
            "starts": ex.uf("seq_starts_at", z3.IntSort(), STR.sort(), z3.BoolSort())}


def mk_pep(ex, st, a, b):
    u = PU(ex)
    z = u["sub"](a, b)
    ex.assume(st, z3.Implies(a <= b, u["len"](z) == b - a))
    return SV(PEP, z, py=(a, b))


def _bounds(ex, st, lo, hi, L, extra_ok=None):
    """Effective slice bounds as fresh constants: equal to (lo, hi) when 0 <= lo <= hi <= L (the common case,
    no case analysis needed), the clamped python bounds otherwise."""
    a = ex.fresh_z("sl_lo", z3.IntSort())
    b = ex.fresh_z("sl_hi", z3.IntSort())
    ok = z3.And(0 <= lo, lo <= hi, hi <= L)
    if extra_ok is not None:
        ok = z3.And(ok, extra_ok)
    ca, cb = clamp(lo, L), clamp(hi, L)
    cb = z3.If(cb < ca, ca, cb)
    ex.assume(st, z3.Implies(ok, z3.And(a == lo, b == hi)))
    ex.assume(st, z3.Implies(z3.Not(ok), z3.And(a == ca, b == cb)))
    return a, b


def clamp(x, L):
    x = z3.If(x < 0, x + L, x)
    return z3.If(x < 0, z3.IntVal(0), z3.If(x > L, L, x))


_orig_len_value = Lib.len_value


def _len_value(self, ex, st, v, node):
    if isinstance(v.t, TPy) and v.t.what == "bstr":
        return SV(INT, v.py["len"])
    if v.t == PEP:
        return SV(INT, PU(ex)["len"](v.z))
    return _orig_len_value(self, ex, st, v, node)


Lib.len_value = _len_value

_orig_sub = Lib.subscript


def _subscript(self, ex, st, base, idx, node):
    if isinstance(base.t, TPy) and base.t.what == "bstr" and idx.t is SLICE:
        L = base.py["len"]
        lo, hi = idx.py
        lo_r = z3.IntVal(0) if lo is None else ex.to_int(lo)
        hi_r = L if hi is None else ex.to_int(hi)
        ex.used_lib.add("str slicing s[a:b]: the substring between the clamped bounds, of length b - a")
        a, b = _bounds(ex, st, lo_r, hi_r, L)
        return mk_pep(ex, st, a, b)
    if base.t == PEP and idx.t is SLICE:
        if base.py is None:
            raise Unsupported("slice of a peptide whose bounds are not known")
        a0, b0 = base.py
        n = b0 - a0
        lo, hi = idx.py
        lo_r = z3.IntVal(0) if lo is None else ex.to_int(lo)
        hi_r = n if hi is None else ex.to_int(hi)
        # python: a negative bound counts from the end
        neg_hi = hi is not None and isinstance(hi_r, z3.ArithRef) and z3.is_app(hi_r) and \
            hi_r.decl().kind() == z3.Z3_OP_UMINUS
        if neg_hi:
            hi_r = n + hi_r
            a, b = _bounds(ex, st, lo_r, hi_r, n, extra_ok=(hi_r - n < 0))
        else:
            a, b = _bounds(ex, st, lo_r, hi_r, n)
        return mk_pep(ex, st, a0 + a, a0 + b)
    return _orig_sub(self, ex, st, base, idx, node)


Lib.subscript = _subscript


@method("abs:Pep", "startswith", stmt="s[a:b].startswith(c) for a one-character c: b > a and the character at a is c")
def _starts(ex, st, base, node, basenode):
    if base.py is None:
        raise Unsupported("startswith on a peptide whose bounds are not known")
    a, b = base.py
    lit = ex.ev(st, node.args[0])
    return SV(BOOL, z3.And(b > a, PU(ex)["starts"](a, lit.z)))


def b_pep(self, ex, st, node):
    """spec: pep(sequence, a, b) = the slice sequence[a:b] (0 <= a <= b <= len(sequence) expected)"""
    a = ex.to_int(ex.ev(st, node.args[1]))
    b = ex.to_int(ex.ev(st, node.args[2]))
    return mk_pep(ex, st, a, b)


def b_starts_at(self, ex, st, node):
    """spec: starts_at(sequence, a, 'M'): the character at position a is 'M'"""
    a = ex.to_int(ex.ev(st, node.args[1]))
    lit = ex.ev(st, node.args[2])
    return SV(BOOL, PU(ex)["starts"](a, lit.z))


Lib.b_pep = b_pep
Lib.b_starts_at = b_starts_at


# set literals and union -----------------------------------------------------------------------------------
def ev_Set(self, st, node):
    items = [self.ev(st, e) for e in node.elts]
    t = TSet(items[0].t)
    z = z3.K(items[0].t.sort(), z3.BoolVal(False))
    for it in items:
        z = z3.Store(z, it.z, z3.BoolVal(True))
    return SV(t, z)


Exec.ev_Set = ev_Set


@method("set", "union", stmt="")
def _union(ex, st, base, node, basenode):
    other = ex.ev(st, node.args[0])
    return LIB.set_binop(ex, st, ast.BitOr(), base, other)


_orig_bset = Lib.b_set


def _b_set(self, ex, st, node):
    if not node.args:
        t = getattr(st, "_expect_type", None)
        if isinstance(t, TSet):
            return SV(t, z3.K(t.elem.sort(), z3.BoolVal(False)))
        return SV(TPy("emptyset"), py=None)
    return _orig_bset(self, ex, st, node)


Lib.b_set = _b_set

_orig_coerce_decl = Exec.coerce_decl


def _coerce_decl(self, st, val, t):
    if isinstance(val.t, TPy) and val.t.what == "emptyset" and isinstance(t, TSet):
        return SV(t, z3.K(t.elem.sort(), z3.BoolVal(False)))
    if isinstance(val.t, TPy) and val.t.what == "bstr" and isinstance(t, TPy) and t.what == "bstr":
        return val
    if isinstance(val.t, TSeq) and isinstance(t, TPy) and t.what == "bstr":
        # a string given as its character sequence, passed where only the length matters
        return SV(BSTR, py={"len": val.t.len(val.z), "name": "chars"})
    return _orig_coerce_decl(self, st, val, t)


Exec.coerce_decl = _coerce_decl
