"""Contract data structures (DESIGN.md 2.2).  Contracts are sidecar data keyed by qualified name; the
specification expressions are Python-expression text evaluated by the same evaluator as the code."""


class Ghost:
    """Uninterpreted spec function with defining axioms (spec text; may mention contract params)."""

    def __init__(self, name, sig, axioms=(), concrete=None):
        self.name = name
        self.sig = sig            # "int -> real", "int, int -> bool"
        self.axioms = list(axioms)
        self.concrete = concrete  # python source of a lambda for run-time evaluation (optional)


class Lemma:
    """requires => ensures for all params; proved as its own obligation(s).
    induct: name of an int param for strong induction (the IH is offered as a quantified hypothesis)."""

    def __init__(self, name, params, requires=(), ensures=(), induct=None, uses=(), auto=False,
                 triggers=None, hints=()):
        self.name = name
        self.params = dict(params)
        self.requires = list(requires)
        self.ensures = list(ensures)
        self.induct = induct
        self.uses = list(uses)      # ghost statements executed at the start of the lemma's proof
        self.auto = auto            # also offered as a quantified axiom with `triggers`
        self.triggers = triggers
        self.hints = list(hints)


class Loop:
    def __init__(self, invariant=(), ghost_pre=(), ghost_post=(), decreases=None, counter=None, witness=None):
        self.witness = dict(witness or {})   # invariant text -> {bound var: witness expression}
        self.invariant = list(invariant)
        self.ghost_pre = list(ghost_pre)    # ghost statements at the start of the body
        self.ghost_post = list(ghost_post)  # ghost statements at the end of the body (before invariant check)
        self.decreases = decreases
        self.counter = counter              # name under which the iteration count is visible in specs


class Contract:
    def __init__(self, target, params=None, requires=(), ensures=(), raises=None, loops=None, ghosts=(),
                 lemmas=(), locals=None, ghost_at=(), modifies=(), reads=None, returns=None, block=None,
                 uses=(), exits=(), result_name="result", notes="", prop_clauses=None, yields=None,
                 free=None, assumes=(), skip_body=False, replay=None, self_fields=None, abstract_ok=(),
                 entry_ghost=(), exit_ghost=(), consts=None, witness=None, defaults=None,
                 tags=None, global_ghosts=(), result_fn=None, options=None,
                 quiet_requires=(), ghost_returns=None, fields=None):
        self.target = target              # "mokapot.utils.create_chunks" or "mokapot.model.Model.fit"
        self.params = dict(params or {})  # name -> type string (in signature order)
        self.requires = list(requires)
        self.ensures = list(ensures)
        self.raises = dict(raises or {})  # exception name -> spec condition (over entry state) under which allowed
        self.loops = dict(loops or {})    # ordinal (source order, depth-first) -> Loop
        self.ghosts = list(ghosts)
        self.lemmas = list(lemmas)
        self.locals = dict(locals or {})  # declared local types
        self.ghost_at = list(ghost_at)    # [{"before"|"after": "<stmt source prefix>", "do": [ghost stmts]}]
        self.modifies = list(modifies)    # params (mutable) the function may change; `old(p)` in ensures
        self.reads = reads
        self.returns = returns            # result type string (needed by callers)
        self.block = block                # structural anchor: {"start": "<stmt prefix>", "end": "<stmt prefix>"}
        self.uses = list(uses)
        self.exits = list(exits)
        self.notes = notes
        self.yields = yields              # element type string for generators (ghost `yielded`)
        self.free = dict(free or {})      # for blocks: free variables and their types
        self.assumes = list(assumes)      # ONLY for blocks: facts established by preceding code under other contracts
        self.skip_body = skip_body        # contract is assumed (library / external); body never verified
        self.replay = replay              # name of a replay adapter in the harness
        self.self_fields = dict(self_fields or {})
        self.abstract_ok = list(abstract_ok)  # statement prefixes that may be abstracted (havoc) silently
        self.entry_ghost = list(entry_ghost)
        self.exit_ghost = list(exit_ghost)
        self.consts = dict(consts or {})  # module-level constants visible in the body: name -> (type, value|None)
        self.prop_clauses = prop_clauses
        self.result_fn = result_fn   # name of a global ghost F: callers may assume result == F(immutable args)
                                      # (sound for a deterministic function; F is otherwise unconstrained)
        # preconditions that are checked at call sites like any other, but are NOT put into the body's VCs as
        # quantified hypotheses (they would fire everywhere); the body gets them through lemma calls only
        self.quiet_requires = list(quiet_requires)
        # ghost results (defined by `let` in exit_ghost, mentioned in ensures): fresh values at call sites,
        # visible to the caller's ghost code under the same names
        self.ghost_returns = dict(ghost_returns or {})
        self.options = dict(options or {})   # engine options (e.g. join_congruence: ground congruence facts for str.join)
        self.global_ghosts = list(global_ghosts)  # spec functions shared between caller and callee (same UF by name)
        self.witness = dict(witness or {})   # ensures text -> {bound var: witness expression} (proof hint)
        self.defaults = dict(defaults or {})  # param -> default expression text
        self.tags = dict(tags or {})          # name -> class names for which isinstance(name, cls) holds
        # read-only attributes of abstract objects: "Type.attr" -> type string (a function of the object)
        self.fields = dict(fields or {})
