"""ASSUMED contracts of numpy / builtins used by the targets (DESIGN.md section 3).  Each entry states the
contract in words; every use is reported in the evidence as trusted base."""
import ast
import z3

from .types import INT, REAL, BOOL, STR, NONE, SLICE, TSeq, TSet, TOpt, TTuple, TDict, TPy, TIter, SV, parse_type
from .lib import libfn, method, is_perm, psum_fn, seq_sum, LIB
from .engine import Unsupported


def _args(ex, st, node):
    return [ex.ev(st, a) for a in node.args], {k.arg: ex.ev(st, k.value) for k in node.keywords}


@libfn("slice", stmt="slice(a, b) object = the index range [a, b)")
def _slice(ex, st, node):
    a, _ = _args(ex, st, node)
    if len(a) == 1:
        return SV(SLICE, py=(None, a[0]))
    return SV(SLICE, py=(a[0], a[1]))


@libfn("np.ones", "numpy.ones", stmt="np.ones(n): float array of n ones")
def _ones(ex, st, node):
    a, kw = _args(ex, st, node)
    return ex.new_seq(st, REAL, ex.to_int(a[0]), lambda j: z3.RealVal(1), "nd", "ones")


@libfn("np.zeros", "numpy.zeros", stmt="np.zeros(n): float array of n zeros")
def _zeros(ex, st, node):
    a, kw = _args(ex, st, node)
    return ex.new_seq(st, REAL, ex.to_int(a[0]), lambda j: z3.RealVal(0), "nd", "zeros")


@libfn("np.arange", "numpy.arange", stmt="np.arange(n) = [0, 1, ..., n-1]")
def _arange(ex, st, node):
    a, kw = _args(ex, st, node)
    n = ex.to_int(a[0])
    return ex.new_seq(st, INT, z3.If(n > 0, n, 0), lambda j: j, "nd", "arange")


@libfn("np.argmax", "numpy.argmax", stmt="np.argmax(x) on a non-empty 1-D array = index of the FIRST maximum")
def _argmax(ex, st, node):
    a, kw = _args(ex, st, node)
    x = a[0]
    n = ex.seq_len(x)
    if not st.spec:
        ex.oblige(st, "safety.argmax_nonempty", n > 0, "safety", node, "argmax of a non-empty array")
    r = ex.fresh("argmax", INT)
    xa = x.t.arr(x.z)
    p = ex.bvar("p")
    ex.assume(st, z3.And(0 <= r.z, r.z < n))
    ex.assume(st, z3.ForAll([p], z3.Implies(z3.And(0 <= p, p < n), xa[p] <= xa[r.z]), patterns=[xa[p]]))
    ex.assume(st, z3.ForAll([p], z3.Implies(z3.And(0 <= p, p < r.z), xa[p] < xa[r.z]), patterns=[xa[p]]))
    return r


@libfn("np.min", "numpy.min", stmt="np.min(x) on a non-empty array = a lower bound that is attained")
def _npmin(ex, st, node):
    a, kw = _args(ex, st, node)
    return _minmax(ex, st, a[0], node, True)


@libfn("np.max", "numpy.max", stmt="np.max(x) on a non-empty array = an upper bound that is attained")
def _npmax(ex, st, node):
    a, kw = _args(ex, st, node)
    return _minmax(ex, st, a[0], node, False)


def _minmax(ex, st, x, node, is_min):
    n = ex.seq_len(x)
    if not st.spec:
        ex.oblige(st, "safety.minmax_nonempty", n > 0, "safety", node, "min/max of a non-empty array")
    r = ex.fresh("min" if is_min else "max", x.t.elem)
    w = ex.fresh("mm_at", INT)
    xa = x.t.arr(x.z)
    p = ex.bvar("p")
    ex.assume(st, z3.And(0 <= w.z, w.z < n, xa[w.z] == r.z))
    ex.assume(st, z3.ForAll([p], z3.Implies(z3.And(0 <= p, p < n), (r.z <= xa[p]) if is_min else (r.z >= xa[p])),
                            patterns=[xa[p]]))
    return r


@libfn("np.median", "numpy.median", stmt="np.median(x) of a non-empty array lies between its minimum and maximum "
                                         "and depends only on the multiset of values (uninterpreted otherwise)")
def _median(ex, st, node):
    a, kw = _args(ex, st, node)
    x = a[0]
    n = ex.seq_len(x)
    med = ex.uf("median_" + x.t.key(), x.t.sort(), z3.RealSort())
    r = SV(REAL, med(x.z))
    xa = x.t.arr(x.z)
    lo, hi = ex.fresh("med_lo", INT), ex.fresh("med_hi", INT)
    ex.assume(st, z3.Implies(n > 0, z3.And(0 <= lo.z, lo.z < n, 0 <= hi.z, hi.z < n,
                                           ex.to_real(SV(x.t.elem, xa[lo.z])) <= r.z,
                                           r.z <= ex.to_real(SV(x.t.elem, xa[hi.z])))))
    return r


@libfn("np.logical_and", "numpy.logical_and", stmt="np.logical_and(a, b): element-wise conjunction")
def _land(ex, st, node):
    a, kw = _args(ex, st, node)
    return LIB.elementwise2(ex, st, ast.BitAnd(), _asbool(ex, st, a[0]), _asbool(ex, st, a[1]), node)


def _asbool(ex, st, v):
    if isinstance(v.t, TSeq) and v.t.elem != BOOL:
        return LIB.elementwise1(ex, st, v, lambda x: x != 0, BOOL)
    return v


@libfn("np.argsort", "numpy.argsort", stmt="np.argsort(a) = a permutation p of range(len(a)) with a[p] non-decreasing "
                                           "(order among equal elements unspecified)")
def _argsort(ex, st, node):
    a, kw = _args(ex, st, node)
    x = a[0]
    n = ex.seq_len(x)
    r = ex.fresh("argsort", TSeq(INT, "nd"))
    ex.assume(st, is_perm(ex, r, n))
    xa, ra = x.t.arr(x.z), r.t.arr(r.z)
    i, j = ex.bvar("i"), ex.bvar("j")
    ex.assume(st, z3.ForAll([i, j], z3.Implies(z3.And(0 <= i, i <= j, j < n), xa[ra[i]] <= xa[ra[j]]),
                            patterns=[z3.MultiPattern(ra[i], ra[j])]))
    # the values read off along the sorting permutation are THE ascending arrangement of x (a function of x)
    sa = ex.uf("sorted_asc_" + x.t.key(), x.t.sort(), x.t.sort())
    kk = ex.bvar("k")
    ex.assume(st, x.t.len(sa(x.z)) == n)
    ex.assume(st, z3.ForAll([kk], z3.Implies(z3.And(0 <= kk, kk < n), xa[ra[kk]] == x.t.arr(sa(x.z))[kk]),
                            patterns=[ra[kk]]))
    # argsort of a permutation of range(n) is its inverse
    inv = ex.uf("perm_inv", x.t.sort(), z3.IntSort(), z3.IntSort()) if x.t.elem == INT else None
    if inv is not None:
        v = ex.bvar("v")
        ex.assume(st, z3.Implies(is_perm(ex, x, n),
                                 z3.ForAll([v], z3.Implies(z3.And(0 <= v, v < n), ra[v] == inv(x.z, v)),
                                           patterns=[ra[v]])))
    return r


@method("seq", "astype", stmt="astype(bool) = (x != 0); astype(float/int) value-preserving")
def _astype(ex, st, base, node, basenode):
    target = ast.unparse(node.args[0])
    if target in ("bool", "np.bool_"):
        if base.t.elem == BOOL:
            return base
        return LIB.elementwise1(ex, st, base, lambda x: x != 0, BOOL)
    if target in ("float", "np.float32", "np.float64"):
        if base.t.elem == REAL:
            return base
        if base.t.elem == INT:
            return LIB.elementwise1(ex, st, base, lambda x: z3.ToReal(x), REAL)
        if base.t.elem == BOOL:
            return LIB.elementwise1(ex, st, base, lambda x: z3.If(x, z3.RealVal(1), z3.RealVal(0)), REAL)
    if target == "int":
        if base.t.elem == INT:
            return base
        if base.t.elem == BOOL:
            return LIB.elementwise1(ex, st, base, lambda x: z3.If(x, z3.IntVal(1), z3.IntVal(0)), INT)
    raise Unsupported("astype(%s) on %s" % (target, base.t))


@method("seq", "sum", stmt="x.sum() = sum of the elements (True counts 1)")
def _sum(ex, st, base, node, basenode):
    return seq_sum(ex, st, base)


@method("seq", "copy", "tolist", stmt="")
def _copy(ex, st, base, node, basenode):
    return base if node.func.attr == "copy" else SV(base.t.with_kind("list"), base.z)


@method("seq", "append", stmt="")
def _append(ex, st, base, node, basenode):
    v = ex.coerce(ex.ev(st, node.args[0]), base.t.elem)
    ln = ex.seq_len(base)
    new = SV(base.t, base.t.mk(z3.Store(base.t.arr(base.z), ln, v.z), ln + 1))
    _rebind(ex, st, basenode, new)
    return SV(NONE)


@method("seq", "write", stmt="file.write(s) appends s to the file's content (ghost: sequence of written strings)")
def _write(ex, st, base, node, basenode):
    return _append(ex, st, base, node, basenode)


@method("seq", "pop", stmt="")
def _pop(ex, st, base, node, basenode):
    ln = ex.seq_len(base)
    aa = base.t.arr(base.z)
    if node.args:
        i = ex.ev(st, node.args[0])
        if not (z3.is_int_value(i.z) and i.z.as_long() == 0):
            raise Unsupported("pop(i) for i != 0")
        if not st.spec:
            ex.oblige(st, "safety.pop_nonempty", ln > 0, "safety", node, "pop from a non-empty list")
        first = ex.seq_get(base, z3.IntVal(0))
        rest = ex.new_seq(st, base.t.elem, ln - 1, lambda j: aa[j + 1], base.t.kind, "popped")
        _rebind(ex, st, basenode, rest)
        return first
    if not st.spec:
        ex.oblige(st, "safety.pop_nonempty", ln > 0, "safety", node, "pop from a non-empty list")
    last = ex.seq_get(base, ln - 1)
    _rebind(ex, st, basenode, SV(base.t, base.t.mk(aa, ln - 1)))
    return last


@method("seq", "index", stmt="list.index(x) = first position of x, ValueError if absent")
def _index(ex, st, base, node, basenode):
    v = ex.coerce(ex.ev(st, node.args[0]), base.t.elem)
    n = ex.seq_len(base)
    aa = base.t.arr(base.z)
    r = ex.fresh("index", INT)
    p = ex.bvar("p")
    present = z3.Exists([p], z3.And(0 <= p, p < n, aa[p] == v.z))
    st.pending_exc.append((z3.Not(present), "ValueError"))
    ex.assume(st, z3.Implies(present, z3.And(0 <= r.z, r.z < n, aa[r.z] == v.z)))
    ex.assume(st, z3.ForAll([p], z3.Implies(z3.And(0 <= p, p < r.z), aa[p] != v.z), patterns=[aa[p]]))
    return r


def _rebind(ex, st, basenode, new):
    if isinstance(basenode, ast.Name):
        st.env[basenode.id] = new
        return
    if isinstance(basenode, ast.Attribute) and isinstance(basenode.value, ast.Name):
        st.env[basenode.value.id + "." + basenode.attr] = new
        return
    if isinstance(basenode, ast.Subscript) and isinstance(basenode.value, ast.Name):
        outer = basenode.value.id
        ob = st.env[outer]
        oi = ex.ev(st, basenode.slice)
        ex.store_into(st, outer, ob, oi, new, basenode)
        return
    raise Unsupported("mutation of a non-name container: %s" % ast.unparse(basenode))


@method("set", "add", stmt="")
def _set_add(ex, st, base, node, basenode):
    v = ex.coerce(ex.ev(st, node.args[0]), base.t.elem)
    _rebind(ex, st, basenode, SV(base.t, z3.Store(base.z, v.z, z3.BoolVal(True))))
    return SV(NONE)


@method("dict", "get", stmt="")
def _dict_get(ex, st, base, node, basenode):
    k = ex.coerce(ex.ev(st, node.args[0]), base.t.k)
    t = TOpt(base.t.v)
    return SV(t, z3.If(base.t.has(base.z)[k.z], t.some(base.t.vals(base.z)[k.z]), t.none()))


@method("iter", "readline", stmt="")
def _readline(ex, st, base, node, basenode):
    raise Unsupported("readline")


@libfn("np.asarray", "numpy.asarray", "np.array", stmt="np.asarray(x) / np.array(x): the same values as an array")
def _asarray(ex, st, node):
    a = ex.ev(st, node.args[0])
    if isinstance(a.t, TSeq):
        return SV(a.t.with_kind("nd"), a.z)
    raise Unsupported("np.asarray(%s)" % a.t)


@libfn("np.empty_like", "np.zeros_like", "np.ones_like", stmt="np.empty_like(x): an array of the same length "
                                                              "(contents arbitrary for empty_like)")
def _empty_like(ex, st, node):
    a = ex.ev(st, node.args[0])
    r = ex.fresh("empty_like", a.t)
    ex.assume(st, a.t.len(r.z) == ex.seq_len(a))
    return r


_orig_store_np = LIB.store.__func__ if hasattr(LIB.store, "__func__") else None


def _store_fancy(self, ex, st, target, val, node):
    # a[idx] = vals with an integer index array without duplicates: a[idx[k]] == vals[k], other positions kept
    if isinstance(target.value, ast.Name) and target.value.id in st.env:
        base = st.env[target.value.id]
        if isinstance(base.t, TSeq):
            idx = ex.ev(st, target.slice)
            if isinstance(idx.t, TSeq) and idx.t.elem == INT and isinstance(val.t, TSeq):
                n, m = ex.seq_len(base), ex.seq_len(idx)
                ia, va, ba = idx.t.arr(idx.z), val.t.arr(val.z), base.t.arr(base.z)
                j, k = ex.bvar("j"), ex.bvar("k")
                ex.oblige(st, "safety.fancy_store_len", ex.seq_len(val) == m, "safety", node,
                          "one value per index")
                ex.oblige(st, "safety.fancy_store_index",
                          z3.ForAll([k], z3.Implies(z3.And(0 <= k, k < m), z3.And(0 <= ia[k], ia[k] < n)),
                                    patterns=[ia[k]]), "safety", node, "indices in bounds")
                ex.oblige(st, "safety.fancy_store_distinct",
                          z3.ForAll([j, k], z3.Implies(z3.And(0 <= j, j < k, k < m), ia[j] != ia[k]),
                                    patterns=[z3.MultiPattern(ia[j], ia[k])]), "safety", node,
                          "index array without duplicates (otherwise the last write wins - not modelled)")
                ex.used_lib.add("numpy fancy assignment a[p] = v with distinct indices: a[p[k]] == v[k], the other "
                                "positions unchanged")
                r = ex.fresh(target.value.id, base.t)
                ra = base.t.arr(r.z)
                hit = ex.uf("fancy_hit", idx.t.sort(), z3.IntSort(), z3.IntSort())
                ex.assume(st, base.t.len(r.z) == n)
                ex.assume(st, z3.ForAll([k], z3.Implies(z3.And(0 <= k, k < m), ra[ia[k]] == ex.coerce(
                    SV(val.t.elem, va[k]), base.t.elem).z), patterns=[ia[k]]))
                st.env[target.value.id] = r
                return True
    return _orig_store_np(self, ex, st, target, val, node)


type(LIB).store = _store_fancy


def b_sorted_asc(self, ex, st, node):
    """spec: sorted_asc(x) = the ascending arrangement of the values of x (unique; what argsort reads off)"""
    x = ex.ev(st, node.args[0])
    sa = ex.uf("sorted_asc_" + x.t.key(), x.t.sort(), x.t.sort())
    return SV(x.t, sa(x.z))


type(LIB).b_sorted_asc = b_sorted_asc


@libfn("np.where", "numpy.where", stmt="np.where(c, a, b): element-wise a where c holds, b elsewhere (scalars broadcast)")
def _where(ex, st, node):
    c, a, b = [ex.ev(st, x) for x in node.args]
    if not (isinstance(c.t, TSeq) and c.t.elem == BOOL):
        raise Unsupported("np.where condition %s" % c.t)
    n = ex.seq_len(c)
    ca = c.t.arr(c.z)

    def at(v, j):
        if isinstance(v.t, TSeq):
            return SV(v.t.elem, v.t.arr(v.z)[j])
        return v
    for v in (a, b):
        if isinstance(v.t, TSeq) and not st.spec:
            ex.oblige(st, "safety.broadcast", ex.seq_len(v) == n, "safety", node, "np.where operands have equal length")
    ea, eb = at(a, z3.Int("w_probe")), at(b, z3.Int("w_probe"))
    t = REAL if REAL in (ea.t, eb.t) else (INT if INT in (ea.t, eb.t) else ea.t)

    def val(j):
        x, y = at(a, j), at(b, j)
        if t == REAL:
            return z3.If(ca[j], ex.to_real(x), ex.to_real(y))
        if t == INT:
            return z3.If(ca[j], ex.to_int(x), ex.to_int(y))
        return z3.If(ca[j], x.z, y.z)
    return ex.new_seq(st, t, n, val, "nd", "where")


@libfn("np.flip", "numpy.flip", stmt="np.flip(x): the reversal of a 1-D array")
def _flip(ex, st, node):
    x = ex.ev(st, node.args[0])
    n = ex.seq_len(x)
    xa = x.t.arr(x.z)
    return ex.new_seq(st, x.t.elem, n, lambda j: xa[n - 1 - j], "nd", "flip")


@libfn("np.array_equal", "numpy.array_equal", stmt="np.array_equal(a, b): same length and element-wise equal")
def _array_equal(ex, st, node):
    a, b = ex.ev(st, node.args[0]), ex.ev(st, node.args[1])
    return SV(BOOL, ex.seq_eq(a, b))


@libfn("np.random.permutation", "numpy.random.permutation",
       stmt="np.random.permutation(arange(n)): a permutation of range(n) drawn from the GLOBAL numpy RNG")
def _np_random_permutation(ex, st, node):
    x = ex.ev(st, node.args[0])
    n = ex.seq_len(x)
    if not st.spec:
        i = ex.bvar("i")
        ex.oblige(st, "safety.permutation_of_arange",
                  z3.ForAll([i], z3.Implies(z3.And(0 <= i, i < n), x.t.arr(x.z)[i] == i), patterns=[x.t.arr(x.z)[i]]),
                  "safety", node, "argument is arange(n) (only this form is modelled)")
    r = ex.fresh("rperm", TSeq(INT, "nd"))
    ex.assume(st, is_perm(ex, r, n))
    return r
