"""ASSUMED contracts of str methods over ABSTRACT strings (uninterpreted sort Str), DESIGN.md section 3:
split/join are mutually inverse when no part contains the separator; a piece produced by split never contains
the separator; strip/lower are functions; startswith is a predicate; `a + b` is concatenation (uninterpreted).
Spec-level functions of the same names (split, join, strip, has_sep, startswith, lower) use the same symbols."""
import ast
import z3

from .types import INT, REAL, BOOL, STR, NONE, TSeq, SV
from .lib import libfn, method, LIB, Lib
from .engine import Unsupported

LSTR = TSeq(STR, "list")


def U(ex):
    return {
        "split": ex.uf("str_split", STR.sort(), STR.sort(), LSTR.sort()),
        "join": ex.uf("str_join", STR.sort(), LSTR.sort(), STR.sort()),
        "strip": ex.uf("str_strip", STR.sort(), STR.sort()),
        "lower": ex.uf("str_lower", STR.sort(), STR.sort()),
        "has_sep": ex.uf("str_has_sep", STR.sort(), STR.sort(), z3.BoolSort()),
        "startswith": ex.uf("str_startswith", STR.sort(), STR.sort(), z3.BoolSort()),
        "concat": ex.uf("str_concat", STR.sort(), STR.sort(), STR.sort()),
    }


def do_split(ex, st, s, sep):
    u = U(ex)
    r = SV(LSTR, u["split"](s.z, sep.z))
    key = ("split-ax", r.z.get_id())
    if key not in st.seen:
        st.seen.add(key)
        i = ex.bvar("i")
        ra = LSTR.arr(r.z)
        ex.assume(st, LSTR.len(r.z) >= 1)
        ex.assume(st, z3.ForAll([i], z3.Implies(z3.And(0 <= i, i < LSTR.len(r.z)),
                                                z3.Not(u["has_sep"](ra[i], sep.z))), patterns=[ra[i]]))
        ex.assume(st, u["join"](sep.z, r.z) == s.z)
        _register_join(ex, st, sep, r, u["join"](sep.z, r.z))
    ex.used_lib.add("str.split(sep): >= 1 pieces, no piece contains sep, sep.join(pieces) gives the string back")
    return r


def do_join(ex, st, sep, parts):
    u = U(ex)
    if isinstance(parts.t, TSeq) and parts.t.elem.key() == "Char":
        # "".join(list of characters): the string IS its character sequence
        ex.used_lib.add("''.join(chars) / list(s): a string and its character sequence are the same value")
        return parts
    if not (isinstance(parts.t, TSeq) and parts.t.elem == STR):
        raise Unsupported("join of %s" % parts.t)
    pz = parts.z
    r = SV(STR, u["join"](sep.z, pz))
    i = ex.bvar("i")
    pa = LSTR.arr(pz)
    n = LSTR.len(pz)
    clean = z3.ForAll([i], z3.Implies(z3.And(0 <= i, i < n), z3.Not(u["has_sep"](pa[i], sep.z))), patterns=[pa[i]])
    back = SV(LSTR, u["split"](r.z, sep.z))
    # split(join(sep, parts), sep) == parts when no part contains sep (and there is at least one part)
    ex.assume(st, z3.Implies(z3.And(n >= 1, clean), ex.seq_eq(back, SV(LSTR, pz))))
    ex.assume(st, z3.Implies(n == 1, r.z == pa[0]))
    _register_join(ex, st, sep, parts, r.z)
    ex.used_lib.add("sep.join(parts): split(join(sep, parts), sep) == parts if no part contains sep and there is "
                    ">= 1 part; join of a single part is that part; join(p, parts) contains another separator "
                    "only if p or one of the parts does")
    return r


def _register_join(ex, st, sep, parts, term):
    """join is a function of the CONTENT of its argument: ground congruence instances between all join terms."""
    if not getattr(ex.c, "options", {}).get("join_congruence"):
        return
    if not hasattr(st, "join_terms"):
        st.join_terms = []
    reg = st.join_terms
    if any(t3.get_id() == term.get_id() for (_, _, t3) in reg):
        return
    for (sep2, parts2, term2) in reg:
        ex.assume(st, z3.Implies(z3.And(sep.z == sep2.z, ex.seq_eq(SV(LSTR, parts.z), SV(LSTR, parts2.z))),
                                 term == term2))
    reg.append((sep, parts, term))


def join_no_other_sep(ex, st, p, parts, other):
    """fact: join(p, parts) does not contain `other` if neither p nor any part does."""
    u = U(ex)
    i = ex.bvar("i")
    pa = LSTR.arr(parts.z)
    n = LSTR.len(parts.z)
    clean = z3.ForAll([i], z3.Implies(z3.And(0 <= i, i < n), z3.Not(u["has_sep"](pa[i], other.z))), patterns=[pa[i]])
    ex.assume(st, z3.Implies(z3.And(clean, z3.Not(u["has_sep"](p.z, other.z))),
                             z3.Not(u["has_sep"](u["join"](p.z, parts.z), other.z))))


def _kwargs(ex, st, node):
    a = [ex.ev(st, x) for x in node.args]
    kw = {k.arg: ex.ev(st, k.value) for k in node.keywords}
    return a, kw


@method("str", "split", stmt="")
def _m_split(ex, st, base, node, basenode):
    a, kw = _kwargs(ex, st, node)
    sep = a[0] if a else kw.get("sep")
    if sep is None:
        raise Unsupported("split() on whitespace")
    return do_split(ex, st, base, sep)


@method("str", "join", stmt="")
def _m_join(ex, st, base, node, basenode):
    a, kw = _kwargs(ex, st, node)
    parts = a[0]
    r = do_join(ex, st, base, parts)
    # propagate separator-freeness w.r.t. every other separator string currently in scope (sound instances)
    for name, v in list(st.env.items()):
        if v.t == STR and name.startswith("sep"):
            join_no_other_sep(ex, st, base, parts, v)
    return r


@method("str", "strip", "rstrip", stmt="str.strip(): an (uninterpreted) idempotent function of the string")
def _m_strip(ex, st, base, node, basenode):
    return do_strip(ex, st, base)


def do_strip(ex, st, base):
    u = U(ex)
    r = u["strip"](base.z)
    ex.assume(st, u["strip"](r) == r)     # strip is idempotent
    return SV(STR, r)


@method("str", "lower", stmt="str.lower(): an (uninterpreted) function of the string")
def _m_lower(ex, st, base, node, basenode):
    return SV(STR, U(ex)["lower"](base.z))


@method("str", "startswith", stmt="str.startswith(p): an (uninterpreted) predicate")
def _m_startswith(ex, st, base, node, basenode):
    a, kw = _kwargs(ex, st, node)
    return SV(BOOL, U(ex)["startswith"](base.z, a[0].z))


def _str_binop(self, ex, st, op, a, b, node):
    return None


# spec-level functions ---------------------------------------------------------------------------------------
def b_split(self, ex, st, node):
    a = [ex.ev(st, x) for x in node.args]
    return do_split(ex, st, a[0], a[1])


def b_join(self, ex, st, node):
    a = [ex.ev(st, x) for x in node.args]
    return do_join(ex, st, a[0], a[1])


def b_strip(self, ex, st, node):
    return do_strip(ex, st, ex.ev(st, node.args[0]))


def b_lower(self, ex, st, node):
    return SV(STR, U(ex)["lower"](ex.ev(st, node.args[0]).z))


def b_has_sep(self, ex, st, node):
    a = [ex.ev(st, x) for x in node.args]
    return SV(BOOL, U(ex)["has_sep"](a[0].z, a[1].z))


def b_startswith(self, ex, st, node):
    a = [ex.ev(st, x) for x in node.args]
    return SV(BOOL, U(ex)["startswith"](a[0].z, a[1].z))


def b_concat(self, ex, st, node):
    a = [ex.ev(st, x) for x in node.args]
    return SV(STR, U(ex)["concat"](a[0].z, a[1].z))


for _n, _f in [("split", b_split), ("join", b_join), ("strip", b_strip), ("lower", b_lower), ("has_sep", b_has_sep),
               ("startswith", b_startswith), ("concat", b_concat)]:
    setattr(Lib, "b_" + _n, _f)

_orig_binop = Lib.binop


def _binop(self, ex, st, op, a, b, node):
    if a.t == STR and b.t == STR and isinstance(op, ast.Add):
        ex.used_lib.add("str + str: concatenation, an (uninterpreted) function of both operands")
        return SV(STR, U(ex)["concat"](a.z, b.z))
    return _orig_binop(self, ex, st, op, a, b, node)


Lib.binop = _binop


# ------------------------------------------------------------------------------------------------------------
# A string viewed as its character sequence (used where code does index arithmetic on strings):
#   chars(s) : list[Char]   - a function of the string; literals get their concrete characters
from .types import TAbs as _TAbs, TOpt as _TOpt  # noqa: E402
from .lib import Lib as _Lib  # noqa: E402
from . import engine as _engine  # noqa: E402

CHAR = _TAbs("Char")
LCHAR = TSeq(CHAR)


def to_chars(ex, st, sv):
    """STR (or a known literal) -> list[Char]"""
    f = ex.uf("str_chars", STR.sort(), LCHAR.sort())
    r = SV(LCHAR, f(sv.z))
    key = ("str-chars", r.z.get_id())
    if key not in st.seen:
        st.seen.add(key)
        ex.assume(st, LCHAR.len(r.z) >= 0)
        lit = [k for k, v in ex.strlits.items() if v.get_id() == sv.z.get_id()]
        if lit:
            text = lit[0]
            ex.assume(st, LCHAR.len(r.z) == len(text))
            code = ex.uf("chr_code", CHAR.sort(), z3.IntSort())
            for i, ch in enumerate(text):
                c = z3.Const("chr_%d" % ord(ch), CHAR.sort())
                ex.assume(st, LCHAR.arr(r.z)[i] == c)
                ex.assume(st, code(c) == ord(ch))        # different literal characters are different values
    ex.used_lib.add("a string and its character sequence are the same value (chars(s)); the characters of a "
                    "literal are the literal's")
    return r


def b_chars(self, ex, st, node):
    a = ex.ev(st, node.args[0])
    if isinstance(a.t, _TOpt) and a.t.inner == STR:
        a = SV(STR, a.t.val(a.z))
    if a.t == STR:
        return to_chars(ex, st, a)
    if isinstance(a.t, TSeq) and a.t.elem.key() == "Char":
        return a
    raise Unsupported("chars(%s)" % a.t)


_Lib.b_chars = b_chars

_orig_binop_chars = _engine.Exec.binop


def _binop_chars(self, st, op, a, b, node=None):
    if isinstance(op, ast.Add):
        ac = isinstance(a.t, TSeq) and a.t.elem.key() == "Char"
        bc = isinstance(b.t, TSeq) and b.t.elem.key() == "Char"
        if ac and b.t == STR:
            b = to_chars(self, st, b)
        elif bc and a.t == STR:
            a = to_chars(self, st, a)
    return _orig_binop_chars(self, st, op, a, b, node)


_engine.Exec.binop = _binop_chars

_orig_coerce_decl_chars = _engine.Exec.coerce_decl


def _coerce_decl_chars(self, st, val, t):
    if isinstance(t, TSeq) and t.elem.key() == "Char":
        if isinstance(val.t, _TOpt) and val.t.inner == STR:
            # None where a string is needed: the TypeError of the first string operation is raised here
            none = val.t.is_none(val.z)
            g = z3.And(*(st.guards + [none])) if st.guards else none
            st.pending_exc.append((g, "TypeError"))
            val = SV(STR, val.t.val(val.z))
        if val.t == STR:
            return to_chars(self, st, val)
    return _orig_coerce_decl_chars(self, st, val, t)


_engine.Exec.coerce_decl = _coerce_decl_chars
