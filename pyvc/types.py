"""Types and symbolic values of the pyvc encoding (DESIGN.md 2.3).

int   -> mathematical Int            float -> mathematical Real
bool  -> Bool                        str / opaque objects -> uninterpreted sorts
list / tuple(var-len) / 1-D ndarray  -> datatype Seq_T = mk(arr: Array Int T, len: Int)
set   -> Array T Bool                opt[T] -> datatype none | some(val)
tuple[...] (fixed)                   -> datatype Tup = mk(f0, f1, ...)
dict[K,V] -> datatype mk(vals: Array K V, has: Array K Bool, keys: Seq_K)  (keys = insertion order)
"""
import re
import z3


class T:
    name = "?"

    def key(self):
        return self.name

    def __eq__(self, o):
        return isinstance(o, T) and self.key() == o.key()

    def __hash__(self):
        return hash(self.key())

    def __repr__(self):
        return self.key()


class _Prim(T):
    def __init__(self, name, sort):
        self.name = name
        self._sort = sort

    def sort(self):
        return self._sort


INT = _Prim("int", z3.IntSort())
REAL = _Prim("real", z3.RealSort())
BOOL = _Prim("bool", z3.BoolSort())

_abs_cache = {}
_dt_cache = {}


class TAbs(T):
    """Uninterpreted sort (abstract strings, rows, columns, elements ...)."""

    def __init__(self, name):
        self.name = name

    def sort(self):
        if self.name not in _abs_cache:
            _abs_cache[self.name] = z3.DeclareSort(self.name)
        return _abs_cache[self.name]


STR = TAbs("Str")


class TSeq(T):
    def __init__(self, elem, kind="list"):
        self.elem = elem
        self.kind = kind  # list | tuple | nd  (same encoding, different operator semantics)

    def key(self):
        return "Seq_" + self.elem.key()

    def sort(self):
        k = self.key()
        if k not in _dt_cache:
            d = z3.Datatype(k)
            d.declare("mk_" + k, ("arr_" + k, z3.ArraySort(z3.IntSort(), self.elem.sort())),
                      ("len_" + k, z3.IntSort()))
            _dt_cache[k] = d.create()
        return _dt_cache[k]

    def arr(self, z):
        return getattr(self.sort(), "arr_" + self.key())(z)

    def len(self, z):
        return getattr(self.sort(), "len_" + self.key())(z)

    def mk(self, arr, ln):
        return getattr(self.sort(), "mk_" + self.key())(arr, ln)

    def with_kind(self, kind):
        return TSeq(self.elem, kind)


class TSet(T):
    def __init__(self, elem):
        self.elem = elem

    def key(self):
        return "Set_" + self.elem.key()

    def sort(self):
        return z3.ArraySort(self.elem.sort(), z3.BoolSort())


class TOpt(T):
    def __init__(self, inner):
        self.inner = inner

    def key(self):
        return "Opt_" + self.inner.key()

    def sort(self):
        k = self.key()
        if k not in _dt_cache:
            d = z3.Datatype(k)
            d.declare("none_" + k)
            d.declare("some_" + k, ("val_" + k, self.inner.sort()))
            _dt_cache[k] = d.create()
        return _dt_cache[k]

    def none(self):
        return getattr(self.sort(), "none_" + self.key())

    def some(self, z):
        return getattr(self.sort(), "some_" + self.key())(z)

    def is_none(self, z):
        return getattr(self.sort(), "is_none_" + self.key())(z)

    def val(self, z):
        return getattr(self.sort(), "val_" + self.key())(z)


class TTuple(T):
    def __init__(self, elems):
        self.elems = list(elems)

    def key(self):
        return "Tup_" + "_".join(e.key() for e in self.elems) + "_"

    def sort(self):
        k = self.key()
        if k not in _dt_cache:
            d = z3.Datatype(k)
            d.declare("mk_" + k, *[("f%d_%s" % (i, k), e.sort()) for i, e in enumerate(self.elems)])
            _dt_cache[k] = d.create()
        return _dt_cache[k]

    def mk(self, zs):
        return getattr(self.sort(), "mk_" + self.key())(*zs)

    def get(self, z, i):
        return getattr(self.sort(), "f%d_%s" % (i, self.key()))(z)


class TDict(T):
    def __init__(self, k, v):
        self.k = k
        self.v = v
        self.keyseq = TSeq(k)

    def key(self):
        return "Dict_%s_%s" % (self.k.key(), self.v.key())

    def sort(self):
        k = self.key()
        if k not in _dt_cache:
            d = z3.Datatype(k)
            d.declare("mk_" + k,
                      ("vals_" + k, z3.ArraySort(self.k.sort(), self.v.sort())),
                      ("has_" + k, z3.ArraySort(self.k.sort(), z3.BoolSort())),
                      ("keys_" + k, self.keyseq.sort()))
            _dt_cache[k] = d.create()
        return _dt_cache[k]

    def vals(self, z):
        return getattr(self.sort(), "vals_" + self.key())(z)

    def has(self, z):
        return getattr(self.sort(), "has_" + self.key())(z)

    def keys(self, z):
        return getattr(self.sort(), "keys_" + self.key())(z)

    def mk(self, vals, has, keys):
        return getattr(self.sort(), "mk_" + self.key())(vals, has, keys)


class TMap(T):
    """Total map K -> V (ghost state): z3 Array K V.  m[k] reads, m[k] = v stores, no key obligations."""

    def __init__(self, k, v):
        self.k = k
        self.v = v

    def key(self):
        return "Map_%s_%s" % (self.k.key(), self.v.key())

    def sort(self):
        return z3.ArraySort(self.k.sort(), self.v.sort())


class TPy(T):
    """Python-level helper value with no SMT term (slice objects, functions, None literal, modules)."""

    def __init__(self, what):
        self.name = "py:" + what
        self.what = what

    def sort(self):
        raise TypeError("no SMT sort for " + self.name)


class TIter(TPy):
    """Mutable iterator over a fixed underlying sequence (file objects, generators): py = {"seq": SV, "pos": z3 Int}."""

    def __init__(self, elem):
        TPy.__init__(self, "iter[%s]" % elem.key())
        self.elem = elem
        self.seq_t = TSeq(elem)


NONE = TPy("None")
SLICE = TPy("slice")
FUNC = TPy("func")
MODULE = TPy("module")
RECORD = TPy("record")


class SV:
    """A symbolic value: type + z3 term (or a python payload for TPy)."""
    __slots__ = ("t", "z", "py")

    def __init__(self, t, z=None, py=None):
        self.t = t
        self.z = z
        self.py = py

    def __repr__(self):
        return "SV(%s, %s)" % (self.t, self.z if self.z is not None else self.py)


_TOK = re.compile(r"\s*([A-Za-z_][A-Za-z_0-9]*|\[|\]|,)")


def parse_type(s):
    """'int' 'real' 'bool' 'str' 'list[int]' 'nd[real]' 'tuple[int,str]' 'tup[int]' (var-len tuple)
    'set[int]' 'dict[int,Row]' 'opt[real]' 'Row' (any capitalised name -> abstract sort)."""
    toks = _TOK.findall(s)
    pos = [0]

    def peek():
        return toks[pos[0]] if pos[0] < len(toks) else None

    def eat(x=None):
        t = peek()
        if x is not None and t != x:
            raise ValueError("type syntax: expected %r at %r in %r" % (x, t, s))
        pos[0] += 1
        return t

    def args():
        eat("[")
        out = [ty()]
        while peek() == ",":
            eat(",")
            out.append(ty())
        eat("]")
        return out

    def ty():
        n = eat()
        if n == "int":
            return INT
        if n in ("real", "float"):
            return REAL
        if n == "bool":
            return BOOL
        if n == "str":
            return STR
        if n in ("list", "nd", "tup"):
            (e,) = args()
            return TSeq(e, {"list": "list", "nd": "nd", "tup": "tuple"}[n])
        if n == "tuple":
            return TTuple(args())
        if n == "set":
            (e,) = args()
            return TSet(e)
        if n == "opt":
            (e,) = args()
            return TOpt(e)
        if n == "dict":
            k, v = args()
            return TDict(k, v)
        if n == "map":
            k, v = args()
            return TMap(k, v)
        if n == "iter":
            (e,) = args()
            return TIter(e)
        if n[0].isupper():
            return TAbs(n)
        raise ValueError("unknown type %r in %r" % (n, s))

    t = ty()
    if pos[0] != len(toks):
        raise ValueError("trailing tokens in type %r" % s)
    return t
