"""Discharging verification conditions: SMT-LIB text -> killable solver processes (portfolio), model extraction."""
import json
import multiprocessing
import os
import subprocess
import tempfile
import time
from concurrent.futures import ThreadPoolExecutor
from fractions import Fraction

import z3

from .types import INT, REAL, BOOL, TAbs, TSeq, TSet, TOpt, TTuple, TDict, TPy

Z3 = "z3-new"
CVC5 = "/usr/bin/cvc5"


_SK = [0]


def skolemize_goal(goal):
    """Replace the universally quantified variables in POSITIVE positions of the goal (under and / => / forall
    only) by fresh constants: valid(goal) <=> valid(result).  For every marker term (uninterpreted boolean
    `marker_*`, which occurs in triggers only) in the patterns of a removed quantifier the instance for the fresh
    constants is returned as an extra hypothesis - a definitional extension that lets marker-triggered hypotheses
    fire for the goal's own instance.  -> (goal', [marker facts])"""
    marks = []

    def walk(e):
        if z3.is_quantifier(e) and e.is_forall():
            n = e.num_vars()
            cs = []
            for i in range(n):
                _SK[0] += 1
                cs.append(z3.Const("sk!%s!%d" % (e.var_name(i), _SK[0]), e.var_sort(i)))
            rev = list(reversed(cs))
            for pi in range(e.num_patterns()):
                for t in e.pattern(pi).children():
                    t2 = z3.substitute_vars(t, *rev)
                    if z3.is_app(t2) and t2.decl().name().startswith("marker_"):
                        marks.append(t2)
            return walk(z3.substitute_vars(e.body(), *rev))
        if z3.is_and(e):
            return z3.And(*[walk(c) for c in e.children()])
        if z3.is_implies(e):
            a, b = e.children()
            return z3.Implies(a, walk(b))
        return e

    return walk(goal), marks


def vc_text(hyps, goal, distinct=()):
    s = z3.Solver()
    for h in hyps:
        s.add(h)
    if len(distinct) > 1:
        s.add(z3.Distinct(*distinct))
    # only goals that carry marker triggers are rewritten (the solvers' own preprocessing of a quantified goal
    # is otherwise at least as good: z3's default configuration decides some goals only in the original form)
    g2, marks = skolemize_goal(goal)
    if not marks:
        g2 = goal
    for m in marks:
        s.add(m)
    s.add(z3.Not(g2))
    return "(set-logic ALL)\n" + s.to_smt2()


def sat_text(hyps, distinct=()):
    s = z3.Solver()
    for h in hyps:
        s.add(h)
    if len(distinct) > 1:
        s.add(z3.Distinct(*distinct))
    return "(set-logic ALL)\n" + s.to_smt2()


def _run(cmd, timeout):
    t0 = time.time()
    try:
        p = subprocess.run(cmd, stdout=subprocess.PIPE, stderr=subprocess.PIPE, timeout=timeout, text=True)
        out = p.stdout.strip().split("\n")
        first = out[0].strip() if out else ""
        if first in ("unsat", "sat", "unknown"):
            return first, time.time() - t0, p.stdout[-400:]
        if "timeout" in p.stdout or "timeout" in p.stderr or "interrupted" in p.stderr:
            return "timeout", time.time() - t0, ""
        return "error", time.time() - t0, (p.stdout + p.stderr)[-400:]
    except subprocess.TimeoutExpired:
        return "timeout", time.time() - t0, ""


def _popen(cmd):
    return subprocess.Popen(cmd, stdout=subprocess.PIPE, stderr=subprocess.PIPE, text=True)


def _race(plan, timeout):
    """Run several solver commands concurrently; -> list of (name, status, time).  Stops the others as soon as
    one answers unsat (first unsat wins) - a sat answer is recorded but the others keep running."""
    t0 = time.time()
    procs = [(name, _popen(cmd)) for name, cmd in plan]
    done = {}
    while len(done) < len(procs) and time.time() - t0 < timeout:
        for name, p in procs:
            if name in done:
                continue
            if p.poll() is not None:
                out, err = p.communicate()
                first = out.strip().split("\n")[0].strip() if out.strip() else ""
                if first in ("unsat", "sat", "unknown"):
                    st = first
                elif "timeout" in out or "timeout" in err or "interrupted" in err:
                    st = "timeout"
                else:
                    st = "error"
                done[name] = (st, time.time() - t0)
        if any(v[0] == "unsat" for v in done.values()):
            break
        time.sleep(0.01)
    for name, p in procs:
        if name not in done:
            try:
                p.kill()
                p.communicate(timeout=5)
            except Exception:
                pass
            done[name] = ("timeout", time.time() - t0)
    return [(name, done[name][0], done[name][1]) for name, _ in plan]


def solve_text(text, budget, workdir, tag, both=False):
    """Portfolio on one VC.  Stage 1: z3 with e-matching only, short budget.  Stage 2 (only if needed): cvc5,
    z3 with MBQI and cvc5 with enumerative instantiation race each other under the full budget.
    -> dict(status, solver, time, attempts)"""
    path = os.path.join(workdir, tag + ".smt2")
    with open(path, "w") as f:
        f.write(text)
    attempts = []
    b = max(1, int(budget))
    b1 = min(b, 3)
    z3e = ("z3-ematch", [Z3, "-smt2", "smt.auto_config=false", "smt.mbqi=false", "-T:%d" % b1, path])
    st, tm, raw = _run(z3e[1], b1 + 5)
    attempts.append({"solver": "z3-ematch", "status": st, "time": round(tm, 3)})
    if st == "unsat" and not both:
        return {"status": "unsat", "solver": "z3-ematch", "time": tm, "attempts": attempts}
    plan = [
        ("cvc5", [CVC5, "--tlimit=%d" % (b * 1000), "--strings-exp", path]),
        ("z3-mbqi", [Z3, "-smt2", "-T:%d" % b, path]),
        ("cvc5-enum", [CVC5, "--tlimit=%d" % (b * 1000), "--strings-exp", "--enum-inst", path]),
        ("z3-ematch-long", [Z3, "-smt2", "smt.auto_config=false", "smt.mbqi=false", "-T:%d" % b, path]),
    ]
    t1 = time.time()
    for name, stt, tmm in _race(plan, b + 5):
        attempts.append({"solver": name, "status": stt, "time": round(tmm, 3)})
    wall = tm + (time.time() - t1)
    unsat = [a for a in attempts if a["status"] == "unsat"]
    sat = [a for a in attempts if a["status"] == "sat"]
    if unsat and sat:
        return {"status": "disagree", "solver": sat[0]["solver"] + " vs " + unsat[0]["solver"], "time": wall,
                "attempts": attempts}
    if unsat:
        best = min(unsat, key=lambda a: a["time"])
        return {"status": "unsat", "solver": best["solver"], "time": wall if best["solver"] != "z3-ematch" else tm,
                "attempts": attempts, "confirmed_by": [a["solver"] for a in unsat]}
    stt = "sat" if sat else ("timeout" if all(a["status"] in ("timeout", "error") for a in attempts) else "unknown")
    return {"status": stt, "solver": sat[0]["solver"] if sat else "-", "time": wall, "attempts": attempts}


def solve_all(items, budget, workdir, jobs=8, both=False):
    """items: list of (tag, smt2 text) -> dict tag -> result"""
    res = {}
    with ThreadPoolExecutor(max_workers=jobs) as ex:
        futs = {ex.submit(solve_text, text, budget, workdir, tag, both): tag for tag, text in items}
        for f, tag in futs.items():
            res[tag] = f.result()
    return res


def check_sat_quick(text, workdir, tag, budget=3):
    """For canaries: 'unsat' means the hypotheses are contradictory (vacuous)."""
    path = os.path.join(workdir, tag + ".smt2")
    with open(path, "w") as f:
        f.write(text)
    st, tm, raw = _run([Z3, "-smt2", "smt.auto_config=false", "smt.mbqi=false", "-T:%d" % budget, path], budget + 3)
    return st


# ------------------------------------------------------------------------------------------ models
def concretize(model, sv, maxlen=12, depth=0):
    t = sv.t
    ev = lambda z: model.eval(z, model_completion=True)
    if t == INT:
        return ev(sv.z).as_long()
    if t == BOOL:
        return z3.is_true(ev(sv.z))
    if t == REAL:
        v = ev(sv.z)
        try:
            fr = Fraction(v.numerator_as_long(), v.denominator_as_long())
            return float(fr) if fr.denominator not in (1,) else int(fr)
        except Exception:
            try:
                return float(v.approx(10).as_fraction())
            except Exception:
                return str(v)
    if isinstance(t, TAbs):
        return {"abs": t.name, "id": str(ev(sv.z))}
    if isinstance(t, TSeq):
        n = ev(t.len(sv.z)).as_long()
        if n < 0 or n > maxlen:
            raise ValueError("sequence length %d out of the replay bound" % n)
        from .types import SV
        return [concretize(model, SV(t.elem, t.arr(sv.z)[i]), maxlen, depth + 1) for i in range(n)]
    if isinstance(t, TTuple):
        from .types import SV
        return {"tuple": [concretize(model, SV(e, t.get(sv.z, k)), maxlen, depth + 1)
                          for k, e in enumerate(t.elems)]}
    if isinstance(t, TOpt):
        from .types import SV
        if z3.is_true(ev(t.is_none(sv.z))):
            return None
        return concretize(model, SV(t.inner, t.val(sv.z)), maxlen, depth + 1)
    raise ValueError("cannot concretize %s" % t)


def _model_child(conn, hyps, goal, distinct, params, bounds, timeout_ms):
    try:
        s = z3.Solver()
        s.set("timeout", timeout_ms)
        for h in hyps:
            s.add(h)
        if len(distinct) > 1:
            s.add(z3.Distinct(*distinct))
        s.add(z3.Not(goal))
        for b in bounds:
            s.add(b)
        r = s.check()
        out = {"status": str(r)}
        if r != z3.unsat:
            try:
                m = s.model()
                vals = {}
                for name, sv in params.items():
                    try:
                        vals[name] = concretize(m, sv)
                    except Exception as e:  # noqa
                        vals[name] = {"unconcretized": str(e)}
                out["values"] = vals
            except Exception as e:
                out["model_error"] = str(e)
        conn.send(json.dumps(out))
    except Exception as e:
        try:
            conn.send(json.dumps({"status": "error", "error": repr(e)}))
        except Exception:
            pass
    finally:
        conn.close()


def get_model(obl, distinct, params, size_bound=4, timeout=20):
    """Re-run a failed VC with MBQI on and small size bounds to obtain concrete parameter values
    (DESIGN.md 2.5-2).  Runs in a forked, killable child.  -> dict or None"""
    bounds = []
    for name, sv in params.items():
        if isinstance(sv.t, TSeq):
            bounds.append(sv.t.len(sv.z) <= size_bound)
        elif sv.t == INT:
            bounds.append(z3.And(sv.z <= 64, sv.z >= -64))
    ctx = multiprocessing.get_context("fork")
    for bset in (bounds, []):
        parent, child = ctx.Pipe(duplex=False)
        p = ctx.Process(target=_model_child, args=(child, obl.hyps, obl.goal, distinct, params, bset,
                                                   int(timeout * 1000)))
        p.start()
        child.close()
        got = None
        if parent.poll(timeout + 5):
            try:
                got = json.loads(parent.recv())
            except Exception:
                got = None
        if p.is_alive():
            p.kill()
        p.join()
        if got and got.get("values"):
            return got
    return None
