"""ASSUMED contracts of I/O-like objects, modelled with ghost state (DESIGN.md 2.4):
  * a wrapped TabularDataWriter: ghost field `<expr>.sink` (list[Row]) = the rows that reached it, in order;
    append_data(rows) appends (frames, lists of dicts and record arrays are all `Seq Row` under the encoding)
  * pandas: DataFrame(records) / df.copy() / .iloc = identity on the row sequence; pd.concat(axis=0) appends rows
"""
import ast
import z3

from .types import INT, REAL, BOOL, STR, NONE, TSeq, TAbs, SV, parse_type
from .lib import libfn, method, LIB
from .engine import Unsupported

ROW = TAbs("Row")


@method("abs", "append_data", stmt="writer.append_data(rows) appends the rows, in order, to what the writer holds "
                                   "(ghost `sink`); nothing else changes")
def _append_data(ex, st, base, node, basenode):
    key = ast.unparse(basenode) + ".sink"
    if key not in st.env:
        gs = st.env.get("ghost_sink")
        if gs is not None and isinstance(gs.t, TMap) and gs.t.k.key() == base.t.key():
            # writers as objects with identity: ghost_sink maps each writer to the rows that reached it
            data = ex.ev(st, node.args[0])
            cur = SV(gs.t.v, z3.Select(gs.z, base.z))
            if not isinstance(data.t, TSeq) or data.t.elem != cur.t.elem:
                raise Unsupported("append_data of %s" % data.t)
            new = ex.seq_concat(st, cur, SV(cur.t, data.z))
            st.env["ghost_sink"] = SV(gs.t, z3.Store(gs.z, base.z, new.z))
            return SV(NONE)
        raise Unsupported("no ghost sink declared for %s" % ast.unparse(basenode))
    data = ex.ev(st, node.args[0])
    sink = st.env[key]
    if not isinstance(data.t, TSeq) or data.t.elem != sink.t.elem:
        raise Unsupported("append_data of %s" % data.t)
    st.env[key] = ex.seq_concat(st, sink, SV(sink.t, data.z))
    return SV(NONE)


@libfn("pd.DataFrame", stmt="pd.DataFrame(records) holds the records as rows, in order")
def _dataframe(ex, st, node):
    a = ex.ev(st, node.args[0])
    if isinstance(a.t, TSeq):
        return a
    raise Unsupported("pd.DataFrame(%s)" % a.t)


@method("seq", "iloc", stmt="")
def _iloc(ex, st, base, node, basenode):
    raise Unsupported("iloc call")


@libfn("pd.concat", stmt="pd.concat([a, b, ...], axis=0) = the rows of a, then b, ... in order")
def _concat(ex, st, node):
    lst = node.args[0]
    if isinstance(lst, (ast.List, ast.Tuple)):
        parts = [ex.unwrap(st, ex.ev(st, e), node, "frame passed to pd.concat") for e in lst.elts]
        r = parts[0]
        for p in parts[1:]:
            r = ex.seq_concat(st, r, SV(r.t, p.z))
        return r
    raise Unsupported("pd.concat of a non-literal list")


_orig_attr = LIB.attribute.__func__ if hasattr(LIB.attribute, "__func__") else None


def _attribute(self, ex, st, base, attr, node):
    if isinstance(base.t, TSeq) and attr == "iloc":
        ex.used_lib.add("df.iloc[a:b] = the consecutive rows a..b-1 (with their running index)")
        return base
    return _orig_attr(self, ex, st, base, attr, node)


type(LIB).attribute = _attribute


@method("seq", "copy", stmt="")
def _copy(ex, st, base, node, basenode):
    return base


# ------------------------------------------------------------------------------------------------------------
# A minimal DataFrame model: abstract sort Frame with per-column views (DESIGN.md 2.3 "pandas column").
#   fr_len(F)            number of rows
#   fr_isbool(F, c)      column c has dtype bool
#   fr_int(F, c)[i]      integer value of row i of column c   (meaningful when not fr_isbool)
#   fr_bool(F, c)[i]     boolean value of row i of column c   (meaningful when fr_isbool)
# F[c] is a python-level column handle; astype / dtype / comparison follow pandas on int and bool columns.
from .types import TPy, RECORD, TAbs  # noqa: E402
from .lib import Lib  # noqa: E402

FRAME = TAbs("Frame")
NDI = TSeq(INT, "nd")
NDB = TSeq(BOOL, "nd")


def FU(ex):
    return {
        "len": ex.uf("fr_len", FRAME.sort(), z3.IntSort()),
        "isbool": ex.uf("fr_isbool", FRAME.sort(), STR.sort(), z3.BoolSort()),
        "int": ex.uf("fr_int", FRAME.sort(), STR.sort(), NDI.sort()),
        "bool": ex.uf("fr_bool", FRAME.sort(), STR.sort(), NDB.sort()),
    }


def frame_facts(ex, st, F, c):
    u = FU(ex)
    key = ("frame-col", F.z.get_id(), c.z.get_id())
    if key not in st.seen:
        st.seen.add(key)
        ex.assume(st, z3.And(u["len"](F.z) >= 0, NDI.len(u["int"](F.z, c.z)) == u["len"](F.z),
                             NDB.len(u["bool"](F.z, c.z)) == u["len"](F.z)))


def column(ex, st, F, c):
    frame_facts(ex, st, F, c)
    return SV(TPy("column"), py={"frame": F, "col": c})


def col_as_int(ex, st, colv):
    u = FU(ex)
    F, c = colv.py["frame"], colv.py["col"]
    ib = u["isbool"](F.z, c.z)
    ia = NDI.arr(u["int"](F.z, c.z))
    ba = NDB.arr(u["bool"](F.z, c.z))
    return ex.new_seq(st, INT, u["len"](F.z), lambda j: z3.If(ib, z3.If(ba[j], 1, 0), ia[j]), "nd", "colint")


def col_as_bool(ex, st, colv):
    """pandas astype(bool): bool column unchanged, integer column -> (value != 0)"""
    u = FU(ex)
    F, c = colv.py["frame"], colv.py["col"]
    ib = u["isbool"](F.z, c.z)
    ia = NDI.arr(u["int"](F.z, c.z))
    ba = NDB.arr(u["bool"](F.z, c.z))
    ex.used_lib.add("pandas: Series.astype(bool) of an integer column is (value != 0); of a bool column the column")
    return ex.new_seq(st, BOOL, u["len"](F.z), lambda j: z3.If(ib, ba[j], ia[j] != 0), "nd", "colbool")


_orig_subscript = Lib.subscript


def _subscript(self, ex, st, base, idx, node):
    if base.t == FRAME and idx.t == STR:
        return column(ex, st, base, idx)
    return _orig_subscript(self, ex, st, base, idx, node)


Lib.subscript = _subscript

_orig_attribute2 = Lib.attribute


def _attribute2(self, ex, st, base, attr, node):
    if isinstance(base.t, TPy) and base.t.what == "column":
        if attr == "dtype":
            return SV(TPy("dtype"), py=base.py)
        if attr == "values":
            return base
    return _orig_attribute2(self, ex, st, base, attr, node)


Lib.attribute = _attribute2

_orig_compare = Lib.compare


def _compare(self, ex, st, op, a, b, node):
    if isinstance(a.t, TPy) and a.t.what == "dtype" and isinstance(op, ast.Eq):
        if b.t is FUNC and b.py == ("name", "bool"):
            u = FU(ex)
            return u["isbool"](a.py["frame"].z, a.py["col"].z)
    return _orig_compare(self, ex, st, op, a, b, node)


from .types import FUNC  # noqa: E402
Lib.compare = _compare


@method("py:column", "astype", stmt="")
def _col_astype(ex, st, base, node, basenode):
    target = ast.unparse(node.args[0])
    if target == "int":
        return col_as_int(ex, st, base)
    if target == "bool":
        return col_as_bool(ex, st, base)
    raise Unsupported("column.astype(%s)" % target)


_orig_store = Lib.store


def _store(self, ex, st, target, val, node):
    # F[c] = <nd[bool]>  : a new frame whose column c is that boolean column, everything else unchanged
    if isinstance(target.value, ast.Name) and target.value.id in st.env and st.env[target.value.id].t == FRAME:
        F = st.env[target.value.id]
        c = ex.ev(st, target.slice)
        if c.t == STR and isinstance(val.t, TSeq) and val.t.elem == BOOL:
            u = FU(ex)
            ex.oblige(st, "safety.column_len", ex.seq_len(val) == u["len"](F.z), "safety", node,
                      "assigned column has one value per row")
            F2 = ex.fresh("frame", FRAME)
            d = ex.bvar("d", STR.sort())
            ex.used_lib.add("pandas: df[c] = values replaces column c (dtype of the values), other columns unchanged")
            ex.assume(st, z3.And(u["len"](F2.z) == u["len"](F.z), u["isbool"](F2.z, c.z),
                                 ex.seq_eq(SV(NDB, u["bool"](F2.z, c.z)), SV(NDB, val.z))))
            ex.assume(st, z3.ForAll([d], z3.Implies(d != c.z, z3.And(
                u["isbool"](F2.z, d) == u["isbool"](F.z, d), u["int"](F2.z, d) == u["int"](F.z, d),
                u["bool"](F2.z, d) == u["bool"](F.z, d))), patterns=[u["isbool"](F2.z, d)]))
            st.env[target.value.id] = F2
            return True
    return _orig_store(self, ex, st, target, val, node)


Lib.store = _store


def b_fr_len(self, ex, st, node):
    F = ex.ev(st, node.args[0])
    return SV(INT, FU(ex)["len"](F.z))


def b_fr_isbool(self, ex, st, node):
    F, c = ex.ev(st, node.args[0]), ex.ev(st, node.args[1])
    frame_facts(ex, st, F, c)
    return SV(BOOL, FU(ex)["isbool"](F.z, c.z))


def b_fr_int(self, ex, st, node):
    F, c = ex.ev(st, node.args[0]), ex.ev(st, node.args[1])
    frame_facts(ex, st, F, c)
    return SV(NDI, FU(ex)["int"](F.z, c.z))


def b_fr_bool(self, ex, st, node):
    F, c = ex.ev(st, node.args[0]), ex.ev(st, node.args[1])
    frame_facts(ex, st, F, c)
    return SV(NDB, FU(ex)["bool"](F.z, c.z))


def b_fr_targets(self, ex, st, node):
    """spec: fr_targets(F, c)[i] = row i is a target: the bool value of a bool column, (value == 1) otherwise"""
    F, c = ex.ev(st, node.args[0]), ex.ev(st, node.args[1])
    frame_facts(ex, st, F, c)
    u = FU(ex)
    f = ex.uf("fr_targets", FRAME.sort(), STR.sort(), NDB.sort())
    r = SV(NDB, f(F.z, c.z))
    key = ("fr-targets", F.z.get_id(), c.z.get_id())
    if key not in st.seen:
        st.seen.add(key)
        j = ex.bvar("j")
        ib = u["isbool"](F.z, c.z)
        ex.assume(st, NDB.len(r.z) == u["len"](F.z))
        ex.assume(st, z3.ForAll([j], z3.Implies(z3.And(0 <= j, j < u["len"](F.z)),
                                                NDB.arr(r.z)[j] == z3.If(ib, NDB.arr(u["bool"](F.z, c.z))[j],
                                                                         NDI.arr(u["int"](F.z, c.z))[j] == 1)),
                                patterns=[NDB.arr(r.z)[j]]))
    return r


Lib.b_fr_targets = b_fr_targets

for _n, _f in [("fr_len", b_fr_len), ("fr_isbool", b_fr_isbool), ("fr_int", b_fr_int), ("fr_bool", b_fr_bool)]:
    setattr(Lib, "b_" + _n, _f)

# coercion of a column handle to an array parameter of a callee (what `.values.astype(...)` does there)
from . import engine as _engine  # noqa: E402

_orig_coerce_decl = _engine.Exec.coerce_decl


def _coerce_decl(self, st, val, t):
    if isinstance(val.t, TPy) and val.t.what == "column" and isinstance(t, TSeq):
        if t.elem == BOOL:
            return col_as_bool(self, st, val)
        if t.elem == INT:
            return col_as_int(self, st, val)
    return _orig_coerce_decl(self, st, val, t)


_engine.Exec.coerce_decl = _coerce_decl


# ------------------------------------------------------------------------------------------------------------
# Row-sequence view of frames for the readers (C05 / C13): a frame is its list of rows; df[cols] projects every
# row (row_proj), keeping order and index labels; a frame WITH an explicit index is the record {rows, index}.
def row_proj(ex, st, rows, cols):
    f = ex.uf("row_proj", ROW.sort(), TSeq(STR).sort(), ROW.sort())
    ra = rows.t.arr(rows.z)
    ex.used_lib.add("pandas: df[columns] selects the requested columns of every row, rows and index unchanged")
    return ex.new_seq(st, ROW, ex.seq_len(rows), lambda j: f(ra[j], cols.z), rows.t.kind, "proj")


_orig_subscript2 = Lib.subscript


def _subscript2(self, ex, st, base, idx, node):
    if isinstance(base.t, TSeq) and base.t.elem == ROW:
        it = idx.t.inner if isinstance(idx.t, TOptT) else idx.t
        if isinstance(it, TSeq) and it.elem == STR:
            cols = ex.unwrap(st, idx, node, "column list")
            return row_proj(ex, st, base, cols)
    return _orig_subscript2(self, ex, st, base, idx, node)


from .types import TOpt as TOptT  # noqa: E402
Lib.subscript = _subscript2


def b_row_proj(self, ex, st, node):
    """spec: row_proj(row, columns)"""
    r, c = ex.ev(st, node.args[0]), ex.ev(st, node.args[1])
    if isinstance(c.t, TOptT):
        c = SV(c.t.inner, c.t.val(c.z))
    f = ex.uf("row_proj", ROW.sort(), TSeq(STR).sort(), ROW.sort())
    return SV(ROW, f(r.z, c.z))


Lib.b_row_proj = b_row_proj


@method("seq", "to_pandas", stmt="pyarrow RecordBatch.to_pandas(): the rows of the batch with a fresh RangeIndex 0..n-1")
def _to_pandas(ex, st, base, node, basenode):
    n = ex.seq_len(base)
    idx = ex.new_seq(st, INT, n, lambda j: j, "nd", "rangeindex")
    return SV(RECORD, py={"rows": base, "index": idx})


# ------------------------------------------------------------------------------------------------------------
# Ghost file system (DESIGN.md 2.4): env["FS"] : map[str, list[str]]  (path -> lines).  open(p, 'r') is an
# iterator over FS[p]; open(p, 'w') starts an empty line list, open(p, 'a') starts from FS[p]; leaving the
# `with` block stores the written lines back; shutil.move(src, dst) makes dst hold what src held.
from .types import TMap, TIter  # noqa: E402

LINES = TSeq(STR, "list")


def _fs(st):
    fs = st.env.get("FS")
    if fs is None or not isinstance(fs.t, TMap):
        raise Unsupported("no ghost file system `FS` declared (free={'FS': 'map[str,list[str]]'})")
    return fs


def _with_item(self, ex, st, it):
    ce = it.context_expr
    if isinstance(ce, ast.Call) and isinstance(ce.func, ast.Name) and ce.func.id == "open" and \
            isinstance(it.optional_vars, ast.Name):
        path = ex.ev(st, ce.args[0])
        mode = "r"
        if len(ce.args) > 1 and isinstance(ce.args[1], ast.Constant):
            mode = ce.args[1].value
        for kw in ce.keywords:
            if kw.arg == "mode" and isinstance(kw.value, ast.Constant):
                mode = kw.value.value
        fs = _fs(st)
        content = SV(LINES, z3.Select(fs.z, path.z))
        ex.used_lib.add("open(path, mode): 'r' iterates over the lines of the file; 'w' truncates; 'a' appends to "
                        "the existing content; the content is in place when the with-block is left (ghost FS)")
        name = it.optional_vars.id
        if "r" in mode and "+" not in mode:
            st.env[name] = SV(TIter(STR), py={"seq": content, "pos": z3.IntVal(0)})
        elif "w" in mode:
            st.env[name] = ex.seq_lit(st, [], STR, "list")
            st.env["__open_" + name] = path
        elif "a" in mode:
            ex.assume(st, LINES.len(content.z) >= 0)
            st.env[name] = content
            st.env["__open_" + name] = path
        else:
            raise Unsupported("open mode %r" % mode)
        return True
    return False


def _with_exit(self, ex, st, it):
    if isinstance(it.optional_vars, ast.Name):
        name = it.optional_vars.id
        p = st.env.pop("__open_" + name, None)
        if p is not None and name in st.env:
            fs = _fs(st)
            st.env["FS"] = SV(fs.t, z3.Store(fs.z, p.z, st.env[name].z))
    return None


Lib.with_item = _with_item
Lib.with_exit = _with_exit


@libfn("shutil.move", stmt="shutil.move(src, dst): afterwards dst holds what src held (src is gone)")
def _move(ex, st, node):
    src, dst = ex.ev(st, node.args[0]), ex.ev(st, node.args[1])
    fs = _fs(st)
    st.env["FS"] = SV(fs.t, z3.Store(fs.z, dst.z, z3.Select(fs.z, src.z)))
    return SV(NONE)


# ------------------------------------------------------------------------------------------------------------
# Rows as records and row streams (C14): row[col] is an (uninterpreted) field value; a Stream is an iterator
# handle over the fixed row sequence stream_seq(h); its position lives in the ghost map `ghost_cursor`
# (number of rows already delivered).  next(h) delivers stream_seq(h)[cursor] and advances, or raises
# StopIteration when cursor == len (the cursor then stays where it is).
VAL = TAbs("Val")
STREAM = TAbs("Stream")


@method("abs:Row", "get", stmt="row.get(column) = the value of that column of the row (None, a value like any other, "
                               "when the column is absent)")
def _row_get(ex, st, base, node, basenode):
    c = ex.ev(st, node.args[0])
    if c.t != STR or len(node.args) != 1:
        raise Unsupported("Row.get(%s)" % c.t)
    f = ex.uf("row_field", ROW.sort(), STR.sort(), VAL.sort())
    return SV(VAL, f(base.z, c.z))

_orig_subscript3 = Lib.subscript


def _subscript3(self, ex, st, base, idx, node):
    if base.t == ROW and idx.t == STR:
        f = ex.uf("row_field", ROW.sort(), STR.sort(), VAL.sort())
        return SV(VAL, f(base.z, idx.z))
    return _orig_subscript3(self, ex, st, base, idx, node)


Lib.subscript = _subscript3


def stream_seq(ex, h):
    f = ex.uf("stream_seq", STREAM.sort(), TSeq(ROW).sort())
    return SV(TSeq(ROW), f(h.z))


_orig_next = Lib.b_next


def _b_next(self, ex, st, node):
    # peek at the argument type without evaluating twice: evaluate once here and dispatch
    a = node.args[0]
    it = ex.ev(st, a)
    if it.t == STREAM:
        cur = st.env.get("ghost_cursor")
        if cur is None:
            raise Unsupported("next() of a Stream needs the ghost map `ghost_cursor`")
        sq = stream_seq(ex, it)
        c = z3.Select(cur.z, it.z)
        n = ex.seq_len(sq)
        exhausted = c >= n
        g = z3.And(*(st.guards + [exhausted])) if st.guards else exhausted
        st.pending_exc.append((g, "StopIteration"))
        st.env["ghost_cursor"] = SV(cur.t, z3.Store(cur.z, it.z, z3.If(exhausted, c, c + 1)))
        ex.used_lib.add("iterator protocol: next(it) delivers the next element of the underlying sequence and "
                        "advances, or raises StopIteration when it is exhausted (ghost cursor)")
        return ex.seq_get(sq, c)
    return self._next_of_value(ex, st, node, it)


def _next_of_value(self, ex, st, node, it):
    a = node.args[0]
    if not isinstance(it.t, TIter):
        raise Unsupported("next() of %s" % it.t)
    sq, p = it.py["seq"], it.py["pos"]
    exhausted = p >= ex.seq_len(sq)
    g = z3.And(*(st.guards + [exhausted])) if st.guards else exhausted
    st.pending_exc.append((g, "StopIteration"))
    if isinstance(a, ast.Name):
        st.env[a.id] = SV(it.t, py={"seq": sq, "pos": p + 1})
    else:
        raise Unsupported("next() on a non-name iterator expression")
    return ex.seq_get(sq, p)


Lib.b_next = _b_next
Lib._next_of_value = _next_of_value


def b_stream_seq(self, ex, st, node):
    return stream_seq(ex, ex.ev(st, node.args[0]))


def b_keys(self, ex, st, node):
    d = ex.ev(st, node.args[0])
    return SV(d.t.keyseq, d.t.keys(d.z))


def b_score_of(self, ex, st, node):
    """spec: score_of(row, column) = float(row[column])"""
    r, c = ex.ev(st, node.args[0]), ex.ev(st, node.args[1])
    if isinstance(r.t, TOptT):
        r = SV(r.t.inner, r.t.val(r.z))
    f = ex.uf("row_field", ROW.sort(), STR.sort(), VAL.sort())
    g = ex.uf("float_of_Val", VAL.sort(), z3.RealSort())
    return SV(REAL, g(f(r.z, c.z)))


Lib.b_stream_seq = b_stream_seq
Lib.b_keys = b_keys
Lib.b_score_of = b_score_of


# ------------------------------------------------------------------------------------------------------------
# dict.keys() membership, and opaque finite sets of strings (C16): card / the single element / a joined string
@method("dict", "keys", stmt="")
def _dict_keys(ex, st, base, node, basenode):
    return SV(TPy("dictkeys"), py=base)


_orig_contains = _engine.Exec.contains


def _contains(self, st, container, item):
    if isinstance(container.t, TPy) and container.t.what == "dictkeys":
        d = container.py
        return z3.Select(d.t.has(d.z), self.coerce(item, d.t.k).z)
    return _orig_contains(self, st, container, item)


_engine.Exec.contains = _contains

STRSET = TAbs("StrSet")
_orig_len_value2 = Lib.len_value


def _len_value2(self, ex, st, v, node):
    if v.t == STRSET:
        c = ex.uf("strset_card", STRSET.sort(), z3.IntSort())(v.z)
        return SV(INT, c)
    return _orig_len_value2(self, ex, st, v, node)


Lib.len_value = _len_value2

_orig_iter = Lib.b_iter
_orig_next2 = Lib.b_next


def _b_next2(self, ex, st, node):
    a = node.args[0]
    # next(iter(s)) on an opaque set: SOME element of it (the element when it has exactly one)
    if isinstance(a, ast.Call) and isinstance(a.func, ast.Name) and a.func.id == "iter":
        inner = ex.ev(st, a.args[0])
        if inner.t == STRSET:
            ex.used_lib.add("next(iter(s)) on a set: some element of s (its only element when len(s) == 1)")
            return SV(STR, ex.uf("strset_any", STRSET.sort(), STR.sort())(inner.z))
        raise Unsupported("next(iter(%s))" % inner.t)
    return _orig_next2(self, ex, st, node)


Lib.b_next = _b_next2


def b_card(self, ex, st, node):
    v = ex.ev(st, node.args[0])
    return SV(INT, ex.uf("strset_card", STRSET.sort(), z3.IntSort())(v.z))


def b_any_of(self, ex, st, node):
    v = ex.ev(st, node.args[0])
    return SV(STR, ex.uf("strset_any", STRSET.sort(), STR.sort())(v.z))


def b_joined(self, ex, st, node):
    sep, v = ex.ev(st, node.args[0]), ex.ev(st, node.args[1])
    return SV(STR, ex.uf("strset_join", STR.sort(), STRSET.sort(), STR.sort())(sep.z, v.z))


def b_key_pos(self, ex, st, node):
    """spec: key_pos(d, k) = position of key k in the (insertion-ordered) key sequence of d"""
    d, k = ex.ev(st, node.args[0]), ex.ev(st, node.args[1])
    pos = ex.uf("dpos_" + d.t.key(), d.t.sort(), d.t.k.sort(), z3.IntSort())
    return SV(INT, pos(d.z, ex.coerce(k, d.t.k).z))


Lib.b_card = b_card
Lib.b_any_of = b_any_of
Lib.b_joined = b_joined
Lib.b_key_pos = b_key_pos

from . import libstr as _libstr  # noqa: E402,F401  (registers the str methods first)
from .lib import METHODS as _METHODS  # noqa: E402

_orig_m_join = _METHODS[("str", "join")][0]


def _m_join2(ex, st, base, node, basenode):
    parts = ex.ev(st, node.args[0])
    if parts.t == STRSET:
        ex.used_lib.add("sep.join(set of strings): the members joined in the set's iteration order (reads the hash "
                        "seed: an uninterpreted function of the set)")
        return SV(STR, ex.uf("strset_join", STR.sort(), STRSET.sort(), STR.sort())(base.z, parts.z))
    # re-dispatch on the original implementation without evaluating the argument twice
    return _join_evaluated(ex, st, base, parts)


def _join_evaluated(ex, st, base, parts):
    r = _libstr.do_join(ex, st, base, parts)
    for name, v in list(st.env.items()):
        if v.t == STR and name.startswith("sep"):
            _libstr.join_no_other_sep(ex, st, base, parts, v)
    return r


_METHODS[("str", "join")] = (_m_join2, "")


# ------------------------------------------------------------------------------------------------------------
# String-keyed records (python dicts used as records, C20): `rec` values live in the environment field by field,
# under "<name>[<literal key>]".  Only literal keys are tracked; a store under a computed key is assumed not to
# hit a tracked key (stated assumption) and is otherwise ignored.
class TRec(TPy):
    def __init__(self):
        TPy.__init__(self, "rec")

    def make_param(self, ex, st, name):
        return SV(self, py={"name": name})


REC = TRec()
from . import types as _types2  # noqa: E402
_prev_parse = _types2.parse_type


def _parse_type_rec(s):
    if s.strip() == "rec":
        return REC
    return _prev_parse(s)


_types2.parse_type = _parse_type_rec
_engine.parse_type = _parse_type_rec
import pyvc.lib as _libmod  # noqa: E402
_libmod.parse_type = _parse_type_rec
try:
    import pyvc.libbio as _lb  # noqa: E402
    _lb.parse_type2 = _parse_type_rec
except Exception:
    pass


def _rec_key(node):
    if isinstance(node, ast.Constant) and isinstance(node.value, str):
        return node.value
    return None


_orig_ev_subscript = _engine.Exec.ev_Subscript


def _ev_subscript_rec(self, st, node):
    if isinstance(node.value, ast.Name) and node.value.id in st.env and st.env[node.value.id].t is REC:
        k = _rec_key(node.slice)
        if k is None:
            raise Unsupported("record read under a computed key")
        full = "%s[%s]" % (st.env[node.value.id].py["name"], k)
        if full not in st.env and full in self.c.locals and node.value.id in list(self.c.params) + list(self.c.free):
            # a declared field of a record that comes from outside: an arbitrary value of the declared type
            v = self.const(full.replace("[", "_").replace("]", ""), _engine.parse_type(self.c.locals[full]))
            for w in self.wf(v):
                st.hyps.append(w)
            st.env[full] = v
            st.old.setdefault(full, v)
        if full not in st.env:
            raise Unsupported("record field %s is not tracked" % full)
        return st.env[full]
    return _orig_ev_subscript(self, st, node)


_engine.Exec.ev_Subscript = _ev_subscript_rec

_orig_assign_to = _engine.Exec.assign_to


def _assign_to_rec(self, st, target, val, node):
    if isinstance(target, ast.Subscript) and isinstance(target.value, ast.Name) and \
            target.value.id in st.env and st.env[target.value.id].t is REC:
        k = _rec_key(target.slice)
        name = st.env[target.value.id].py["name"]
        if k is None:
            self.used_lib.add("record store under a computed key does not overwrite a tracked (reserved) key")
            self.ev(st, target.slice)
            return
        full = "%s[%s]" % (name, k)
        if full in self.c.locals:
            val = self.coerce_decl(st, val, _parse_type_rec(self.c.locals[full]))
        st.env[full] = val
        return
    if isinstance(target, ast.Name) and val.t is REC and val.py["name"] != target.id:
        # copy of a record: the tracked fields are copied (values are immutable under the encoding)
        src = val.py["name"]
        for key in [k_ for k_ in list(st.env) if k_.startswith(src + "[")]:
            st.env[target.id + key[len(src):]] = st.env[key]
        st.env[target.id] = SV(REC, py={"name": target.id})
        return
    return _orig_assign_to(self, st, target, val, node)


_engine.Exec.assign_to = _assign_to_rec


@method("py:rec", "copy", stmt="")
def _rec_copy(ex, st, base, node, basenode):
    return base


_orig_rebind = None
from . import libnp as _libnp  # noqa: E402
_orig_rebind = _libnp._rebind


def _rebind_rec(ex, st, basenode, new):
    if isinstance(basenode, ast.Subscript) and isinstance(basenode.value, ast.Name) and \
            basenode.value.id in st.env and st.env[basenode.value.id].t is REC:
        k = _rec_key(basenode.slice)
        if k is None:
            raise Unsupported("mutation of a record field under a computed key")
        st.env["%s[%s]" % (st.env[basenode.value.id].py["name"], k)] = new
        return
    return _orig_rebind(ex, st, basenode, new)


_libnp._rebind = _rebind_rec

# XML elements ------------------------------------------------------------------------------------------------
ELEM = TAbs("Elem")


def b_attr(self, ex, st, node):
    """spec: attr(elem, name) -> opt[str]"""
    e, n = ex.ev(st, node.args[0]), ex.ev(st, node.args[1])
    t = TOptT(STR)
    return SV(t, ex.uf("xml_attr", ELEM.sort(), STR.sort(), t.sort())(e.z, n.z))


def b_first_token(self, ex, st, node):
    """spec: first_token(s) = s.split(' ')[0]"""
    s = ex.unwrap(st, ex.ev(st, node.args[0]), node, "string")
    sp = _libstr.do_split(ex, st, s, ex.strlit(" "))
    return ex.seq_get(sp, z3.IntVal(0))


def b_tag_has(self, ex, st, node):
    e, n = ex.ev(st, node.args[0]), ex.ev(st, node.args[1])
    return SV(BOOL, ex.uf("str_contains", STR.sort(), STR.sort(), z3.BoolSort())(
        ex.uf("xml_tag", ELEM.sort(), STR.sort())(e.z), n.z))


def b_descendants(self, ex, st, node):
    e = ex.ev(st, node.args[0])
    return SV(TSeq(ELEM), ex.uf("xml_iter3", ELEM.sort(), TSeq(ELEM).sort())(e.z))


def b_xml_iter(self, ex, st, node):
    """spec: xml_iter(elem, 'query') = list(elem.iter('query')), the matching descendants in document order"""
    import hashlib as _hl
    e = ex.ev(st, node.args[0])
    q = node.args[1].value
    r = SV(TSeq(ELEM), ex.uf("xml_iter_" + _hl.md5(q.encode()).hexdigest()[:8], ELEM.sort(), TSeq(ELEM).sort())(e.z))
    ex.assume(st, r.t.len(r.z) >= 0)
    return r


Lib.b_xml_iter = b_xml_iter
Lib.b_attr = b_attr
Lib.b_first_token = b_first_token
Lib.b_tag_has = b_tag_has
Lib.b_descendants = b_descendants


@method("abs:Elem", "get", stmt="lxml: element.get(name) is the attribute value, or None when absent")
def _elem_get(ex, st, base, node, basenode):
    n = ex.ev(st, node.args[0])
    t = TOptT(STR)
    return SV(t, ex.uf("xml_attr", ELEM.sort(), STR.sort(), t.sort())(base.z, n.z))


@method("abs:Elem", "iter", stmt="lxml: element.iter(*tags) yields the matching descendants in document order")
def _elem_iter(ex, st, base, node, basenode):
    # only the three-query form of _parse_psm is given a named result (xml_iter3); other calls are opaque lists
    import hashlib as _hl
    if len(node.args) == 1 and isinstance(node.args[0], ast.Starred):
        key = "xml_iter3"
    elif len(node.args) == 1 and isinstance(node.args[0], ast.Constant) and isinstance(node.args[0].value, str):
        key = "xml_iter_" + _hl.md5(node.args[0].value.encode()).hexdigest()[:8]     # = spec xml_iter(e, 'query')
    else:
        key = "xml_iter_" + _hl.md5(ast.unparse(node).encode()).hexdigest()[:8]
    r = SV(TSeq(ELEM), ex.uf(key, ELEM.sort(), TSeq(ELEM).sort())(base.z))
    ex.assume(st, r.t.len(r.z) >= 0)
    return r


_orig_attribute3 = Lib.attribute


def _attribute3(self, ex, st, base, attr, node):
    if base.t == ELEM and attr == "tag":
        return SV(STR, ex.uf("xml_tag", ELEM.sort(), STR.sort())(base.z))
    return _orig_attribute3(self, ex, st, base, attr, node)


Lib.attribute = _attribute3

_orig_contains2 = _engine.Exec.contains


def _contains2(self, st, container, item):
    if container.t == STR and item.t == STR:
        return self.uf("str_contains", STR.sort(), STR.sort(), z3.BoolSort())(container.z, item.z)
    return _orig_contains2(self, st, container, item)


_engine.Exec.contains = _contains2

# int()/float() of an optional string: TypeError when None
_orig_b_int = Lib.b_int
_orig_b_float = Lib.b_float


def _b_int2(self, ex, st, node):
    a = ex.ev(st, node.args[0])
    if isinstance(a.t, TOptT) and a.t.inner == STR:
        none = a.t.is_none(a.z)
        g = z3.And(*(st.guards + [none])) if st.guards else none
        st.pending_exc.append((g, "TypeError"))
        return SV(INT, ex.uf("int_of_str", STR.sort(), z3.IntSort())(a.t.val(a.z)))
    return self._int_of_value(ex, st, a)


def _int_of_value(self, ex, st, a):
    if a.t in (INT, BOOL):
        return SV(INT, ex.to_int(a))
    if a.t == STR:
        return SV(INT, ex.uf("int_of_str", STR.sort(), z3.IntSort())(a.z))
    raise Unsupported("int() of %s" % a.t)


def _b_float2(self, ex, st, node):
    a = ex.ev(st, node.args[0])
    if isinstance(a.t, TOptT) and a.t.inner == STR:
        none = a.t.is_none(a.z)
        g = z3.And(*(st.guards + [none])) if st.guards else none
        st.pending_exc.append((g, "TypeError"))
        return SV(REAL, ex.uf("float_of_str", STR.sort(), z3.RealSort())(a.t.val(a.z)))
    if a.t in (INT, BOOL, REAL):
        return SV(REAL, ex.to_real(a))
    if a.t == STR:
        return SV(REAL, ex.uf("float_of_str", STR.sort(), z3.RealSort())(a.z))
    if isinstance(a.t, TAbs):
        return SV(REAL, ex.uf("float_of_" + a.t.name, a.t.sort(), z3.RealSort())(a.z))
    raise Unsupported("float() of %s" % a.t)


Lib.b_int = _b_int2
Lib._int_of_value = _int_of_value
Lib.b_float = _b_float2
