"""ASSUMED contracts of I/O-like objects, modelled with ghost state (DESIGN.md 2.4):
  * a wrapped TabularDataWriter: ghost field `<expr>.sink` (list[Row]) = the rows that reached it, in order;
    append_data(rows) appends (frames, lists of dicts and record arrays are all `Seq Row` under the encoding)
  * pandas: DataFrame(records) / df.copy() / .iloc = identity on the row sequence; pd.concat(axis=0) appends rows
"""
import ast
import z3

from .types import INT, REAL, BOOL, STR, NONE, TSeq, TAbs, SV, parse_type
from .lib import libfn, method, LIB
from .engine import Unsupported

ROW = TAbs("Row")


@method("abs", "append_data", stmt="writer.append_data(rows) appends the rows, in order, to what the writer holds "
                                   "(ghost `sink`); nothing else changes")
def _append_data(ex, st, base, node, basenode):
    key = ast.unparse(basenode) + ".sink"
    if key not in st.env:
        raise Unsupported("no ghost sink declared for %s" % ast.unparse(basenode))
    data = ex.ev(st, node.args[0])
    sink = st.env[key]
    if not isinstance(data.t, TSeq) or data.t.elem != sink.t.elem:
        raise Unsupported("append_data of %s" % data.t)
    st.env[key] = ex.seq_concat(st, sink, SV(sink.t, data.z))
    return SV(NONE)


@libfn("pd.DataFrame", stmt="pd.DataFrame(records) holds the records as rows, in order")
def _dataframe(ex, st, node):
    a = ex.ev(st, node.args[0])
    if isinstance(a.t, TSeq):
        return a
    raise Unsupported("pd.DataFrame(%s)" % a.t)


@method("seq", "iloc", stmt="")
def _iloc(ex, st, base, node, basenode):
    raise Unsupported("iloc call")


@libfn("pd.concat", stmt="pd.concat([a, b, ...], axis=0) = the rows of a, then b, ... in order")
def _concat(ex, st, node):
    lst = node.args[0]
    if isinstance(lst, (ast.List, ast.Tuple)):
        parts = [ex.unwrap(st, ex.ev(st, e), node, "frame passed to pd.concat") for e in lst.elts]
        r = parts[0]
        for p in parts[1:]:
            r = ex.seq_concat(st, r, SV(r.t, p.z))
        return r
    raise Unsupported("pd.concat of a non-literal list")


_orig_attr = LIB.attribute.__func__ if hasattr(LIB.attribute, "__func__") else None


def _attribute(self, ex, st, base, attr, node):
    if isinstance(base.t, TSeq) and attr == "iloc":
        ex.used_lib.add("df.iloc[a:b] = the consecutive rows a..b-1 (with their running index)")
        return base
    return _orig_attr(self, ex, st, base, attr, node)


type(LIB).attribute = _attribute


@method("seq", "copy", stmt="")
def _copy(ex, st, base, node, basenode):
    return base
