"""Frame (`reads`) obligations for C08 (DESIGN.md 4.C08): which sources of run-to-run nondeterminism may a
function on the seeded path read?  Each library call is TAGGED with the ghost source it reads; a tagged read that
is not declared in the function's frame is a failing obligation.

  GLOBAL_RNG  module-level numpy / random state:   np.random.<fn>(...)  (except default_rng / Generator /
              SeedSequence), random.<fn>(...), DataFrame.sample(...) / rng.choice-like calls WITHOUT a generator
  ENTROPY     np.random.default_rng() with no argument (fresh OS entropy)
  HASHSEED    builtin hash(...), iteration order of a set: list(set..), sorted-less `for x in set(...)`,
              "sep".join(<set expression>)
  FSORDER     directory listing order:  .glob( / .rglob( / os.listdir( / os.scandir( without sorted(...)
The analysis is syntactic (ast of the current source); it over-approximates (a flagged read may be harmless):
harmless reads are DECLARED in the frame with their justification, so a new one still fails."""
import ast

GLOBAL_RNG_OK = {"default_rng", "Generator", "SeedSequence", "PCG64", "RandomState", "BitGenerator"}


def _dotted(node):
    try:
        return ast.unparse(node)
    except Exception:
        return ""


def _is_setish(node):
    """expression that syntactically denotes a set: set(...), {a, b}, set comprehension, x | y of such, x - y ..."""
    if isinstance(node, ast.Call) and isinstance(node.func, ast.Name) and node.func.id in ("set", "frozenset"):
        return True
    if isinstance(node, (ast.Set, ast.SetComp)):
        return True
    if isinstance(node, ast.BinOp) and isinstance(node.op, (ast.BitOr, ast.BitAnd, ast.Sub, ast.BitXor)):
        return _is_setish(node.left) or _is_setish(node.right)
    return False


def tagged_reads(fn):
    """-> list of (tag, line, source text)"""
    out = []
    parents = {}
    for n in ast.walk(fn):
        for ch in ast.iter_child_nodes(n):
            parents[id(ch)] = n
    for n in ast.walk(fn):
        if isinstance(n, ast.Call):
            name = _dotted(n.func)
            parts = name.split(".")
            if len(parts) >= 3 and parts[-3:-1] == ["np", "random"] or name.startswith(("np.random.", "numpy.random.")):
                last = parts[-1]
                if last not in GLOBAL_RNG_OK:
                    out.append(("GLOBAL_RNG", n.lineno, _dotted(n)[:80]))
                elif last == "default_rng" and not n.args and not n.keywords:
                    out.append(("ENTROPY", n.lineno, _dotted(n)[:80]))
            elif name.startswith("random.") and name.count(".") == 1:
                out.append(("GLOBAL_RNG", n.lineno, _dotted(n)[:80]))
            elif name == "hash":
                out.append(("HASHSEED", n.lineno, _dotted(n)[:80]))
            elif parts[-1] in ("glob", "rglob", "listdir", "scandir", "iterdir"):
                p = parents.get(id(n))
                if not (isinstance(p, ast.Call) and _dotted(p.func) == "sorted"):
                    out.append(("FSORDER", n.lineno, _dotted(n)[:80]))
            elif parts[-1] == "sample" and len(parts) >= 2:
                kws = {k.arg for k in n.keywords}
                if "random_state" not in kws:
                    out.append(("GLOBAL_RNG", n.lineno, _dotted(n)[:80]))
            elif parts[-1] in ("shuffle", "permutation", "choice") and len(parts) >= 2 and parts[-2] in ("random",):
                out.append(("GLOBAL_RNG", n.lineno, _dotted(n)[:80]))
            # list(<set>) / tuple(<set>) / "x".join(<set>)
            if isinstance(n.func, ast.Name) and n.func.id in ("list", "tuple") and n.args and _is_setish(n.args[0]):
                out.append(("HASHSEED", n.lineno, _dotted(n)[:80]))
            if isinstance(n.func, ast.Attribute) and n.func.attr == "join" and n.args and _is_setish(n.args[0]):
                out.append(("HASHSEED", n.lineno, _dotted(n)[:80]))
        elif isinstance(n, (ast.For, ast.comprehension)):
            it = n.iter
            if _is_setish(it):
                out.append(("HASHSEED", getattr(n, "lineno", getattr(it, "lineno", 0)), "for ... in " + _dotted(it)[:60]))
    return out
