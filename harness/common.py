"""Shared plumbing of the bounded harness: counting, samples, JSON output, environment shims."""
import argparse
import hashlib
import json
import os
import random
import sys
import time
import warnings

warnings.filterwarnings("ignore")
REPO = os.environ.get("MOKAPOT_REPO", "/repo")
if REPO not in sys.path:
    sys.path.insert(0, REPO)


class Check:
    def __init__(self, name, function, bound, rule):
        self.name = name
        self.function = function
        self.bound = bound
        self.rule = rule
        self.evaluations = 0
        self.distinct = set()
        self.samples = []
        self.violations = []
        self.t0 = time.time()
        self.cases_seen = set()

    def case(self, key, nontrivial=True):
        self.evaluations += 1
        if nontrivial:
            self.distinct.add(hashlib.md5(repr(key).encode()).digest()[:8])
        if len(self.samples) < 3 and nontrivial:
            self.samples.append(_short(key))

    def violation(self, case, what, inputs):
        """case: a short stable identifier of the class of failing input (used by known_findings.json)."""
        if (case, what) in self.cases_seen and len(self.violations) >= 3:
            return
        self.cases_seen.add((case, what))
        if len(self.violations) < 5:
            self.violations.append({"case": case, "what": what, "input": _short(inputs, 2000)})

    def result(self):
        return {"name": self.name, "function": self.function, "bound": self.bound, "rule": self.rule,
                "evaluations": self.evaluations, "distinct_nontrivial": len(self.distinct),
                "samples": self.samples, "violations": self.violations,
                "wall_s": round(time.time() - self.t0, 2)}


def _short(x, n=400):
    try:
        s = json.dumps(x, default=str)
    except Exception:
        s = repr(x)
    if len(s) > n:
        return s[:n] + "..."
    return json.loads(s) if n == 400 else s


def args():
    ap = argparse.ArgumentParser()
    ap.add_argument("--tier", default="quick")
    ap.add_argument("--seed", type=int, default=0)
    a = ap.parse_args()
    random.seed(a.seed)
    return a


def emit(checks, assumptions=()):
    out = {"checks": [c.result() for c in checks], "assumptions": list(assumptions)}
    print(json.dumps(out, default=str))
    sys.exit(1 if any(c.violations for c in checks) else 0)
