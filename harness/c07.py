"""C07 bounded stand-in: best-feature safety net of mokapot.brew.brew and the direction clause of
mokapot.confidence.assign_confidence.

Oracle (property text): unless Model.override is set, the scores returned by brew either (a) are the column values
of one input feature for every file, with descs giving that feature's better direction, or (b) accept, at test_fdr,
at least as many genuine targets as the best single feature accepted (at train_fdr) on the training rows of a fold.
An exception is not a silent degradation, but only the documented ones are tolerated. assign_confidence with
descs=[False] must keep the LOWEST scoring PSM of every spectrum and rank low scores first.
q-values are recomputed from the definition with exact fractions; only label value 1 / True counts as target.
mokapot.dataset.update_labels, the counter brew applies to the learned scores, must label at the eval_fdr it is given
(brew passes test_fdr): checked directly on generated files and through brew runs with test_fdr far from 0.01.
"The best single feature" is the one of the fold with the LARGEST count: the fold-layout cases (build_fold_frames) make the
folds disagree about it (another feature, the other direction, or only another count) with the weakest fold at any position.
Feature columns may be integer-typed (build_int_frames): small integers and integers beyond 2**24 that float32 cannot
separate; for those every oracle count compares the integers exactly (oriented()), never through a floating-point type.
"""
import json
import logging
import traceback
import warnings
from fractions import Fraction

import numpy as np
import pandas as pd
from sklearn.base import BaseEstimator

from harness.common import Check, args, emit
from harness.datasets import scratch, make_ds

logging.disable(logging.CRITICAL)
warnings.filterwarnings("ignore")

FEATS = ["f0", "f1", "f2"]       # f0 separates, f1 noise, f2 = globally unique row id
ENCODINGS = {"1/-1": (1, -1), "1/0": (1, 0), "bool": (True, False)}
EXPECTED = ("desc-false-ignored", "direction-best-feat-values")


# ------------------------------------------------------------------------------------------------ estimators
class _Base(BaseEstimator):
    def __init__(self, sign=1.0):
        self.sign = sign

    def fit(self, X, y):
        self.seen_ = set(int(v) for v in np.asarray(X)[:, 2])
        return self


class ConstDec(_Base):                      # cannot learn: constant output
    def decision_function(self, X):
        return np.zeros(len(X))


class ConstProba(_Base):
    def predict_proba(self, X):
        return np.zeros((len(X), 2))


class InvertedDec(_Base):                   # minus the best feature (in its good direction)
    def decision_function(self, X):
        return -2.0 * self.sign * np.asarray(X, dtype=float)[:, 0] + 0.5


class MemoProba(_Base):                     # perfect on the rows it was fitted on, inverted on unseen rows
    def predict_proba(self, X):
        X = np.asarray(X, dtype=float)
        seen = np.array([int(v) in self.seen_ for v in X[:, 2]])
        s = 2.0 * np.where(seen, 1.0, -1.0) * self.sign * X[:, 0] + 0.5
        return np.column_stack([-s, s])


class GoodDec(_Base):                       # as good as the best feature
    def decision_function(self, X):
        return 2.0 * self.sign * np.asarray(X, dtype=float)[:, 0] + 0.5


class GoodProba(_Base):
    def predict_proba(self, X):
        s = 2.0 * self.sign * np.asarray(X, dtype=float)[:, 0] + 0.5
        return np.column_stack([-s, s])


class LossyMemoProba(_Base):
    """reproduces the best feature on the rows it was fitted on; on unseen rows it does so too, except that the rows whose
    id falls into `loss` of 16 residue classes are pushed below everything (passes training, worse on held-out rows)"""

    def __init__(self, sign=1.0, loss=6):
        self.sign = sign
        self.loss = loss

    def predict_proba(self, X):
        X = np.asarray(X, dtype=float)
        ids = X[:, 2].astype(np.int64)
        seen = np.array([int(v) in self.seen_ for v in ids])
        lost = ~seen & ((ids * 7919) % 16 < int(self.loss))
        s = np.where(lost, -1000.0, 2.0 * self.sign * X[:, 0] + 0.5)
        return np.column_stack([-s, s])


ESTIMATORS = {"const-dec": ConstDec, "const-proba": ConstProba, "inverted-dec": InvertedDec, "memo-proba": MemoProba,
              "good-dec": GoodDec, "good-proba": GoodProba}
# used by the fold-layout cases only (kept out of ESTIMATORS: the random configurations draw from that dict)
ALL_ESTIMATORS = dict(ESTIMATORS, **{"lossy-memo-proba": LossyMemoProba})


# ------------------------------------------------------------------------------------------------ q-value oracle
def oriented(scores, desc=True):
    """the scores on the scale in which higher is better. Integer-typed scores stay integers (int64: compared exactly,
    never through a floating-point type; the generated integer features are below 2**52 in magnitude), everything else
    is float64."""
    a = np.asarray(scores).ravel()
    if a.dtype.kind in "iu":
        a = a.astype(np.int64)
        return a if desc else -a
    return np.asarray(a, dtype=float) * (1.0 if desc else -1.0)


def qvalues(scores, is_target, desc=True):
    """q(s) = min over thresholds t no better than s of (decoys at least as good as t + 1) / (targets ...), <= 1."""
    s = oriented(scores, desc)
    tgt = np.asarray(is_target, dtype=bool)
    out, run = {}, Fraction(1)
    for t in sorted(set(s.tolist())):
        nt = int((tgt & (s >= t)).sum())
        nd = int((~tgt & (s >= t)).sum())
        run = min(run, Fraction(nd + 1, nt) if nt else Fraction(1))
        out[t] = run
    return [out[v] for v in s.tolist()]


def accept_cut(scores, is_target, fdr, desc=True):
    """(cut, targets accepted): a PSM has q <= fdr exactly when some score value v no better than its own has
    (decoys at least as good as v + 1) / (targets at least as good as v) <= fdr, so the accepted PSMs are those at
    least as good as the WORST such value v (the cut, on the scale in which higher is better; None: nothing accepted).
    Integer arithmetic only ((D + 1) * den <= num * T with fdr = num/den exactly as the float says); q-values never
    exceed 1, so fdr >= 1 accepts everything. Same function of the inputs as counting qvalues() <= fdr, without the
    quadratic cost. Integer-typed scores are sorted and compared as integers (oriented())."""
    s = oriented(scores, desc)
    tgt = np.asarray(is_target, dtype=bool).ravel()
    if not len(s):
        return None, 0
    thr = Fraction(fdr)
    order = np.argsort(-s, kind="stable")
    ss = s[order]
    ends = np.flatnonzero(np.append(ss[1:] != ss[:-1], True))         # last row of every group of equal scores
    nts = np.cumsum(tgt[order])[ends].tolist()
    nds = np.cumsum(~tgt[order])[ends].tolist()
    vals = ss[ends].tolist()
    if thr >= 1:
        return vals[-1], nts[-1]
    cut, acc = None, 0
    for v, nt, nd in zip(vals, nts, nds):
        if nt and (nd + 1) * thr.denominator <= thr.numerator * nt:
            cut, acc = v, nt
    return cut, acc


def n_accepted(scores, is_target, fdr, desc=True):
    return accept_cut(scores, is_target, fdr, desc)[1]


def expected_labels(scores, is_target, fdr, desc=True):
    """+1 genuine targets with q <= fdr, 0 the other targets, -1 decoys"""
    s = oriented(scores, desc)
    tgt = np.asarray(is_target, dtype=bool).ravel()
    cut = accept_cut(scores, is_target, fdr, desc)[0]
    lab = np.where(tgt, 0, -1)
    if cut is not None:
        lab[tgt & (s >= cut)] = 1
    return lab


def is_target_col(col):
    """genuine targets: label 1 or True; -1, 0, False are decoys"""
    return np.array([bool(v) if isinstance(v, (bool, np.bool_)) else int(v) == 1 for v in col.tolist()])


# ------------------------------------------------------------------------------------------------ datasets
def build_block_frames(c):
    """c['blocks']: per file a list of [n, is_target, lo, hi]: n PSMs (one per spectrum) of that class with f0 uniform in
    [lo, hi] on the scale in which higher is better (negated for a lower-is-better f0), rows shuffled; f1 noise,
    f2 = globally unique row id."""
    rng = np.random.default_rng(c["data_seed"])
    pos, neg = ENCODINGS[c["encoding"]]
    frames, rid = [], 0
    for blocks in c["blocks"]:
        f0 = np.concatenate([rng.uniform(lo, hi, int(n)) for n, t, lo, hi in blocks])
        tgt = np.concatenate([np.full(int(n), bool(t)) for n, t, lo, hi in blocks])
        if c.get("ties"):
            f0 = np.round(f0, 1)
        perm = rng.permutation(len(f0))
        f0, tgt = f0[perm], tgt[perm]
        n = len(f0)
        ids = np.arange(rid, rid + n)
        df = pd.DataFrame(dict(SpecId=ids, Label=[pos if t else neg for t in tgt], ScanNr=np.arange(n),
                               ExpMass=100.0 + np.arange(n), f0=-f0 if c["lower"] else f0, f1=rng.normal(size=n),
                               f2=ids, Peptide=["PEP%dK" % i for i in ids], Proteins=["prot%d" % (i % 4) for i in range(n)]))
        if c["encoding"] == "bool":
            df["Label"] = df["Label"].astype(bool)
        frames.append(df)
        rid += n
    return frames


def build_fold_frames(c):
    """c['layout']: data whose best single feature differs between the cross-validation folds. One PSM per spectrum; the
    test fold of every row is read from the split of a skeleton file (it depends on the spectrum columns only), then the
    features are filled in by fold. f0 ~ N(0,1) (on the scale in which higher is better; negated for a lower-is-better f0),
    f1 ~ N(0,1), f2 = row id.
    kind 'switch': targets of test fold `poor` get f0 ~ N(8,1) with probability `rich` (only the models of the OTHER folds
    train on them; the model of fold `poor` sees an uninformative f0), and every target gets with probability `weak_frac`
    a good value of the weak feature: weak='f1': f1 ~ N(8,1) towards the end opposite to f0's good end; weak='f0': f0 ~
    N(-8,1), beyond every decoy at the BAD end of f0 (same feature, other direction).
    kind 'graded': targets of test fold i get f0 ~ N(8,1) with probability fracs[i]: every fold's model starts from f0
    in the same direction, with different counts."""
    from harness.datasets import scratch as _scratch
    rng = np.random.default_rng(c["data_seed"])
    pos, neg = ENCODINGS[c["encoding"]]
    lay = c["layout"]
    frames, rid = [], 0
    for n in c["n_spec"]:
        ids = np.arange(rid, rid + n)
        rid += n
        tgt = rng.random(n) < 0.5
        df = pd.DataFrame(dict(SpecId=ids, Label=[pos if t else neg for t in tgt], ScanNr=np.arange(n),
                               ExpMass=100.0 + np.arange(n), f0=0.0, f1=0.0, f2=ids, Peptide=["PEP%dK" % i for i in ids],
                               Proteins=["prot%d" % (i % 4) for i in range(n)]))
        if c["encoding"] == "bool":
            df["Label"] = df["Label"].astype(bool)
        with _scratch("c07f_") as d:
            split = make_ds(df, d / "skel.parquet")._split(c["folds"], np.random.default_rng(0))
        fold = np.full(n, -1)
        for i, rows in enumerate(split):
            fold[np.asarray(rows, dtype=int)] = i
        f0, f1 = rng.normal(size=n), rng.normal(size=n)
        u, v = rng.random(n), rng.random(n)
        g0, g1 = rng.normal(8.0, 1.0, n), rng.normal(8.0, 1.0, n)
        if lay["kind"] == "switch":
            rich = tgt & (fold == lay["poor"]) & (u < lay["rich"])
            weak = tgt & ~rich & (v < lay["weak_frac"])
            f0[rich] = g0[rich]
            if lay["weak"] == "f1":
                f1[weak] = g1[weak] * (1.0 if c["lower"] else -1.0)     # file scale: the end opposite to f0's good end
            else:
                f0[weak] = -g1[weak]
        else:
            good = tgt & (u < np.asarray(lay["fracs"], dtype=float)[fold])
            f0[good] = g0[good]
        df["f0"] = -f0 if c["lower"] else f0
        df["f1"] = f1
        frames.append(df)
    return frames


INT_DTYPES = {"int32": 30, "uint32": 31, "int64": 48, "uint64": 48}      # largest power of two used as the base


def build_int_frames(c):
    """c['int_feat'] = dict(dtype, log2 (None: small values), mult, negate): f0 is an INTEGER-typed column (Parquet keeps the
    dtype, text files are parsed back to int64) and the best single feature; one row per (spectrum, k), 50% targets, 65% of
    them good. A latent score ~ N(4,1) (good) / N(0,1) ranks the rows; row of rank r gets the r-th smallest of n distinct
    offsets (one drawn in each of n consecutive windows of width span // n), so f0 is strictly monotone in the latent score.
    f0 = base + offset with base drawn in [2**log2, 1.5 * 2**log2) and span = max(n, mult * 2**(log2 - 23)) (2**(log2 - 23)
    is the distance of neighbouring float32 values at the base: mult = 0.5 puts nearly all rows between two neighbouring
    float32 values, mult = 4 / 32 spread them over about 4 / 32 of them, log2 = 24..26 with span = n makes only neighbours
    indistinguishable); log2 = None: base 0, span 4n (small integers, exact in every float type). Lower-is-better: the offsets
    are mirrored (span - 1 - offset) or, signed dtypes with negate, the whole value is negated. f1 ~ N(0,1) and N(8,1) for
    every fourth good target (a WEAK second feature that accepts something), f2 = row id."""
    rng = np.random.default_rng(c["data_seed"])
    pos, neg = ENCODINGS[c["encoding"]]
    spec = c["int_feat"]
    frames, rid = [], 0
    for n_spec in c["n_spec"]:
        n = n_spec * c["dup"]
        tgt = rng.random(n) < 0.5
        good = tgt & (rng.random(n) < 0.65)
        z = rng.normal(np.where(good, 4.0, 0.0), 1.0)
        if spec["log2"] is None:
            base, span = 0, 4 * n
        else:
            base = 2 ** spec["log2"] + int(rng.integers(0, 2 ** (spec["log2"] - 1)))
            span = max(n, int(spec["mult"] * 2 ** (spec["log2"] - 23)))
        step = span // n
        offs = np.arange(n, dtype=np.int64) * step + rng.integers(0, step, n)        # distinct, increasing
        val = offs[np.argsort(np.argsort(z, kind="stable"), kind="stable")]           # higher latent score, higher offset
        if c["lower"] and spec.get("negate"):
            f0 = [-(base + int(v)) for v in val]
        elif c["lower"]:
            f0 = [base + (span - 1 - int(v)) for v in val]
        else:
            f0 = [base + int(v) for v in val]
        f1 = rng.normal(size=n)
        strong = np.flatnonzero(good)[::4]
        f1[strong] = rng.normal(8.0, 1.0, len(strong))
        ids = np.arange(rid, rid + n)
        scan = np.repeat(np.arange(n_spec), c["dup"])
        df = pd.DataFrame(dict(SpecId=ids, Label=[pos if t else neg for t in tgt], ScanNr=scan, ExpMass=100.0 + scan,
                               f0=np.array(f0, dtype=spec["dtype"]), f1=f1, f2=ids, Peptide=["PEP%dK" % i for i in ids],
                               Proteins=["prot%d" % (i % 4) for i in scan]))
        assert df["f0"].tolist() == f0
        if c["encoding"] == "bool":
            df["Label"] = df["Label"].astype(bool)
        frames.append(df)
        rid += n
    return frames


def int_collapses(c):
    """does some file of the case hold different f0 integers with the same float32 value? (reported in the rule only)"""
    return any(len(set(np.float32(v) for v in fr["f0"].tolist())) < len(set(fr["f0"].tolist())) for fr in build_int_frames(c))


def feat_col(frame, f):
    """the values of feature f for the oracle: integer-typed columns as int64 (exact), everything else as float64"""
    col = frame[f].to_numpy()
    return col.astype(np.int64) if col.dtype.kind in "iu" else frame[f].to_numpy(dtype=float)


def same_values(scores, col):
    """are the returned scores the values of this column? Integer-typed columns: exactly (the generated integers are below
    2**52, so a float64 copy is exact as well); other columns: up to the text parser's last digit"""
    s = np.asarray(scores).ravel()
    if col.dtype.kind in "iu":
        if len(s) != len(col):
            return False
        if s.dtype.kind in "iu":
            return bool(np.array_equal(s.astype(np.int64), col))
        return bool(np.array_equal(np.asarray(s, dtype=float), col.astype(np.float64)))
    return bool(np.allclose(np.asarray(s, dtype=float), col, rtol=1e-12, atol=1e-12))


def build_frames(c):
    if c.get("int_feat"):
        return build_int_frames(c)
    if c.get("layout"):
        return build_fold_frames(c)
    if c.get("blocks"):
        return build_block_frames(c)
    rng = np.random.default_rng(c["data_seed"])
    pos, neg = ENCODINGS[c["encoding"]]
    frames, rid = [], 0
    for n_spec in c["n_spec"]:
        rows, plain = [], []
        for s in range(n_spec):
            for k in range(c["dup"]):
                tgt = bool(rng.random() < c.get("p_target", 0.5)) if c.get("p_target") else (s + k) % 2 == 0
                good = tgt and rng.random() < 0.65
                f0 = float(rng.normal(4.0 if good else 0.0, 1.0))
                if c.get("ties") and k > 0 and rng.random() < 0.3:
                    f0 = rows[-1]["f0"] * (-1.0 if c["lower"] else 1.0)     # equal scores inside one spectrum
                if tgt and not good:
                    plain.append(len(rows))
                rows.append(dict(SpecId=rid, Label=pos if tgt else neg, ScanNr=s, ExpMass=100.0 + s,
                                 f0=-f0 if c["lower"] else f0, f1=float(rng.normal()), f2=rid,
                                 Peptide="PEP%dK" % rid, Proteins="prot%d" % (s % 4)))
                rid += 1
        # wrong-end outliers: genuine targets without a good score are moved beyond every decoy at the BAD end of f0,
        # spread evenly over the file, so that f0 ranked the wrong way still accepts a few PSMs (no random draw is used:
        # cases without the option are unchanged)
        n_out = min(int(c.get("outliers", 0)), len(plain))
        for j in range(n_out):
            rows[plain[(j * len(plain)) // n_out]]["f0"] = (20.0 + j) * (1.0 if c["lower"] else -1.0)
        df = pd.DataFrame(rows)
        if c["encoding"] == "bool":
            df["Label"] = df["Label"].astype(bool)
        frames.append(df)
    return frames


def datasets(c, frames, d, tag=""):
    return [make_ds(fr, d / ("%sin%d.%s" % (tag, j, c["fmt"]))) for j, fr in enumerate(frames)]


def fold_structure(c, frames, d):
    """row positions of every fold per file (the structure of the split does not depend on the rng)"""
    out = []
    for ds in datasets(c, frames, d, tag="s_"):
        out.append([np.asarray(a) for a in ds._split(c["folds"], np.random.default_rng(0))])
    return out


# ------------------------------------------------------------------------------------------------ brew check
FOLD_BEST = []      # per fold the largest independent count of the last run_brew_case that got as far as the comparison


INT_SUFFIX = "-integer-feature"
KEEP_ID = ("non-finite-scores-returned",) + EXPECTED


def fold_best_table(c, frames, tgts, d):
    """{(fold, feature, desc): targets accepted at train_fdr on the fold's training rows}, [largest count per fold];
    integer-typed features are counted with exact integer comparisons"""
    split = fold_structure(c, frames, d)
    table = {}
    for i in range(c["folds"]):
        keep = [np.setdiff1d(np.arange(len(fr)), sp[i]) for fr, sp in zip(frames, split)]
        t_tr = np.concatenate([t[k] for t, k in zip(tgts, keep)])
        for f in ([c["direction"]] if c.get("direction") else FEATS):
            col = np.concatenate([feat_col(fr, f)[k] for fr, k in zip(frames, keep)])
            for dsc in (True, False):
                table[(i, f, dsc)] = n_accepted(col, t_tr, c["train_fdr"], dsc)
    return table, [max(v for (j, f, dsc), v in table.items() if j == i) for i in range(c["folds"])]


def run_brew_case(c, d, want_result=False):
    import mokapot
    from mokapot.model import Model
    FOLD_BEST[:] = []
    frames = build_frames(c)
    dss = datasets(c, frames, d)
    sign = -1.0 if c["lower"] else 1.0
    model = Model(ALL_ESTIMATORS[c["est"]](sign=sign, **c.get("est_kw", {})), scaler="as-is", train_fdr=c["train_fdr"], max_iter=c["max_iter"],
                  direction=c.get("direction"), override=c.get("override", False), rng=c["rng"])
    try:
        psms, models, scores, descs = mokapot.brew(dss, model=model, test_fdr=c["test_fdr"], folds=c["folds"],
                                                   max_workers=1, rng=c["rng"])
    except Exception as e:  # noqa
        msg = "%s: %s" % (type(e).__name__, str(e)[:200])
        if isinstance(e, RuntimeError) and ("Failed to calibrate scores" in str(e) or "No PSMs accepted at train_fdr" in str(e)
                                            or "No PSMs found below" in str(e)):
            res = ("loud", msg, [])
            if c.get("int_feat") and "Failed to calibrate" not in str(e):
                # integer-feature cases: a refusal for want of accepted PSMs is only a loud failure when it is true
                tgts = [is_target_col(fr["Label"]) for fr in frames]
                least = min(fold_best_table(c, frames, tgts, d)[1])
                if least > 0:
                    res = ("bad", msg, [(("direction" if c.get("direction") else "auto") + "-refused-though-feature-accepts" + INT_SUFFIX, "%s, but on every fold's training "
                                         "rows some feature accepts targets at %g (at least %d)" % (msg, c["train_fdr"], least))])
        elif isinstance(e, ValueError) and ("No decoy PSMs were" in str(e) or "No target PSMs were" in str(e)):
            res = ("loud", msg, [])         # a training set without decoys / targets is refused by design
        else:
            frames_tb = [f.name for f in traceback.extract_tb(e.__traceback__)]
            if c.get("direction") and any(frames_tb[i:i + 2] == ["brew", "read_data"] for i in range(len(frames_tb))):
                # the fallback's read of column `feat` (brew calls read_data itself only there)
                res = ("bad", msg, [("direction-best-feat-values", "fallback with Model(direction=%r): %s" % (c["direction"], msg))])
            else:
                res = ("bad", msg, [("brew-raises-" + type(e).__name__, msg)])
        return res + ((None,) if want_result else ())
    tgts = [is_target_col(fr["Label"]) for fr in frames]
    flat = [np.asarray(s, dtype=float).ravel() for s in scores]
    bad = []
    if len(flat) != len(frames) or any(len(s) != len(fr) for s, fr in zip(flat, frames)) or len(descs) != len(frames):
        return ("bad", "", [("score-shape", "scores/descs do not match the input files")]) + ((None,) if want_result else ())
    if c.get("override", False):
        return ("override", "", []) + ((None,) if want_result else ())
    nonfinite = sum(int((~np.isfinite(s)).sum()) for s in flat)
    if nonfinite:       # nothing can be ranked or accepted by NaN/inf; seen with a constant decision_function whose
        # per-fold calibration divides 0 by 0 when the all-tied scores "accept" every target
        bad.append(("non-finite-scores-returned", "brew returned NaN/inf for %d of %d PSMs (estimator %s, descs=%s) instead "
                    "of falling back to the best feature" % (nonfinite, sum(len(s) for s in flat), c["est"], list(descs))))
        return ("bad", "", bad) + ((None,) if want_result else ())
    # the best single feature during training: per fold, accepted targets at train_fdr on the training rows
    table, fold_best = fold_best_table(c, frames, tgts, d)
    B = max(table.values())
    best_pairs = set((f, dsc) for (i, f, dsc), v in table.items() if v == B)
    FOLD_BEST[:] = fold_best
    # the count each fold's model recorded for its starting feature (brew compares the largest of them with what the
    # learned scores accept): it has to be the independently counted number for the feature and direction it names
    who = "direction" if c.get("direction") else "auto"
    for i, m in enumerate(models if len(models) == c["folds"] else []):
        i = int(getattr(m, "fold", i + 1)) - 1
        bf, fp, dsc = getattr(m, "best_feat", None), getattr(m, "feat_pass", None), getattr(m, "desc", None)
        if (i, bf, bool(dsc)) not in table or fp is None:
            bad.append((who + "-fold-model-best-feat-not-a-candidate-feature", "fold %d: best_feat=%r desc=%r feat_pass=%r"
                        % (i, bf, dsc, fp)))
        elif int(fp) != table[(i, bf, bool(dsc))]:
            bad.append((who + "-fold-model-feat-pass-not-count-of-chosen-direction", "fold %d: the model recorded feat_pass=%d "
                        "for %s ranked %s, which accepts %d targets at %g on the fold's training rows (the other way: %d)"
                        % (i, int(fp), bf, "high-to-low" if dsc else "low-to-high", table[(i, bf, bool(dsc))],
                           c["train_fdr"], table[(i, bf, not bool(dsc))])))
        elif int(fp) < max(v for (j, f, d2), v in table.items() if j == i):
            bad.append((who + "-fold-model-start-not-best-direction", "fold %d: the model started from %s desc=%s with %d "
                        "targets, the best candidate accepts %d" % (i, bf, dsc, int(fp),
                                                                   max(v for (j, f, d2), v in table.items() if j == i))))
    # (a) fallback: every file's scores are the column of one feature (text files: up to the parser's last digit)
    fb = [f for f in FEATS if all(same_values(s, feat_col(fr, f)) for s, fr in zip(scores, frames))]
    kind = "model"
    if fb:
        kind = "fallback"
        if len(set(bool(x) for x in descs)) != 1 or (fb[0], bool(descs[0])) not in best_pairs:
            bad.append(("fallback-not-best-feature-or-direction", "scores are the column of %s with descs=%s, but the best "
                        "feature/direction on a training fold is %s (%d targets; largest count per fold: %s)"
                        % (fb[0], list(descs), sorted(best_pairs), B, list(FOLD_BEST))))
    else:
        # (b) at least as many targets as the best single feature during training
        A = sum(n_accepted(s, t, c["test_fdr"], bool(dsc)) for s, t, dsc in zip(flat, tgts, descs))
        if A < B:
            bad.append(("worse-than-best-feature-no-fallback", "returned scores accept %d targets at %g, the best feature "
                        "accepted %d on a training fold at %g (largest count per fold: %s), and the scores are not a feature "
                        "column" % (A, c["test_fdr"], B, c["train_fdr"], list(FOLD_BEST))))
    if c.get("int_feat"):       # the class of input goes into the case id (known class-independent findings keep theirs)
        bad = [(cid if cid in KEEP_ID else cid + INT_SUFFIX, what) for cid, what in bad]
    res = ("bad" if bad else kind, "", bad)
    return res + (((dss, frames, scores, descs),) if want_result else ())


def gen_brew_cases(tier, seed):
    rng = np.random.default_rng(seed)
    cases = []
    reps = 1 if tier == "quick" else 12
    for rep in range(reps):
        for enc in ENCODINGS:
            for lower in (False, True):
                for fmt in ("parquet", "tab"):
                    for est in ESTIMATORS:
                        cases.append(dict(n_spec=[int(rng.integers(30, 61))], dup=2, data_seed=int(rng.integers(0, 10 ** 6)),
                                          encoding=enc, lower=lower, fmt=fmt, est=est, train_fdr=0.25, test_fdr=0.25,
                                          max_iter=int(rng.integers(1, 4)), folds=3, rng=int(rng.integers(0, 10 ** 6))))
    # found by this check (thorough tier): constant decision_function on target-rich data -> all scores NaN
    cases.append(dict(n_spec=[47], dup=1, data_seed=49986, encoding="1/-1", lower=False, fmt="tab", est="const-dec",
                      train_fdr=0.25, test_fdr=0.5, max_iter=2, folds=2, rng=316499, p_target=0.8))
    extra = 40 if tier == "quick" else 600
    for k in range(extra):
        c = dict(n_spec=[int(rng.integers(20, 50)) for _ in range(int(rng.choice([1, 2, 3])))], dup=int(rng.integers(1, 4)),
                 data_seed=int(rng.integers(0, 10 ** 6)), encoding=str(rng.choice(list(ENCODINGS))),
                 lower=bool(rng.random() < 0.5), fmt=str(rng.choice(["parquet", "tab"])),
                 est=str(rng.choice(list(ESTIMATORS))), train_fdr=float(rng.choice([0.125, 0.25, 0.5])),
                 test_fdr=float(rng.choice([0.125, 0.25, 0.5])), max_iter=int(rng.integers(1, 4)),
                 folds=int(rng.integers(2, 5)), rng=int(rng.integers(0, 10 ** 6)))
        r = rng.random()
        if r < 0.25:
            c["p_target"] = 0.8             # target rich: all-zero scores tie everything and may accept every target
        if 0.25 <= r < 0.5:
            c["direction"] = "f0"
        if r >= 0.9:
            c["override"] = True
        cases.append(c)
    cases += gen_outlier_brew_cases(tier, seed)
    cases += gen_eval_fdr_brew_cases(tier, seed)
    cases += gen_fold_layout_brew_cases(tier, seed)
    cases += gen_int_feature_brew_cases(tier, seed)
    return cases


N_INT_FEATURE = {"quick": 32, "thorough": 480}
INT_MAGNITUDES = [("far", 0.5), ("small", None), ("far", 4.0), ("edge", None), ("far", 32.0), ("far", 0.5)]


def int_feature_spec(k, rng):
    """dtype int64 / int32 / uint32 / uint64 in turn; magnitude class in turn (per block of four): 'far' = base 2**30 (32-bit)
    or 2**33..2**48 (64-bit) with a span of 0.5 / 4 / 32 float32 steps, 'edge' = base 2**24..2**26 with neighbouring
    integers, 'small' = 0..4n"""
    dtype = ["int64", "int32", "uint32", "uint64"][k % 4]
    mag, mult = INT_MAGNITUDES[(k // 4) % len(INT_MAGNITUDES)]
    top = INT_DTYPES[dtype]
    if mag == "small":
        log2 = None
    elif mag == "edge":
        log2, mult = int(rng.integers(24, 27)), 0.0
    else:
        log2 = int(rng.integers(29, top + 1)) if top < 32 else int(rng.integers(33, top + 1))
    return dict(dtype=dtype, log2=log2, mult=mult, negate=bool(dtype.startswith("int") and rng.random() < 0.5))


def gen_int_feature_brew_cases(tier, seed):
    """The best single feature is an integer-typed column (build_int_frames); own random stream. Estimators that cannot
    learn, invert or memorise (the fallback has to be f0, its exact values, in its good direction) and that reproduce f0;
    1 of 5 with Model(direction='f0')."""
    rng = np.random.default_rng([seed, 7009])
    cases = []
    for k in range(N_INT_FEATURE[tier]):
        c = dict(n_spec=[int(rng.integers(70, 130)) for _ in range(1 + (k // 8) % 2)], dup=1 + (k // 2) % 2,
                 data_seed=int(rng.integers(0, 10 ** 6)), encoding=list(ENCODINGS)[k % 3], lower=bool((k // 2) % 2),
                 fmt=["parquet", "tab"][int(rng.integers(0, 2))],
                 est=["const-dec", "inverted-dec", "memo-proba", "good-dec", "const-proba", "good-proba"][int(rng.integers(0, 6))],
                 train_fdr=float(rng.choice([0.125, 0.25])), test_fdr=float(rng.choice([0.125, 0.25])),
                 max_iter=int(rng.integers(1, 3)), folds=int(rng.integers(2, 4)), rng=int(rng.integers(0, 10 ** 6)),
                 int_feat=int_feature_spec(k, rng))
        if k % 5 == 4:
            c["direction"] = "f0"
        cases.append(c)
    return cases


N_OUTLIER_BREW = {"quick": 24, "thorough": 360}
N_EVAL_FDR_BREW = {"quick": (20, 12), "thorough": (240, 160)}
STRICT_FDR = [1 / 512, 1 / 256, 3 / 1024, 5 / 1024]      # test_fdr below 0.01 (k/1024: exact in binary)
LAX_FDR = [1 / 32, 3 / 64, 1 / 16]                       # test_fdr above 0.01


def gen_eval_fdr_brew_cases(tier, seed):
    """brew with test_fdr well away from 0.01 AND from train_fdr, on block-layout data (one PSM per spectrum) large
    enough for that level to accept something; own random stream.
    strict (test_fdr < 0.01 < train_fdr): per file a top block of targets, a few decoys right below it, a second block
    of targets, decoys (and some targets) at the bottom. The number of decoys in the gap is drawn between 1.2*test_fdr*T
    and 0.009*T (T = targets above the bottom): a ranking like f0 accepts only the top block at test_fdr but both blocks
    at 0.01 and at train_fdr. 5 of 6 cases make the second block large enough for the best feature's count on a
    fold's training rows to exceed the top blocks (fallback required when the learned scores rank like f0), 1 of 6 keep it
    small (model scores may be returned). Estimators: reproducing (4 of 6), memorising, inverted (training fails).
    lax (train_fdr < 0.01 < test_fdr): a few hundred to 1500 PSMs per file, additionally a block of targets beyond every
    decoy at the bad end, which is all that the memorising estimator's held-out ranking accepts at test_fdr."""
    rng = np.random.default_rng([seed, 7006])
    n_strict, n_lax = N_EVAL_FDR_BREW[tier]
    cases = []
    for k in range(n_strict):
        x = STRICT_FDR[k % 4]
        files = 1 if x < 1 / 300 else 1 + (k // 4) % 2
        folds = 2 + (k // 2) % 2
        blocks = []
        for j in range(files):
            n_clean = int(np.ceil(float(rng.uniform(1.3, 1.6)) * folds / x))         # >= 1/x targets of it in every test fold
            if k % 6 == 2:
                n_more = int(n_clean * float(rng.uniform(0.1, 0.25)) / (folds - 1))  # control: the model is no worse
            else:
                n_more = int(n_clean * float(rng.uniform(1.3, 1.8)) / (folds - 1)) + 1
            T = n_clean + n_more
            lo, hi = int(np.ceil(1.2 * x * T)) + 1, int(0.009 * T) - 1
            n_gap = int(rng.integers(lo, max(lo, hi) + 1))
            blocks.append([[n_clean, 1, 100.0, 200.0], [n_gap, 0, 50.0, 51.0], [n_more, 1, 20.0, 40.0],
                           [int(T * float(rng.uniform(0.1, 0.2))), 0, -100.0, -50.0], [T // 20, 1, -100.0, -50.0]])
        c = dict(blocks=blocks, n_spec=[sum(b[0] for b in bl) for bl in blocks], dup=1, data_seed=int(rng.integers(0, 10 ** 6)),
                 encoding=list(ENCODINGS)[k % 3], lower=bool((k // 3) % 2), fmt=["tab", "parquet"][(k // 2) % 2],
                 est=["good-dec", "good-proba", "good-dec", "memo-proba", "good-proba", "inverted-dec"][k % 6],
                 train_fdr=[1 / 64, 3 / 256, 1 / 32][k % 3], test_fdr=x, max_iter=int(rng.integers(1, 3)), folds=folds,
                 rng=int(rng.integers(0, 10 ** 6)), ties=bool(k % 5 == 4))
        if k % 3 == 1:
            c["direction"] = "f0"
        cases.append(c)
    for k in range(n_lax):
        x = LAX_FDR[k % 3]
        files = 1 + (k // 3) % 2
        folds = 2 + (k // 2) % 2
        blocks = []
        for j in range(files):
            n_clean, n_more = int(rng.integers(300, 600)), int(rng.integers(150, 500))
            T = n_clean + n_more
            blocks.append([[n_clean, 1, 100.0, 200.0], [int(rng.integers(T // 100, T // 40 + 2)), 0, 50.0, 51.0],
                           [n_more, 1, 20.0, 40.0], [T // 4, 0, -100.0, -50.0], [T // 20, 1, -100.0, -50.0],
                           [int(np.ceil(2 / x)) + int(rng.integers(0, 11)), 1, -300.0, -200.0]])
        c = dict(blocks=blocks, n_spec=[sum(b[0] for b in bl) for bl in blocks], dup=1, data_seed=int(rng.integers(0, 10 ** 6)),
                 encoding=list(ENCODINGS)[k % 3], lower=bool((k // 3) % 2), fmt=["parquet", "tab"][(k // 2) % 2],
                 est=["memo-proba", "good-dec", "memo-proba", "good-proba", "inverted-dec", "memo-proba"][k % 6],
                 train_fdr=[1 / 128, 1 / 64][k % 2], test_fdr=x, max_iter=int(rng.integers(1, 3)), folds=folds,
                 rng=int(rng.integers(0, 10 ** 6)))
        if k % 4 == 1:
            c["direction"] = "f0"
        cases.append(c)
    return cases


N_FOLD_LAYOUT = {"quick": (24, 12), "thorough": (300, 150)}


def gen_fold_layout_brew_cases(tier, seed):
    """Folds whose best single feature differs (build_fold_frames); own random stream.
    switch: the informative f0 values sit in the rows of ONE test fold (`poor`: the model of that fold cannot see them and
    starts from a weak feature - f1 in the opposite direction, or f0 itself read from its bad end - with a smaller count,
    the other models start from f0); estimators that cannot learn, invert, memorise or reproduce f0: the fallback has to
    be f0 in its good direction whichever fold is the poor one. 1 of 3 with Model(direction='f0') when the weak feature
    is f0.
    graded: every model starts from f0, the share of good targets differs by test fold (0.9 in fold `poor`, 0.1-0.3 in the
    others), and the estimator passes training but loses 5-8 sixteenths of the held-out rows: the learned scores accept
    fewer targets than f0 did on the training rows of the best fold, and more than on those of the poorest.
    `poor` is the LAST fold in every second case, otherwise one of the others."""
    rng = np.random.default_rng([seed, 7008])
    n_switch, n_graded = N_FOLD_LAYOUT[tier]
    cases = []
    for k in range(n_switch + n_graded):
        folds = 2 + (k // 2) % 2 if tier == "quick" else 2 + (k // 2) % 3
        poor = folds - 1 if k % 2 == 0 else int(rng.integers(0, folds - 1))
        files = 1 + (k // 4) % 2
        c = dict(n_spec=[int(rng.integers(100, 160)) * folds // files for _ in range(files)], dup=1,
                 data_seed=int(rng.integers(0, 10 ** 6)), encoding=list(ENCODINGS)[k % 3], lower=bool((k // 3) % 2),
                 fmt=["parquet", "tab"][(k // 2) % 2], train_fdr=float(rng.choice([0.125, 0.25])),
                 test_fdr=float(rng.choice([0.125, 0.25])), max_iter=int(rng.integers(1, 3)), folds=folds,
                 rng=int(rng.integers(0, 10 ** 6)))
        if k < n_switch:
            weak = ["f1", "f0"][(k // 6) % 2]
            c["est"] = ["const-dec", "inverted-dec", "memo-proba", "const-proba", "good-dec", "inverted-dec"][k % 6]
            c["layout"] = dict(kind="switch", poor=poor, rich=float(rng.uniform(0.7, 0.95)), weak=weak,
                               weak_frac=float(rng.uniform(0.1, 0.2)))
            if weak == "f0" and k % 3 == 2:
                c["direction"] = "f0"
        else:
            fracs = [float(rng.uniform(0.1, 0.3)) for _ in range(folds)]
            fracs[poor] = 0.9
            c["est"] = "lossy-memo-proba"
            c["est_kw"] = dict(loss=int(rng.integers(5, 9)))
            c["layout"] = dict(kind="graded", poor=poor, fracs=fracs)
        cases.append(c)
    return cases


def gen_outlier_brew_cases(tier, seed):
    """Model(direction='f0') (2 of 3; else automatic choice) on data where a few genuine targets sit beyond every decoy
    at the BAD end of f0, enough of them for f0 ranked the wrong way to accept some PSMs on the training rows of a fold.
    The memorising estimator passes training and ranks the held-out rows the wrong way (it accepts about the outliers),
    the others reproduce or invert the feature. Own random stream: the cases above do not depend on these."""
    rng = np.random.default_rng([seed, 7004])
    cases = []
    for k in range(N_OUTLIER_BREW[tier]):
        train_fdr = float([0.5, 0.25][(k // 4) % 2])
        folds = int(rng.integers(2, 4))
        need = int(np.ceil(folds / ((folds - 1) * train_fdr)))      # wrong-way acceptance on (folds-1)/folds of the rows
        c = dict(n_spec=[int(rng.integers(50, 90)) for _ in range(1 + (k // 8) % 2)], dup=2,
                 data_seed=int(rng.integers(0, 10 ** 6)), encoding=list(ENCODINGS)[k % 3], lower=bool(k % 2 == 0),
                 fmt=["parquet", "tab"][(k // 2) % 2], est=["memo-proba", "good-dec", "memo-proba", "inverted-dec",
                                                           "memo-proba", "good-proba"][k % 6],
                 train_fdr=train_fdr, test_fdr=float(rng.choice([0.125, 0.25, 0.5, 0.5])), max_iter=int(rng.integers(1, 3)),
                 folds=folds, rng=int(rng.integers(0, 10 ** 6)), outliers=need + int(rng.integers(1, 5)))
        if k % 3:
            c["direction"] = "f0"
        cases.append(c)
    return cases


def check_fallback(tier, seed):
    cases = gen_brew_cases(tier, seed)
    ck = Check("brew_best_feature_net", "mokapot.brew.brew (tail block), Model.fit/_get_starting_labels, dataset.update_labels",
               "grid: 3 label encodings x higher/lower-is-better best feature x Parquet/tab-delimited x 6 estimators "
               "(constant decision_function, constant predict_proba, inverted, memorising (inverted on unseen rows), two that "
               "reproduce the best feature) on %s dataset(s) of 30-60 spectra x 2 PSMs, 3 folds, train_fdr=test_fdr=0.25; + %d "
               "random configurations with seed %d: 1-3 files of 20-49 spectra x 1-3 PSMs, folds 2-4, train/test fdr in "
               "{0.125,0.25,0.5}, 25%% target-rich data, 25%% Model(direction='f0'), 10%% override=True; + 1 fixed seed; "
               "+ %d configurations (own stream of seed %d) with wrong-end outliers: per file 1-2 files of 50-89 spectra x 2 "
               "PSMs in which enough non-good targets are moved beyond every decoy at the bad end of f0 for the wrongly "
               "ranked f0 to accept PSMs on a fold's training rows, 2 of 3 with Model(direction='f0'), higher/lower-is-better "
               "alternately, memorising/reproducing/inverted estimators, folds 2-3, train_fdr in {0.25,0.5}, test_fdr in "
               "{0.125,0.25,0.5}; + %d + %d configurations (own stream of seed %d) with test_fdr away from 0.01 and from "
               "train_fdr on block-layout files (one PSM per spectrum; top block of targets, a few decoys, second block of "
               "targets, decoys and 5%% targets at the bottom): strict = test_fdr in {1/512,1/256,3/1024,5/1024} with train_fdr "
               "in {1/64,3/256,1/32}, 1-2 files of 1000-5500 PSMs sized so that every test fold holds more than 1/test_fdr "
               "top-block targets, gap decoys drawn so that a ranking like f0 accepts only the top block at test_fdr but both "
               "blocks at 0.01 and at train_fdr, 5 of 6 with a second block so large that the best feature's training count "
               "exceeds the top blocks; lax = test_fdr in {1/32,3/64,1/16} with train_fdr in {1/128,1/64}, 1-2 files of "
               "700-1500 PSMs plus ceil(2/test_fdr)+0..10 targets beyond every decoy at the bad end; reproducing / memorising "
               "/ inverted estimators, folds 2-3, 3 encodings, both file formats, higher/lower-is-better, 1 of 3 (1 of 4) with "
               "Model(direction='f0'), every fifth strict case with f0 rounded to 1 decimal; + %d + %d configurations (own "
               "stream of seed %d) whose folds disagree about the best feature (1-2 files, %s folds, 100-159 PSMs per fold, "
               "one PSM per spectrum, features filled in by test fold as read from the split of the spectrum columns, "
               "train/test fdr in {0.125,0.25}, 3 encodings, both formats, higher/lower-is-better): switch = f0 ~ N(8,1) for "
               "70-95%% of the targets of ONE test fold only, plus a weak feature (f1 towards the opposite end, or f0's own bad "
               "end; 10-20%% of the targets) from which the model of that fold has to start, with constant / inverted / "
               "memorising / reproducing estimators, 1 of 3 of the f0-weak cases with Model(direction='f0'); graded = 90%% good "
               "targets in one test fold and 10-30%% in the others with an estimator that passes training and pushes 5-8 of 16 "
               "residue classes of held-out rows to the bottom; the fold that cannot see the good rows is the LAST fold in "
               "every second case, else an earlier one; + %d configurations (own stream of seed %d) whose best single feature f0 "
               "is an INTEGER-typed column (int64 / int32 / uint32 / uint64 in turn; 1-2 files of 70-129 spectra x 1-2 PSMs, 50%% "
               "targets of which 65%% good, f0 strictly monotone in a latent N(4,1)/N(0,1) score, a weak float feature f1 that "
               "stands out for a quarter of the good targets): magnitudes small (0..4n), 2**24..2**26 with neighbouring integers, "
               "and 2**29..2**31 (32-bit) / 2**33..2**48 (64-bit) with all values inside 0.5, 4 or 32 float32 steps, so that "
               "float32 cannot separate them; lower-is-better by mirroring or (signed) negating; 6 estimators, folds 2-3, "
               "train/test fdr in {0.125,0.25}, both formats, 1 of 5 with Model(direction='f0'); their counts use exact integer "
               "comparisons, a fallback must return exactly the integers, and a refusal for want of accepted PSMs is only "
               "tolerated when no feature accepts on some fold's training rows. In every returned run each fold "
               "model's feat_pass/best_feat/desc is compared with the independent count on that fold's training rows, and the "
               "returned scores are counted independently at test_fdr"
               % ("1" if tier == "quick" else "12", 40 if tier == "quick" else 600, seed, N_OUTLIER_BREW[tier], seed,
                  N_EVAL_FDR_BREW[tier][0], N_EVAL_FDR_BREW[tier][1], seed, N_FOLD_LAYOUT[tier][0], N_FOLD_LAYOUT[tier][1],
                  seed, "2-3" if tier == "quick" else "2-4", N_INT_FEATURE[tier], seed),
               "non-trivial = brew returned and either fell back to a feature column or returned model scores that were "
               "compared with the best feature's count on the training folds; loud failures (documented RuntimeErrors) and "
               "override=True runs are evaluations only")
    found, kinds, disagree = [], {}, [0, 0, 0]
    with scratch("c07_") as d:
        for c in cases:
            kind, msg, bad = run_brew_case(c, d)
            kinds[kind] = kinds.get(kind, 0) + 1
            ck.case(c, nontrivial=kind in ("fallback", "model"))
            found += [(cid, what, c) for cid, what in bad]
            if FOLD_BEST and min(FOLD_BEST) < max(FOLD_BEST):       # compared runs whose folds' best counts differ
                disagree[0] += 1
                disagree[1] += FOLD_BEST[-1] < max(FOLD_BEST)
                disagree[2] += FOLD_BEST[0] < max(FOLD_BEST)
    ck.rule += "; outcomes: %s" % json.dumps(kinds, sort_keys=True)
    ints = [c for c in cases if c.get("int_feat")]
    ck.rule += ("; integer-feature configurations: %d, of which %d hold f0 values that are no longer all distinct after "
                "rounding to float32" % (len(ints), sum(int_collapses(c) for c in ints)))
    ck.rule += ("; compared runs in which the folds' best-feature counts differ: %d (the last fold is not the largest: %d, the "
                "first is not: %d)" % tuple(disagree))
    report(ck, found)
    return ck


def report(ck, found):
    best = {}
    for cid, what, inp in found:
        size = len(json.dumps(inp, default=str)) + 50 * sum(inp.get("n_spec", [0]))
        if cid not in best or size < best[cid][0]:
            best[cid] = (size, what, inp)
    for cid in sorted(best, key=lambda k: (k in EXPECTED, k)):
        ck.violation(cid, best[cid][1], best[cid][2])


# ------------------------------------------------------------------------------------------------ update_labels
FDR_GRID = [k / 1024 for k in (1, 2, 3, 5, 8, 10, 11, 13, 16, 24, 32, 48, 64, 100, 128, 200, 256, 384, 512)]
N_UPDATE_LABELS = {"quick": 180, "thorough": 3000}


def update_labels_inputs(c):
    """labels (as written to the file), genuine-target mask and the in-memory scores of one case"""
    rng = np.random.default_rng(c["data_seed"])
    n = c["n"]
    tgt = rng.random(n) < c["p_target"]
    good = tgt & (rng.random(n) < c["p_good"])
    s = rng.normal(0.0, 1.0, n) + np.where(good, c["shift"], 0.0)
    if c["ties"] is not None:
        s = np.round(s, c["ties"])          # 1: some equal scores, 0: whole numbers, many equal scores
    if c["flip"]:
        s = -s                              # the good scores are the low ones
    pos, neg = ENCODINGS[c["encoding"]]
    lab = np.array([pos if t else neg for t in tgt], dtype=bool if c["encoding"] == "bool" else int)
    return lab, tgt, s


def run_update_labels_case(c, d):
    """mokapot.dataset.update_labels(file, scores, target_column, eval_fdr[, desc]) against expected_labels at the
    eval_fdr that is passed. Returns (informative, violations)."""
    from mokapot.dataset import update_labels
    lab, tgt, s = update_labels_inputs(c)
    n, col = c["n"], c["column"]
    df = pd.DataFrame({"SpecId": np.arange(n), col: lab, "ScanNr": np.arange(n), "f0": np.round(s, 3)})
    path = d / ("ul.%s" % c["fmt"])
    if c["fmt"] == "parquet":
        df.to_parquet(path, index=False)
    else:
        df.to_csv(path, sep="\t", index=False)
    want = expected_labels(s, tgt, c["eval_fdr"], c["desc"])
    at_default = expected_labels(s, tgt, 0.01, c["desc"])
    informative = bool((want == 1).any() and (want == 0).any() and not np.array_equal(want, at_default))
    scores = pd.Series(s) if c["series"] else s.copy()
    try:
        if c["desc"] and c["positional"]:       # the way brew calls it: four positional arguments, desc left at its default
            got = update_labels(path, scores, col, c["eval_fdr"])
        else:
            got = update_labels(path, scores, target_column=col, eval_fdr=c["eval_fdr"], desc=c["desc"])
    except Exception as e:  # noqa
        return informative, [("update-labels-raises-" + type(e).__name__, "%s: %s" % (type(e).__name__, str(e)[:200]))]
    finally:
        path.unlink()
    got = np.asarray(got)
    if got.shape != (n,):
        return informative, [("update-labels-shape", "result of shape %s for %d PSMs" % (got.shape, n))]
    if np.array_equal(got, want):
        return informative, []
    counts = "got %d positive / %d unlabelled / %d negative, expected %d / %d / %d at eval_fdr=%g, desc=%s, labels %s, %s file" % (
        int((got == 1).sum()), int((got == 0).sum()), int((got == -1).sum()), int((want == 1).sum()), int((want == 0).sum()),
        int((want == -1).sum()), c["eval_fdr"], c["desc"], c["encoding"], c["fmt"])
    like_default = np.array_equal(got, at_default)
    like_other_way = np.array_equal(got, expected_labels(s, tgt, c["eval_fdr"], not c["desc"]))
    if not np.array_equal(got == -1, ~tgt):
        cid = "update-labels-decoys-not-the-non-targets-" + c["encoding"].replace("/", "-or-")
    elif not (got == 1).any():          # fits any reading that accepts nothing: no finer class
        cid = "update-labels-no-positives-though-targets-pass"
    elif like_default and not like_other_way:
        cid, counts = "update-labels-eval-fdr-ignored", counts + "; the result is what eval_fdr=0.01 (the default) gives"
    elif like_other_way and not like_default:
        cid, counts = "update-labels-desc-ignored", counts + "; the result is what the opposite direction gives"
    else:
        other = [f for f in FDR_GRID if np.array_equal(got, expected_labels(s, tgt, f, c["desc"]))]
        cid = "update-labels-other-fdr-level" if other else "update-labels-wrong-positives"
        counts += "; the result is what eval_fdr=%g gives" % other[0] if other else ""
    return informative, [(cid, counts)]


def gen_update_labels_cases(tier, seed):
    rng = np.random.default_rng([seed, 7007])
    cases = []
    for k in range(N_UPDATE_LABELS[tier]):
        big = k % 9 == 0                    # a few thousand PSMs: the strictest levels accept something
        c = dict(n=int(rng.integers(2000, 6000)) if big else int(rng.integers(8, 500)), p_target=float(rng.choice([0.5, 0.7, 0.9])),
                 p_good=float(rng.choice([0.4, 0.7, 0.95])), shift=float(rng.choice([3.0, 5.0, 8.0])) if not big else 9.0,
                 ties=[None, 1, None, 0][int(rng.integers(0, 4))], data_seed=int(rng.integers(0, 10 ** 6)),
                 encoding=list(ENCODINGS)[k % 3], fmt=["tab", "parquet"][(k // 3) % 2], desc=bool((k // 6) % 2 == 0),
                 column=["Label", "is_target"][(k // 12) % 2], series=bool(k % 5 == 3), positional=bool(k % 4 < 2))
        c["flip"] = (not c["desc"]) if rng.random() < 0.85 else c["desc"]      # 15%: ranked from the wrong end
        # the level: drawn from the grid (1/1024 .. 1/2; the large files: from its five strictest values); re-drawn (at most 6 times) while the expected labels do not
        # differ from those at 0.01, so that most cases can tell the level that was passed from the default
        lab, tgt, s = update_labels_inputs(c)
        at_default = expected_labels(s, tgt, 0.01, c["desc"])
        for attempt in range(7):
            c["eval_fdr"] = float(FDR_GRID[int(rng.integers(0, 5 if big else len(FDR_GRID)))])
            want = expected_labels(s, tgt, c["eval_fdr"], c["desc"])
            if (want == 1).any() and (want == 0).any() and not np.array_equal(want, at_default):
                break
        cases.append(c)
    return cases


def check_update_labels(tier, seed):
    cases = gen_update_labels_cases(tier, seed)
    ck = Check("update_labels_at_eval_fdr", "mokapot.dataset.update_labels (module-level; the counter brew applies to the learned "
               "scores with test_fdr)",
               "random with own stream of seed %d: %d files (Parquet / tab-delimited alternately) of 8-499 PSMs, every ninth of "
               "2000-5999 PSMs; label column named Label or is_target in the encodings 1/-1, 1/0, true/false in turn; 50-90%% "
               "targets of which 40-95%% score well; scores exact, rounded to 1 decimal or to whole numbers (equal scores); desc "
               "True/False in blocks of six, in 15%% of the cases against the data's good direction; scores as numpy array or "
               "(1 of 5) pandas Series; called as brew does (four positional arguments, desc defaulted) or with keywords; "
               "eval_fdr drawn from k/1024, k in {1,2,3,5,8,10,11,13,16,24,32,48,64,100,128,200,256,384,512} (0.001 .. 0.5; "
               "exact in binary so that float and exact comparison agree; the large files: k <= 8 only), re-drawn up to 6 times while the expected labels "
               "equal those at 0.01" % (seed, len(cases)),
               "oracle: exact integer target-decoy counting; +1 for genuine targets (label 1 / true) with q <= the eval_fdr "
               "passed, 0 for the other targets, -1 for every non-target, compared element-wise; non-trivial = the expected "
               "labels hold both accepted and unaccepted targets and differ from the expected labels at FDR 0.01")
    found, levels = [], set()
    with scratch("c07u_") as d:
        for c in cases:
            informative, bad = run_update_labels_case(c, d)
            ck.case(c, nontrivial=informative)
            if informative:
                levels.add(c["eval_fdr"])
            found += [(cid, what, c) for cid, what in bad]
    ck.rule += "; distinct eval_fdr values among the non-trivial cases: %d (%g .. %g)" % (
        len(levels), min(levels) if levels else 0, max(levels) if levels else 0)
    best = {}
    for cid, what, inp in found:            # smallest reproducer per class
        if cid not in best or inp["n"] < best[cid][1]["n"]:
            best[cid] = (what, inp)
    for cid in sorted(best):
        ck.violation(cid, best[cid][0], best[cid][1])
    return ck


# ------------------------------------------------------------------------------------------------ starting direction
class RecordingDec(GoodDec):
    """reproduces the best feature; remembers the rows (f2 = row id) and the positives of every fit call"""
    log = []

    def fit(self, X, y):
        ids = [int(v) for v in np.asarray(X)[:, 2]]
        RecordingDec.log.append((sorted(ids), sorted(i for i, yy in zip(ids, np.asarray(y).tolist()) if yy == 1)))
        return super().fit(X, y)


START_LOUD = ("No PSMs accepted at train_fdr", "No PSMs found below")


def run_start_case(c):
    """What Model.fit hands on about its starting point (feat_pass, best_feat, desc, the starting labels) against an
    independent target-decoy count for every candidate (feature, direction). Two routes: _get_starting_labels called
    directly, and Model.fit (one iteration, the estimator records the rows and positives of the first fit call)."""
    from mokapot.dataset import LinearPsmDataset
    from mokapot.model import Model, _get_starting_labels
    from mokapot.utils import convert_targets_column
    df = pd.concat(build_frames(c), ignore_index=True)
    tgt = is_target_col(df["Label"])
    thr = Fraction(c["train_fdr"])
    table = {}
    for f in ([c["direction"]] if c.get("direction") else FEATS):
        for dsc in (True, False):
            q = qvalues(feat_col(df, f), tgt, dsc)
            lab = np.array([(1 if qq <= thr else 0) if t else -1 for qq, t in zip(q, tgt)])
            table[(f, dsc)] = (int((lab == 1).sum()), lab)
    B = max(v[0] for v in table.values())
    best = sorted(k for k, v in table.items() if v[0] == B)
    who = "direction" if c.get("direction") else "auto"
    ids = df["f2"].astype(int).tolist()
    bad = []

    def dataset():          # the way brew builds a training set
        data = convert_targets_column(df.copy(), "Label")
        return LinearPsmDataset(psms=data, target_column="Label", spectrum_columns=["ScanNr", "ExpMass"],
                                peptide_column="Peptide", protein_column="Proteins", feature_columns=list(FEATS),
                                scan_column="ScanNr", expmass_column="ExpMass", copy_data=False)

    def judge(route, feat_pass, best_feat, desc, pos_ids, used_ids):
        key = (best_feat, bool(desc)) if isinstance(best_feat, str) else None
        if key not in table or desc is None or feat_pass is None:
            bad.append((who + "-start-best-feat-not-a-candidate-feature", "%s: best_feat=%r desc=%r feat_pass=%r, candidates %s"
                        % (route, best_feat, desc, feat_pass, sorted(set(k[0] for k in table)))))
            return
        n, lab = table[key]
        other = table[(key[0], not key[1])][0]
        way = "high-to-low" if key[1] else "low-to-high"
        if int(feat_pass) != n:
            bad.append((who + "-start-feat-pass-not-count-of-chosen-direction", "%s: feat_pass=%d is handed on for %s ranked %s, "
                        "which accepts %d targets at %g (ranked the other way: %d)"
                        % (route, int(feat_pass), key[0], way, n, c["train_fdr"], other)))
        if n < B:
            bad.append((who + "-start-not-best-direction", "%s: starts from %s ranked %s (%d targets at %g) although %s accepts %d"
                        % (route, key[0], way, n, c["train_fdr"], best, B)))
        want_pos = sorted(i for i, v in zip(ids, lab) if v == 1)
        want_used = sorted(i for i, v in zip(ids, lab) if v != 0)
        if pos_ids != want_pos or used_ids != want_used:
            bad.append((who + "-start-labels-not-chosen-direction", "%s: %d positive / %d training rows at the start, expected "
                        "%d / %d (targets with q<=%g by %s ranked %s; all decoys negative)"
                        % (route, len(pos_ids), len(used_ids), len(want_pos), len(want_used), c["train_fdr"], key[0], way)))

    def refused(route, e):
        if isinstance(e, ValueError) and ("No decoy PSMs were" in str(e) or "No target PSMs were" in str(e)) \
                and (tgt.all() or not tgt.any()):
            return          # a table without decoys / without targets is refused by design
        if isinstance(e, RuntimeError) and any(t in str(e) for t in START_LOUD):
            if B > 0:
                bad.append((who + "-start-refused-though-feature-accepts", "%s: %s, but %s accepts %d targets"
                            % (route, str(e)[:80], best, B)))
        else:
            bad.append(("start-raises-" + type(e).__name__, "%s: %s: %s" % (route, type(e).__name__, str(e)[:200])))

    def model():
        return Model(RecordingDec(sign=-1.0 if c["lower"] else 1.0), scaler="as-is", train_fdr=c["train_fdr"], max_iter=1,
                     direction=c.get("direction"), rng=c["rng"])

    # route 1: the helper itself
    try:
        labels, feat_pass, best_feat, desc = _get_starting_labels(dataset(), model())
        labels = np.asarray(labels).ravel()
        if B == 0:
            bad.append((who + "-start-accepts-nothing-no-error", "labels: no candidate accepts a target at %g, yet %d positives"
                        % (c["train_fdr"], int((labels == 1).sum()))))
        elif len(labels) != len(ids):
            bad.append(("start-labels-shape", "labels: %d labels for %d PSMs" % (len(labels), len(ids))))
        else:
            judge("_get_starting_labels", feat_pass, best_feat, desc, sorted(i for i, v in zip(ids, labels) if v == 1),
                  sorted(i for i, v in zip(ids, labels) if v != 0))
    except Exception as e:  # noqa
        refused("_get_starting_labels", e)
    # route 2: Model.fit, attributes as brew reads them
    m = model()
    RecordingDec.log = []
    try:
        try:
            m.fit(dataset())
        except RuntimeError as e:
            if str(e) != "Model performs worse after training.":    # the bookkeeping is in place before training starts
                raise
        if B == 0:
            bad.append((who + "-start-accepts-nothing-no-error", "fit: no candidate accepts a target at %g, yet training ran"
                        % c["train_fdr"]))
        elif not RecordingDec.log:
            bad.append(("start-estimator-never-fitted", "fit: the estimator's fit was not called"))
        else:
            judge("Model.fit", getattr(m, "feat_pass", None), getattr(m, "best_feat", None), getattr(m, "desc", None),
                  RecordingDec.log[0][1], RecordingDec.log[0][0])
    except Exception as e:  # noqa
        refused("Model.fit", e)
    if c.get("int_feat"):       # the class of input goes into the case id
        bad = [(cid + INT_SUFFIX, what) for cid, what in bad]
    counts = sorted(v[0] for v in table.values())
    f0 = [table[(f, d)][0] for (f, d) in table if f == "f0"]
    return dict(compared=B > 0 and counts[0] != counts[-1] and not (tgt.all() or not tgt.any()), both_ways=len(f0) == 2 and min(f0) > 0 and f0[0] != f0[1]), bad


N_START = {"quick": (1, 60), "thorough": (8, 1500)}


def gen_start_cases(tier, seed):
    rng = np.random.default_rng([seed, 7005])
    reps, extra = N_START[tier]
    cases, k = [], 0
    for rep in range(reps):
        for direction in (None, "f0"):
            for lower in (False, True):
                for fdr in (0.125, 0.25, 0.5):
                    for extra_out in (None, 0, 3):      # no outliers / just enough for the wrong way to accept / more
                        c = dict(n_spec=[int(rng.integers(40, 80))], dup=2, data_seed=int(rng.integers(0, 10 ** 6)),
                                 encoding=list(ENCODINGS)[k % 3], lower=lower, train_fdr=fdr, rng=int(rng.integers(0, 10 ** 6)))
                        if direction:
                            c["direction"] = direction
                        if extra_out is not None:
                            c["outliers"] = int(np.ceil(1 / fdr)) + extra_out
                        cases.append(c)
                        k += 1
    for k in range(extra):
        fdr = float(rng.choice([0.125, 0.25, 0.5]))
        c = dict(n_spec=[int(rng.integers(15, 60)) for _ in range(int(rng.choice([1, 2])))], dup=int(rng.integers(1, 4)),
                 data_seed=int(rng.integers(0, 10 ** 6)), encoding=str(rng.choice(list(ENCODINGS))),
                 lower=bool(rng.random() < 0.5), train_fdr=fdr, rng=int(rng.integers(0, 10 ** 6)),
                 ties=bool(rng.random() < 0.2))
        r = rng.random()
        if r < 0.6:
            c["direction"] = "f0"
        elif r < 0.75:
            c["direction"] = str(rng.choice(["f1", "f2"]))
        if rng.random() < 0.7:
            c["outliers"] = int(rng.integers(1, int(np.ceil(1 / fdr)) + 5))     # per file; below 1/fdr: wrong way accepts 0
        if rng.random() < 0.15:
            c["p_target"] = 0.8
        cases.append(c)
    rng = np.random.default_rng([seed, 7010])       # integer-typed best feature (build_int_frames); own stream
    for k in range(N_START_INT[tier]):
        c = dict(n_spec=[int(rng.integers(40, 100)) for _ in range(1 + (k // 8) % 2)], dup=1 + (k // 2) % 2,
                 data_seed=int(rng.integers(0, 10 ** 6)), encoding=list(ENCODINGS)[k % 3], lower=bool((k // 2) % 2),
                 train_fdr=float(rng.choice([0.125, 0.25, 0.5])), rng=int(rng.integers(0, 10 ** 6)),
                 int_feat=int_feature_spec(k, rng))
        if k % 5 == 4:
            c["direction"] = "f0"
        cases.append(c)
    return cases


N_START_INT = {"quick": 30, "thorough": 360}


def check_start(tier, seed):
    cases = gen_start_cases(tier, seed)
    reps, extra = N_START[tier]
    ck = Check("start_direction_bookkeeping", "mokapot.model._get_starting_labels, Model.fit (feat_pass, best_feat, desc, "
               "starting labels), dataset._find_best_feature/_update_labels",
               "grid x %d: Model(direction=None / 'f0') x higher/lower-is-better f0 x train_fdr in {0.125,0.25,0.5} x (no outliers / "
               "ceil(1/fdr) / ceil(1/fdr)+3 non-good targets moved beyond every decoy at the bad end of f0), 40-79 spectra x 2 "
               "PSMs, label encodings in turn; + %d random configurations (own stream of seed %d): 1-2 tables of 15-59 "
               "spectra x 1-3 PSMs concatenated, 60%% direction='f0', 15%% direction='f1'/'f2' (noise / row id), 70%% with "
               "1..ceil(1/fdr)+4 wrong-end outliers per table, 20%% equal scores inside a spectrum, 15%% target-rich; every "
               "case through two routes (the helper directly; Model.fit with one iteration, scaler as-is, an estimator that "
               "records its first fit call); + %d tables (own stream of seed %d) whose best feature f0 is an integer-typed "
               "column as in brew_best_feature_net (int64/int32/uint32/uint64; small, 2**24..2**26 neighbouring, and up to "
               "2**48 within 0.5-32 float32 steps; 40-99 spectra x 1-2 PSMs per table, train_fdr in {0.125,0.25,0.5}, 1 of 5 "
               "with direction='f0'), counted with exact integer comparisons" % (reps, extra, seed, N_START_INT[tier], seed),
               "oracle: exact-fraction target-decoy q-values per candidate (feature, direction) on all rows; feat_pass must be "
               "the count of the (best_feat, desc) handed on, that count must be the largest among the candidates (ties: any), "
               "the starting labels / first fit call must have exactly the accepted targets positive and the other targets "
               "left out; a refusal is demanded iff no candidate accepts a target. non-trivial = some candidate accepts and "
               "the candidates' counts differ")
    found, both = [], 0
    for c in cases:
        info, bad = run_start_case(c)
        both += bool(info["both_ways"])
        ck.case(c, nontrivial=info["compared"])
        found += [(cid, what, c) for cid, what in bad]
    ck.rule += "; cases in which f0 accepts a different non-zero number of targets in BOTH directions: %d" % both
    report(ck, found)
    return ck


# ------------------------------------------------------------------------------------------------ direction clause
def expected_confidence(frame, scores, desc):
    """per spectrum the best score in direction `desc`; q-values are computed on the retained rows by the caller"""
    s = np.asarray(scores, dtype=float).ravel()
    key = list(zip(frame["ScanNr"].tolist(), frame["ExpMass"].tolist()))
    best = {}
    for k, v in zip(key, s):
        best[k] = v if k not in best else (max(best[k], v) if desc else min(best[k], v))
    return key, best


def judge_confidence(frame, scores, out_rows, desc):
    """out_rows: {PSMId: q-value} over targets and decoys. Returns None when the output is what direction `desc`
    demands, else a description."""
    s = np.asarray(scores, dtype=float).ravel()
    key, best = expected_confidence(frame, s, desc)
    ids = frame["SpecId"].tolist()
    pos = {i: p for p, i in enumerate(ids)}
    if any(i not in pos for i in out_rows):
        return "unknown PSMId in the output"
    kept = sorted(pos[i] for i in out_rows)
    ks = [key[p] for p in kept]
    if len(set(ks)) != len(ks) or set(ks) != set(key):
        return "not exactly one PSM per spectrum (%d rows, %d spectra)" % (len(kept), len(set(key)))
    wrong = [ids[p] for p in kept if s[p] != best[key[p]]]
    if wrong:
        return "retained PSMs %s are not the %s scoring ones of their spectra" % (wrong[:4], "highest" if desc else "lowest")
    tgt = is_target_col(frame["Label"])
    q = qvalues(s[kept], tgt[kept], desc)
    off = [ids[p] for p, qq in zip(kept, q) if abs(float(qq) - out_rows[ids[p]]) > 1e-6]
    if off:
        return "q-values of PSMs %s are not those of ranking %s scores first" % (off[:4], "high" if desc else "low")
    return None


def run_confidence(dss, frames, scores, descs, d, name):
    from mokapot.confidence import assign_confidence
    out = d / name
    out.mkdir(exist_ok=True)
    res = []
    try:
        assign_confidence(dss, max_workers=1, scores=scores, descs=descs, eval_fdr=0.25, dest_dir=out,
                          prefixes=[("file%d" % j) for j in range(len(dss))] if len(dss) > 1 else [None], decoys=True,
                          do_rollup=False)
        for j in range(len(dss)):
            pre = "file%d." % j if len(dss) > 1 else ""
            rows = {}
            for part in ("targets", "decoys"):
                t = pd.read_csv(out / ("%s%s.psms" % (pre, part)), sep="\t")
                rows.update(dict(zip(t["PSMId"].tolist(), t["q-value"].tolist())))
            res.append(rows)
    finally:
        for p in out.iterdir():
            p.unlink()
    return res


def run_direction_case(c, d):
    """c['source'] = 'feature': scores are the f0 column, descs=[c['desc']]; 'brew': scores/descs as returned by brew."""
    if c["source"] == "feature":
        frames = build_frames(c)
        dss = datasets(c, frames, d)
        scores = [fr["f0"].to_numpy(dtype=float) for fr in frames]
        descs = [c["desc"]] * len(frames)
    else:
        kind, msg, bad, result = run_brew_case(c, d, want_result=True)
        if result is None or kind != "fallback":
            return "skip", []
        dss, frames, scores, descs = result
        dss = datasets(c, frames, d)        # fresh dataset objects (brew consumed the spectra table)
    for fr, sc in zip(frames, scores):      # degenerate for confidence estimation: the retained PSMs may hold only
        tg = is_target_col(fr["Label"])     # targets or only decoys (the PEP step then exits or fails: C06 matter)
        sv = np.asarray(sc, dtype=float).ravel()
        for dsc in (True, False):
            key, best = expected_confidence(fr, sv, dsc)
            cand = {}
            for p in range(len(sv)):
                if sv[p] == best[key[p]]:
                    cand.setdefault(key[p], set()).add(bool(tg[p]))
            if any(all(lab in v for v in cand.values()) for lab in (True, False)):   # some tie-break keeps one class only
                return "skip", []
    try:
        outs = run_confidence(dss, frames, scores, list(descs), d, "conf")
    except SystemExit:      # triqler's qvality exits when the retained PSMs hold no target (or no decoy): PEP matter (C06)
        return "skip", []
    except Exception as e:  # noqa
        return "ran", [("assign-confidence-raises-" + type(e).__name__, "%s: %s" % (type(e).__name__, str(e)[:200]))]
    bad, informative = [], False
    for fr, s, dsc, rows in zip(frames, scores, descs, outs):
        dsc = bool(dsc)
        as_asked = judge_confidence(fr, s, rows, dsc)
        other = judge_confidence(fr, s, rows, not dsc)
        informative = informative or (as_asked is None) != (other is None)
        if as_asked is None:
            continue
        if not dsc and other is None:
            bad.append(("desc-false-ignored", "descs=[False]: %s; the output is exactly what descs=[True] gives" % as_asked))
        elif not dsc:
            bad.append(("desc-false-other-output", as_asked))
        else:
            bad.append(("desc-true-wrong-output", as_asked))
    return ("informative" if informative else "ran"), bad


def gen_direction_cases(tier, seed):
    rng = np.random.default_rng(seed + 7)
    cases = []
    n = 36 if tier == "quick" else 600
    for k in range(n):
        desc = bool(k % 2)
        cases.append(dict(source="feature", desc=desc, lower=not desc, n_spec=[int(rng.integers(6, 40))],
                          dup=int(rng.integers(1, 4)), ties=bool(rng.random() < 0.3), data_seed=int(rng.integers(0, 10 ** 6)),
                          encoding=list(ENCODINGS)[k % 3], fmt=["parquet", "tab"][(k // 2) % 2]))
    m = 12 if tier == "quick" else 120
    for k in range(m):                      # brew falls back to the feature, its scores and descs go on to assign_confidence
        cases.append(dict(source="brew", n_spec=[int(rng.integers(20, 40)) for _ in range(1 + k % 2)], dup=2,
                          data_seed=int(rng.integers(0, 10 ** 6)), encoding=list(ENCODINGS)[k % 3], lower=bool((k // 2) % 2),
                          fmt=["parquet", "tab"][(k // 4) % 2], est="const-dec", train_fdr=0.25, test_fdr=0.25, max_iter=1,
                          folds=3, rng=int(rng.integers(0, 10 ** 6))))
    return cases


def check_direction(tier, seed):
    cases = gen_direction_cases(tier, seed)
    nf = sum(1 for c in cases if c["source"] == "feature")
    ck = Check("confidence_direction", "mokapot.confidence.assign_confidence (descs), brew -> assign_confidence hand-over",
               "random with seed %d: %d datasets (6-39 spectra x 1-3 PSMs, 30%% with equal scores inside a spectrum, 3 label "
               "encodings, Parquet/tab-delimited) scored by the f0 column with descs=[False] (lower-is-better column) and "
               "descs=[True] (control) alternately; + %d brew runs with a constant estimator whose fallback scores and descs "
               "are passed on to assign_confidence (1-2 files); deduplication on, no rollup, max_workers=1"
               % (seed + 7, nf, len(cases) - nf),
               "output PSM tables (targets+decoys) compared with: one PSM per spectrum, the best in the requested direction, "
               "q-values of that ranking (tolerance 1e-6); non-trivial = the two directions give different expected outputs "
               "and the real output matches exactly one of them")
    found = []
    with scratch("c07d_") as d:
        for c in cases:
            kind, bad = run_direction_case(c, d)
            ck.case(c, nontrivial=kind == "informative")
            found += [(cid, what, c) for cid, what in bad]
    report(ck, found)
    return ck


def REPLAY(check_name, violation):
    c = violation["input"]
    if isinstance(c, str):
        c = json.loads(c)
    with scratch("c07r_") as d:
        if check_name == "brew_best_feature_net":
            bad = run_brew_case(c, d)[2]
        elif check_name == "confidence_direction":
            bad = run_direction_case(c, d)[1]
        elif check_name == "start_direction_bookkeeping":
            bad = run_start_case(c)[1]
        elif check_name == "update_labels_at_eval_fdr":
            bad = run_update_labels_case(c, d)[1]
        else:
            return {"violated": None, "note": "no replay for %s" % check_name}
    return {"violated": bool(bad), "detail": bad[:3]}


if __name__ == "__main__":
    a = args()
    np.random.seed(a.seed)
    emit([check_fallback(a.tier, a.seed), check_update_labels(a.tier, a.seed), check_start(a.tier, a.seed),
          check_direction(a.tier, a.seed)],
         ["'the best single feature did during training' is taken as: accepted targets at train_fdr on the training rows "
          "(complement of a fold, fold structure read from OnDiskPsmDataset._split) maximised over features, directions "
          "and folds; with Model(direction=f) only feature f",
          "when the folds disagree about the best feature (fold-layout cases) the fallback has to be the feature and direction "
          "of a fold with the LARGEST count, and learned scores are compared with that largest count; the test fold of a row "
          "is read from OnDiskPsmDataset._split of a skeleton file with the same spectrum columns (the split does not depend "
          "on the features or the rng)",
          "the count a model records as feat_pass is what brew later compares with the learned scores, so it has to be the "
          "number of targets its starting feature accepts at train_fdr in the direction it hands on; where both directions "
          "of a feature (or two features) accept equally many, either choice is accepted",
          "fold models are matched to folds by Model.fold (brew sorts them); training rows of fold i = all rows outside "
          "test fold i of every file (subset_max_train is not used)",
          "train_fdr/test_fdr restricted to dyadic values because mokapot.qvalues.tdc computes FDRs in float32 (C01 matter)",
          "update_labels is checked for the label vector it documents (+1 genuine targets with q <= eval_fdr, -1 non-targets, "
          "0 other targets) at levels k/1024 only: for those a correctly rounded (D+1)/T compares with the level as the exact "
          "fraction does (files up to 6000 PSMs), so every difference is a real one; OnDiskPsmDataset.update_labels (the "
          "method, not called anywhere) is not examined",
          "a fallback that was not needed (learned scores no worse at test_fdr, feature column returned anyway) is not counted "
          "as a violation: the statement only forbids returning worse model scores",
          "a documented RuntimeError of brew (calibration impossible, no PSM accepted at train_fdr) is a loud failure, "
          "not a silent degradation; in the integer-feature cases 'no PSM accepted / found' is only taken as such when it is "
          "true (some fold's training rows on which no candidate feature accepts a target at train_fdr)",
          "integer-typed feature columns: 'accepts' is meant for the integers as stored (two different integers are never "
          "tied), so the oracle compares them as int64; magnitudes are kept below 2**49 (exact in float64 as well: only a "
          "float32 or coarser detour changes a count); integer scores handed on to assign_confidence are not examined here "
          "(q-value arithmetic: C01)",
          "PEP columns are not examined; peps_algorithm left at its default (qvality)"])
