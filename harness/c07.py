"""C07 bounded stand-in: best-feature safety net of mokapot.brew.brew and the direction clause of
mokapot.confidence.assign_confidence.

Oracle (property text): unless Model.override is set, the scores returned by brew either (a) are the column values
of one input feature for every file, with descs giving that feature's better direction, or (b) accept, at test_fdr,
at least as many genuine targets as the best single feature accepted (at train_fdr) on the training rows of a fold.
An exception is not a silent degradation, but only the documented ones are tolerated. assign_confidence with
descs=[False] must keep the LOWEST scoring PSM of every spectrum and rank low scores first.
q-values are recomputed from the definition with exact fractions; only label value 1 / True counts as target.
"""
import json
import logging
import traceback
import warnings
from fractions import Fraction

import numpy as np
import pandas as pd
from sklearn.base import BaseEstimator

from harness.common import Check, args, emit
from harness.datasets import scratch, make_ds

logging.disable(logging.CRITICAL)
warnings.filterwarnings("ignore")

FEATS = ["f0", "f1", "f2"]       # f0 separates, f1 noise, f2 = globally unique row id
ENCODINGS = {"1/-1": (1, -1), "1/0": (1, 0), "bool": (True, False)}
EXPECTED = ("desc-false-ignored", "direction-best-feat-values")


# ------------------------------------------------------------------------------------------------ estimators
class _Base(BaseEstimator):
    def __init__(self, sign=1.0):
        self.sign = sign

    def fit(self, X, y):
        self.seen_ = set(int(v) for v in np.asarray(X)[:, 2])
        return self


class ConstDec(_Base):                      # cannot learn: constant output
    def decision_function(self, X):
        return np.zeros(len(X))


class ConstProba(_Base):
    def predict_proba(self, X):
        return np.zeros((len(X), 2))


class InvertedDec(_Base):                   # minus the best feature (in its good direction)
    def decision_function(self, X):
        return -2.0 * self.sign * np.asarray(X, dtype=float)[:, 0] + 0.5


class MemoProba(_Base):                     # perfect on the rows it was fitted on, inverted on unseen rows
    def predict_proba(self, X):
        X = np.asarray(X, dtype=float)
        seen = np.array([int(v) in self.seen_ for v in X[:, 2]])
        s = 2.0 * np.where(seen, 1.0, -1.0) * self.sign * X[:, 0] + 0.5
        return np.column_stack([-s, s])


class GoodDec(_Base):                       # as good as the best feature
    def decision_function(self, X):
        return 2.0 * self.sign * np.asarray(X, dtype=float)[:, 0] + 0.5


class GoodProba(_Base):
    def predict_proba(self, X):
        s = 2.0 * self.sign * np.asarray(X, dtype=float)[:, 0] + 0.5
        return np.column_stack([-s, s])


ESTIMATORS = {"const-dec": ConstDec, "const-proba": ConstProba, "inverted-dec": InvertedDec, "memo-proba": MemoProba,
              "good-dec": GoodDec, "good-proba": GoodProba}


# ------------------------------------------------------------------------------------------------ q-value oracle
def qvalues(scores, is_target, desc=True):
    """q(s) = min over thresholds t no better than s of (decoys at least as good as t + 1) / (targets ...), <= 1."""
    s = np.asarray(scores, dtype=float).ravel() * (1.0 if desc else -1.0)
    tgt = np.asarray(is_target, dtype=bool)
    out, run = {}, Fraction(1)
    for t in sorted(set(s.tolist())):
        nt = int((tgt & (s >= t)).sum())
        nd = int((~tgt & (s >= t)).sum())
        run = min(run, Fraction(nd + 1, nt) if nt else Fraction(1))
        out[t] = run
    return [out[float(v)] for v in s]


def n_accepted(scores, is_target, fdr, desc=True):
    thr = Fraction(fdr)
    return sum(1 for q, t in zip(qvalues(scores, is_target, desc), is_target) if t and q <= thr)


def is_target_col(col):
    """genuine targets: label 1 or True; -1, 0, False are decoys"""
    return np.array([bool(v) if isinstance(v, (bool, np.bool_)) else int(v) == 1 for v in col.tolist()])


# ------------------------------------------------------------------------------------------------ datasets
def build_frames(c):
    rng = np.random.default_rng(c["data_seed"])
    pos, neg = ENCODINGS[c["encoding"]]
    frames, rid = [], 0
    for n_spec in c["n_spec"]:
        rows = []
        for s in range(n_spec):
            for k in range(c["dup"]):
                tgt = bool(rng.random() < c.get("p_target", 0.5)) if c.get("p_target") else (s + k) % 2 == 0
                good = tgt and rng.random() < 0.65
                f0 = float(rng.normal(4.0 if good else 0.0, 1.0))
                if c.get("ties") and k > 0 and rng.random() < 0.3:
                    f0 = rows[-1]["f0"] * (-1.0 if c["lower"] else 1.0)     # equal scores inside one spectrum
                rows.append(dict(SpecId=rid, Label=pos if tgt else neg, ScanNr=s, ExpMass=100.0 + s,
                                 f0=-f0 if c["lower"] else f0, f1=float(rng.normal()), f2=rid,
                                 Peptide="PEP%dK" % rid, Proteins="prot%d" % (s % 4)))
                rid += 1
        df = pd.DataFrame(rows)
        if c["encoding"] == "bool":
            df["Label"] = df["Label"].astype(bool)
        frames.append(df)
    return frames


def datasets(c, frames, d, tag=""):
    return [make_ds(fr, d / ("%sin%d.%s" % (tag, j, c["fmt"]))) for j, fr in enumerate(frames)]


def fold_structure(c, frames, d):
    """row positions of every fold per file (the structure of the split does not depend on the rng)"""
    out = []
    for ds in datasets(c, frames, d, tag="s_"):
        out.append([np.asarray(a) for a in ds._split(c["folds"], np.random.default_rng(0))])
    return out


# ------------------------------------------------------------------------------------------------ brew check
def run_brew_case(c, d, want_result=False):
    import mokapot
    from mokapot.model import Model
    frames = build_frames(c)
    dss = datasets(c, frames, d)
    sign = -1.0 if c["lower"] else 1.0
    model = Model(ESTIMATORS[c["est"]](sign=sign), scaler="as-is", train_fdr=c["train_fdr"], max_iter=c["max_iter"],
                  direction=c.get("direction"), override=c.get("override", False), rng=c["rng"])
    try:
        psms, models, scores, descs = mokapot.brew(dss, model=model, test_fdr=c["test_fdr"], folds=c["folds"],
                                                   max_workers=1, rng=c["rng"])
    except Exception as e:  # noqa
        msg = "%s: %s" % (type(e).__name__, str(e)[:200])
        if isinstance(e, RuntimeError) and ("Failed to calibrate scores" in str(e) or "No PSMs accepted at train_fdr" in str(e)
                                            or "No PSMs found below" in str(e)):
            res = ("loud", msg, [])
        elif isinstance(e, ValueError) and ("No decoy PSMs were" in str(e) or "No target PSMs were" in str(e)):
            res = ("loud", msg, [])         # a training set without decoys / targets is refused by design
        else:
            frames_tb = [f.name for f in traceback.extract_tb(e.__traceback__)]
            if c.get("direction") and any(frames_tb[i:i + 2] == ["brew", "read_data"] for i in range(len(frames_tb))):
                # the fallback's read of column `feat` (brew calls read_data itself only there)
                res = ("bad", msg, [("direction-best-feat-values", "fallback with Model(direction=%r): %s" % (c["direction"], msg))])
            else:
                res = ("bad", msg, [("brew-raises-" + type(e).__name__, msg)])
        return res + ((None,) if want_result else ())
    tgts = [is_target_col(fr["Label"]) for fr in frames]
    flat = [np.asarray(s, dtype=float).ravel() for s in scores]
    bad = []
    if len(flat) != len(frames) or any(len(s) != len(fr) for s, fr in zip(flat, frames)) or len(descs) != len(frames):
        return ("bad", "", [("score-shape", "scores/descs do not match the input files")]) + ((None,) if want_result else ())
    if c.get("override", False):
        return ("override", "", []) + ((None,) if want_result else ())
    nonfinite = sum(int((~np.isfinite(s)).sum()) for s in flat)
    if nonfinite:       # nothing can be ranked or accepted by NaN/inf; seen with a constant decision_function whose
        # per-fold calibration divides 0 by 0 when the all-tied scores "accept" every target
        bad.append(("non-finite-scores-returned", "brew returned NaN/inf for %d of %d PSMs (estimator %s, descs=%s) instead "
                    "of falling back to the best feature" % (nonfinite, sum(len(s) for s in flat), c["est"], list(descs))))
        return ("bad", "", bad) + ((None,) if want_result else ())
    # the best single feature during training: per fold, accepted targets at train_fdr on the training rows
    split = fold_structure(c, frames, d)
    table = {}
    for i in range(c["folds"]):
        keep = [np.setdiff1d(np.arange(len(fr)), sp[i]) for fr, sp in zip(frames, split)]
        t_tr = np.concatenate([t[k] for t, k in zip(tgts, keep)])
        for f in ([c["direction"]] if c.get("direction") else FEATS):
            col = np.concatenate([fr[f].to_numpy(dtype=float)[k] for fr, k in zip(frames, keep)])
            for dsc in (True, False):
                table[(i, f, dsc)] = n_accepted(col, t_tr, c["train_fdr"], dsc)
    B = max(table.values())
    best_pairs = set((f, dsc) for (i, f, dsc), v in table.items() if v == B)
    # (a) fallback: every file's scores are the column of one feature (text files: up to the parser's last digit)
    fb = [f for f in FEATS if all(np.allclose(s, fr[f].to_numpy(dtype=float), rtol=1e-12, atol=1e-12)
                                  for s, fr in zip(flat, frames))]
    kind = "model"
    if fb:
        kind = "fallback"
        if len(set(bool(x) for x in descs)) != 1 or (fb[0], bool(descs[0])) not in best_pairs:
            bad.append(("fallback-not-best-feature-or-direction", "scores are the column of %s with descs=%s, but the best "
                        "feature/direction on a training fold is %s (%d targets)" % (fb[0], list(descs), sorted(best_pairs), B)))
    else:
        # (b) at least as many targets as the best single feature during training
        A = sum(n_accepted(s, t, c["test_fdr"], bool(dsc)) for s, t, dsc in zip(flat, tgts, descs))
        if A < B:
            bad.append(("worse-than-best-feature-no-fallback", "returned scores accept %d targets at %g, the best feature "
                        "accepted %d on a training fold at %g, and the scores are not a feature column"
                        % (A, c["test_fdr"], B, c["train_fdr"])))
    res = ("bad" if bad else kind, "", bad)
    return res + (((dss, frames, scores, descs),) if want_result else ())


def gen_brew_cases(tier, seed):
    rng = np.random.default_rng(seed)
    cases = []
    reps = 1 if tier == "quick" else 12
    for rep in range(reps):
        for enc in ENCODINGS:
            for lower in (False, True):
                for fmt in ("parquet", "tab"):
                    for est in ESTIMATORS:
                        cases.append(dict(n_spec=[int(rng.integers(30, 61))], dup=2, data_seed=int(rng.integers(0, 10 ** 6)),
                                          encoding=enc, lower=lower, fmt=fmt, est=est, train_fdr=0.25, test_fdr=0.25,
                                          max_iter=int(rng.integers(1, 4)), folds=3, rng=int(rng.integers(0, 10 ** 6))))
    # found by this check (thorough tier): constant decision_function on target-rich data -> all scores NaN
    cases.append(dict(n_spec=[47], dup=1, data_seed=49986, encoding="1/-1", lower=False, fmt="tab", est="const-dec",
                      train_fdr=0.25, test_fdr=0.5, max_iter=2, folds=2, rng=316499, p_target=0.8))
    extra = 40 if tier == "quick" else 600
    for k in range(extra):
        c = dict(n_spec=[int(rng.integers(20, 50)) for _ in range(int(rng.choice([1, 2, 3])))], dup=int(rng.integers(1, 4)),
                 data_seed=int(rng.integers(0, 10 ** 6)), encoding=str(rng.choice(list(ENCODINGS))),
                 lower=bool(rng.random() < 0.5), fmt=str(rng.choice(["parquet", "tab"])),
                 est=str(rng.choice(list(ESTIMATORS))), train_fdr=float(rng.choice([0.125, 0.25, 0.5])),
                 test_fdr=float(rng.choice([0.125, 0.25, 0.5])), max_iter=int(rng.integers(1, 4)),
                 folds=int(rng.integers(2, 5)), rng=int(rng.integers(0, 10 ** 6)))
        r = rng.random()
        if r < 0.25:
            c["p_target"] = 0.8             # target rich: all-zero scores tie everything and may accept every target
        if 0.25 <= r < 0.5:
            c["direction"] = "f0"
        if r >= 0.9:
            c["override"] = True
        cases.append(c)
    return cases


def check_fallback(tier, seed):
    cases = gen_brew_cases(tier, seed)
    ck = Check("brew_best_feature_net", "mokapot.brew.brew (tail block), Model.fit/_get_starting_labels, dataset.update_labels",
               "grid: 3 label encodings x higher/lower-is-better best feature x Parquet/tab-delimited x 6 estimators "
               "(constant decision_function, constant predict_proba, inverted, memorising (inverted on unseen rows), two that "
               "reproduce the best feature) on %s dataset(s) of 30-60 spectra x 2 PSMs, 3 folds, train_fdr=test_fdr=0.25; + %d "
               "random configurations with seed %d: 1-3 files of 20-49 spectra x 1-3 PSMs, folds 2-4, train/test fdr in "
               "{0.125,0.25,0.5}, 25%% target-rich data, 25%% Model(direction='f0'), 10%% override=True; + 1 fixed seed"
               % ("1" if tier == "quick" else "12", 40 if tier == "quick" else 600, seed),
               "non-trivial = brew returned and either fell back to a feature column or returned model scores that were "
               "compared with the best feature's count on the training folds; loud failures (documented RuntimeErrors) and "
               "override=True runs are evaluations only")
    found, kinds = [], {}
    with scratch("c07_") as d:
        for c in cases:
            kind, msg, bad = run_brew_case(c, d)
            kinds[kind] = kinds.get(kind, 0) + 1
            ck.case(c, nontrivial=kind in ("fallback", "model"))
            found += [(cid, what, c) for cid, what in bad]
    ck.rule += "; outcomes: %s" % json.dumps(kinds, sort_keys=True)
    report(ck, found)
    return ck


def report(ck, found):
    best = {}
    for cid, what, inp in found:
        size = len(json.dumps(inp, default=str)) + 50 * sum(inp.get("n_spec", [0]))
        if cid not in best or size < best[cid][0]:
            best[cid] = (size, what, inp)
    for cid in sorted(best, key=lambda k: (k in EXPECTED, k)):
        ck.violation(cid, best[cid][1], best[cid][2])


# ------------------------------------------------------------------------------------------------ direction clause
def expected_confidence(frame, scores, desc):
    """per spectrum the best score in direction `desc`; q-values are computed on the retained rows by the caller"""
    s = np.asarray(scores, dtype=float).ravel()
    key = list(zip(frame["ScanNr"].tolist(), frame["ExpMass"].tolist()))
    best = {}
    for k, v in zip(key, s):
        best[k] = v if k not in best else (max(best[k], v) if desc else min(best[k], v))
    return key, best


def judge_confidence(frame, scores, out_rows, desc):
    """out_rows: {PSMId: q-value} over targets and decoys. Returns None when the output is what direction `desc`
    demands, else a description."""
    s = np.asarray(scores, dtype=float).ravel()
    key, best = expected_confidence(frame, s, desc)
    ids = frame["SpecId"].tolist()
    pos = {i: p for p, i in enumerate(ids)}
    if any(i not in pos for i in out_rows):
        return "unknown PSMId in the output"
    kept = sorted(pos[i] for i in out_rows)
    ks = [key[p] for p in kept]
    if len(set(ks)) != len(ks) or set(ks) != set(key):
        return "not exactly one PSM per spectrum (%d rows, %d spectra)" % (len(kept), len(set(key)))
    wrong = [ids[p] for p in kept if s[p] != best[key[p]]]
    if wrong:
        return "retained PSMs %s are not the %s scoring ones of their spectra" % (wrong[:4], "highest" if desc else "lowest")
    tgt = is_target_col(frame["Label"])
    q = qvalues(s[kept], tgt[kept], desc)
    off = [ids[p] for p, qq in zip(kept, q) if abs(float(qq) - out_rows[ids[p]]) > 1e-6]
    if off:
        return "q-values of PSMs %s are not those of ranking %s scores first" % (off[:4], "high" if desc else "low")
    return None


def run_confidence(dss, frames, scores, descs, d, name):
    from mokapot.confidence import assign_confidence
    out = d / name
    out.mkdir(exist_ok=True)
    res = []
    try:
        assign_confidence(dss, max_workers=1, scores=scores, descs=descs, eval_fdr=0.25, dest_dir=out,
                          prefixes=[("file%d" % j) for j in range(len(dss))] if len(dss) > 1 else [None], decoys=True,
                          do_rollup=False)
        for j in range(len(dss)):
            pre = "file%d." % j if len(dss) > 1 else ""
            rows = {}
            for part in ("targets", "decoys"):
                t = pd.read_csv(out / ("%s%s.psms" % (pre, part)), sep="\t")
                rows.update(dict(zip(t["PSMId"].tolist(), t["q-value"].tolist())))
            res.append(rows)
    finally:
        for p in out.iterdir():
            p.unlink()
    return res


def run_direction_case(c, d):
    """c['source'] = 'feature': scores are the f0 column, descs=[c['desc']]; 'brew': scores/descs as returned by brew."""
    if c["source"] == "feature":
        frames = build_frames(c)
        dss = datasets(c, frames, d)
        scores = [fr["f0"].to_numpy(dtype=float) for fr in frames]
        descs = [c["desc"]] * len(frames)
    else:
        kind, msg, bad, result = run_brew_case(c, d, want_result=True)
        if result is None or kind != "fallback":
            return "skip", []
        dss, frames, scores, descs = result
        dss = datasets(c, frames, d)        # fresh dataset objects (brew consumed the spectra table)
    for fr, sc in zip(frames, scores):      # degenerate for confidence estimation: the retained PSMs may hold only
        tg = is_target_col(fr["Label"])     # targets or only decoys (the PEP step then exits or fails: C06 matter)
        sv = np.asarray(sc, dtype=float).ravel()
        for dsc in (True, False):
            key, best = expected_confidence(fr, sv, dsc)
            cand = {}
            for p in range(len(sv)):
                if sv[p] == best[key[p]]:
                    cand.setdefault(key[p], set()).add(bool(tg[p]))
            if any(all(lab in v for v in cand.values()) for lab in (True, False)):   # some tie-break keeps one class only
                return "skip", []
    try:
        outs = run_confidence(dss, frames, scores, list(descs), d, "conf")
    except SystemExit:      # triqler's qvality exits when the retained PSMs hold no target (or no decoy): PEP matter (C06)
        return "skip", []
    except Exception as e:  # noqa
        return "ran", [("assign-confidence-raises-" + type(e).__name__, "%s: %s" % (type(e).__name__, str(e)[:200]))]
    bad, informative = [], False
    for fr, s, dsc, rows in zip(frames, scores, descs, outs):
        dsc = bool(dsc)
        as_asked = judge_confidence(fr, s, rows, dsc)
        other = judge_confidence(fr, s, rows, not dsc)
        informative = informative or (as_asked is None) != (other is None)
        if as_asked is None:
            continue
        if not dsc and other is None:
            bad.append(("desc-false-ignored", "descs=[False]: %s; the output is exactly what descs=[True] gives" % as_asked))
        elif not dsc:
            bad.append(("desc-false-other-output", as_asked))
        else:
            bad.append(("desc-true-wrong-output", as_asked))
    return ("informative" if informative else "ran"), bad


def gen_direction_cases(tier, seed):
    rng = np.random.default_rng(seed + 7)
    cases = []
    n = 36 if tier == "quick" else 600
    for k in range(n):
        desc = bool(k % 2)
        cases.append(dict(source="feature", desc=desc, lower=not desc, n_spec=[int(rng.integers(6, 40))],
                          dup=int(rng.integers(1, 4)), ties=bool(rng.random() < 0.3), data_seed=int(rng.integers(0, 10 ** 6)),
                          encoding=list(ENCODINGS)[k % 3], fmt=["parquet", "tab"][(k // 2) % 2]))
    m = 12 if tier == "quick" else 120
    for k in range(m):                      # brew falls back to the feature, its scores and descs go on to assign_confidence
        cases.append(dict(source="brew", n_spec=[int(rng.integers(20, 40)) for _ in range(1 + k % 2)], dup=2,
                          data_seed=int(rng.integers(0, 10 ** 6)), encoding=list(ENCODINGS)[k % 3], lower=bool((k // 2) % 2),
                          fmt=["parquet", "tab"][(k // 4) % 2], est="const-dec", train_fdr=0.25, test_fdr=0.25, max_iter=1,
                          folds=3, rng=int(rng.integers(0, 10 ** 6))))
    return cases


def check_direction(tier, seed):
    cases = gen_direction_cases(tier, seed)
    nf = sum(1 for c in cases if c["source"] == "feature")
    ck = Check("confidence_direction", "mokapot.confidence.assign_confidence (descs), brew -> assign_confidence hand-over",
               "random with seed %d: %d datasets (6-39 spectra x 1-3 PSMs, 30%% with equal scores inside a spectrum, 3 label "
               "encodings, Parquet/tab-delimited) scored by the f0 column with descs=[False] (lower-is-better column) and "
               "descs=[True] (control) alternately; + %d brew runs with a constant estimator whose fallback scores and descs "
               "are passed on to assign_confidence (1-2 files); deduplication on, no rollup, max_workers=1"
               % (seed + 7, nf, len(cases) - nf),
               "output PSM tables (targets+decoys) compared with: one PSM per spectrum, the best in the requested direction, "
               "q-values of that ranking (tolerance 1e-6); non-trivial = the two directions give different expected outputs "
               "and the real output matches exactly one of them")
    found = []
    with scratch("c07d_") as d:
        for c in cases:
            kind, bad = run_direction_case(c, d)
            ck.case(c, nontrivial=kind == "informative")
            found += [(cid, what, c) for cid, what in bad]
    report(ck, found)
    return ck


def REPLAY(check_name, violation):
    c = violation["input"]
    if isinstance(c, str):
        c = json.loads(c)
    with scratch("c07r_") as d:
        if check_name == "brew_best_feature_net":
            bad = run_brew_case(c, d)[2]
        elif check_name == "confidence_direction":
            bad = run_direction_case(c, d)[1]
        else:
            return {"violated": None, "note": "no replay for %s" % check_name}
    return {"violated": bool(bad), "detail": bad[:3]}


if __name__ == "__main__":
    a = args()
    np.random.seed(a.seed)
    emit([check_fallback(a.tier, a.seed), check_direction(a.tier, a.seed)],
         ["'the best single feature did during training' is taken as: accepted targets at train_fdr on the training rows "
          "(complement of a fold, fold structure read from OnDiskPsmDataset._split) maximised over features, directions "
          "and folds; with Model(direction=f) only feature f",
          "train_fdr/test_fdr restricted to dyadic values because mokapot.qvalues.tdc computes FDRs in float32 (C01 matter)",
          "a documented RuntimeError of brew (calibration impossible, no PSM accepted at train_fdr) is a loud failure, "
          "not a silent degradation",
          "PEP columns are not examined; peps_algorithm left at its default (qvality)"])
