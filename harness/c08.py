"""C08 bounded stand-in: the same seeded analysis repeated in-process, in fresh interpreters with different
PYTHONHASHSEED, and with the returned models fed back in every order.

`analysis(cfg, d)` is the one small pipeline used everywhere: table -> mokapot.read_pin -> brew -> assign_confidence.
It returns sha256 digests (and, in-process, the raw arrays) of the four things the statement names: fold
assignments, model coefficients, scores, result files.  `python -m harness.c08 --worker '<cfg json>'` runs it in a
fresh interpreter and prints the digests.
"""
import copy
import hashlib
import itertools
import json
import logging
import os
import random
import subprocess
import sys
import warnings
from concurrent.futures import ThreadPoolExecutor
from pathlib import Path

from harness.common import Check, args, emit
from harness.datasets import VERIF, scratch, small_df

logging.disable(logging.CRITICAL)
warnings.filterwarnings("ignore")

AA = "ACDEFGHILMNPQSTVWY"           # no K/R: tryptic peptides end in K or R only


# ----------------------------------------------------------------------------------------------- data
def _fasta_and_peptides(data_seed, n_prot=12, decoys=True):
    """A tiny protein database with everything the grouping code cares about: proteins sharing a peptide, proteins
    whose peptides are a subset of another's, and peptides of different proteins that are anagrams of each other
    (same composition).  Returns (fasta text, [(target peptide, protein, decoy peptide)])."""
    rnd = random.Random("c08-fasta-%d" % data_seed)

    def pep():
        return "".join(rnd.choice(AA) for _ in range(rnd.randint(7, 11))) + rnd.choice("KR")
    prots = {}
    for p in range(n_prot):
        prots["sp|P%03d|PROT%d" % (p, p)] = [pep() for _ in range(4)]
    names = list(prots)
    for a, b in zip(names[0::2], names[1::2]):          # anagram pairs: b gets a's peptides with two residues swapped
        prots[b] = prots[b][:2]
        for q in prots[a]:
            j = next(j for j in range(len(q) - 2) if q[j] != q[j + 1])
            prots[b].append(q[:j] + q[j + 1] + q[j] + q[j + 2:])
    prots[names[2]].append(prots[names[3]][0])          # a shared peptide
    prots["sp|SUB01|SUBSET"] = prots[names[5]][:2]      # a protein whose peptides are a subset of another's
    prots["sp|SUB02|SAME"] = list(prots[names[6]])      # two indistinguishable proteins

    def rev(q):
        return q[-2::-1] + q[-1]
    lines, triples = [], []
    for name, peps in prots.items():
        lines.append(">%s some description\n%s" % (name, "".join(peps)))
        if decoys:
            lines.append(">decoy_%s some description\n%s" % (name, "".join(rev(q) for q in peps)))
        for q in peps:
            triples.append((q, name, rev(q)))
    return "\n".join(lines) + "\n", triples


def table(cfg):
    """the PSM table of a configuration (a pure function of cfg)"""
    df = small_df(n_spec=cfg["n_spec"], dup=2, seed=cfg["data_seed"], n_feat=3, n_pep=max(10, cfg["n_spec"] // 3))
    good = ((df["Label"] == 1) & (df["ScanNr"] % 3 != 0)).values        # a second informative feature, so that the
    df["f1"] = df["f1"] + 1.5 * good                                    # learned model beats the best single feature
    if cfg.get("proteins"):
        _, triples = _fasta_and_peptides(cfg["data_seed"])
        rnd = random.Random("c08-psm-%d" % cfg["data_seed"])
        peps, prots = [], []
        names = list(dict.fromkeys(t[1] for t in triples))
        present = set(names[0::2])      # proteins "in the sample": only they get the well-scoring target PSMs, so
        pres = [t for t in triples if t[1] in present]      # that decoy proteins win some of the other pairs
        absent = [t for t in triples if t[1] not in present]
        for lab, is_good in zip(df["Label"], good):
            t, name, dcy = rnd.choice(pres if is_good else absent)
            peps.append(t if lab == 1 else dcy)
            prots.append(name if lab == 1 else "decoy_" + name)
        df["Peptide"], df["Proteins"] = peps, prots
    return df


# ----------------------------------------------------------------------------------------------- analysis
def _sha(*chunks):
    h = hashlib.sha256()
    for c in chunks:
        h.update(c if isinstance(c, bytes) else str(c).encode())
        h.update(b"|")
    return h.hexdigest()


def model_bytes(m):
    import numpy as np
    est = m.estimator
    parts = [str(m.fold).encode(), str(list(m.features) if m.features is not None else None).encode(),
             str(bool(m.is_trained)).encode()]
    for obj, names in ((est, ("coef_", "intercept_")), (m.scaler, ("mean_", "scale_"))):
        for nme in names:
            v = getattr(obj, nme, None)
            parts.append(b"none" if v is None else np.ascontiguousarray(np.asarray(v, dtype=float)).tobytes())
    return parts


def analysis(cfg, d, keep_raw=False, models_in=None):
    """Run the pipeline of cfg in directory d.  models_in: trained models to feed back instead of training."""
    import numpy as np
    import mokapot
    from mokapot import PercolatorModel, assign_confidence, brew
    d = Path(d)
    d.mkdir(parents=True, exist_ok=True)
    if cfg.get("global_seed") is not None:          # the state of the global RNG is NOT part of "a fixed seed"
        np.random.seed(cfg["global_seed"])
    seed, k, w = cfg["seed"], cfg["folds"], cfg["workers"]
    df = table(cfg)
    path = d / ("in.parquet" if cfg["fmt"] == "parquet" else "in.pin")
    if cfg["fmt"] == "parquet":
        df.to_parquet(path, index=False)
    else:
        df.to_csv(path, sep="\t", index=False)
    ds = mokapot.read_pin(path, max_workers=w)[0]
    probe = copy.copy(ds)                             # _split deletes the spectra_dataframe attribute of its dataset
    folds = [np.asarray(f, dtype=np.int64) for f in probe._split(k, np.random.default_rng(seed))]
    proteins = None
    if cfg.get("proteins"):
        fasta, _ = _fasta_and_peptides(cfg["data_seed"], decoys=cfg["proteins"] == "with_decoys")
        (d / "db.fasta").write_text(fasta)
        proteins = mokapot.read_fasta(d / "db.fasta", missed_cleavages=0, min_length=6)
    if models_in is not None:
        model = list(models_in)
    elif cfg.get("model") == "plain":
        # a user-supplied estimator wrapped in mokapot.Model, constructed WITHOUT a generator of its own: the only
        # randomness of its training is the shuffle of the training PSMs, which brew(rng=seed) has to seed
        from sklearn.svm import LinearSVC
        model = mokapot.Model(LinearSVC(dual=False, C=1.0), train_fdr=0.2)
    else:
        model = PercolatorModel(train_fdr=0.2, rng=seed)
    psms, models, scores, descs = brew([ds], model=model, test_fdr=0.2, folds=k, max_workers=w, rng=seed)
    out = d / "out"
    out.mkdir(exist_ok=True)
    assign_confidence(psms, max_workers=w, scores=scores, descs=descs, eval_fdr=0.2, dest_dir=out, prefixes=[None],
                      decoys=True, rng=seed, proteins=proteins, peps_algorithm="qvality")
    files = {p.name: p.read_bytes() for p in sorted(out.iterdir()) if p.is_file()}
    sc = np.ascontiguousarray(np.asarray(scores[0], dtype=float))
    feats = df[[c for c in df.columns if c.startswith("f") and c[1:].isdigit()]].values
    res = {"folds": _sha(*[f.tobytes() for f in folds]),
           "coef": _sha(*[b for m in models for b in model_bytes(m)]),
           "scores": _sha(sc.tobytes(), str(list(descs))),
           "files": {n: hashlib.sha256(b).hexdigest() for n, b in files.items()},
           "trained": bool(all(m.is_trained for m in models)),
           "learned": bool(all(m.is_trained for m in models)
                           and not any(np.array_equal(sc, feats[:, j]) for j in range(feats.shape[1]))),
           "n_files": len(files), "hashseed": os.environ.get("PYTHONHASHSEED")}
    if keep_raw:
        res["raw"] = {"folds": folds, "models": models, "scores": sc, "descs": list(descs), "files": files}
    return res


PARTS = ("folds", "coef", "scores", "files")


def _diff(a, b):
    """names of the parts of two digests that differ"""
    out = [p for p in PARTS[:3] if a[p] != b[p]]
    names = sorted(set(a["files"]) | set(b["files"]))
    out += ["file:" + n for n in names if a["files"].get(n) != b["files"].get(n)]
    return out


def _case_of(diffs):
    """stable class id: the first (most upstream) thing that differs"""
    if "folds" in diffs:
        return "fold-assignment"
    if "coef" in diffs:
        return "model-coefficients"
    if "scores" in diffs:
        return "scores"
    levels = sorted({d.split(".")[-1] for d in diffs})
    return "result-files-" + "+".join(levels)


def base_cfg(seed, data_seed=3, n_spec=150, folds=3, workers=1, fmt="parquet", proteins=None, global_seed=None,
             model=None):
    if proteins:
        fmt = "text"        # protein-level output cannot be produced from Parquet input (proteins.parquet is written as csv)
    cfg = {"seed": seed, "data_seed": data_seed, "n_spec": n_spec, "folds": folds, "workers": workers, "fmt": fmt,
           "proteins": proteins, "global_seed": global_seed}
    if model:
        cfg["model"] = model
    return cfg


# ----------------------------------------------------------------------------------------------- (a) in-process
def check_same_process(tier, seed):
    import numpy as np
    seeds = [seed, seed + 1] if tier == "quick" else [seed + j for j in range(6)]
    variants = [dict(fmt="parquet", workers=1), dict(fmt="text", workers=2),
                dict(fmt="parquet", workers=1, model="plain")]
    if tier != "quick":
        variants += [dict(fmt="text", workers=1, folds=2), dict(fmt="parquet", workers=4, folds=4),
                     dict(fmt="text", workers=2, proteins="with_decoys")]
    ck = Check("repeat_in_process", "mokapot.read_pin + brew + assign_confidence (+ OnDiskPsmDataset._split)",
               "%d analysis seeds x %d configurations (format, workers, folds, PercolatorModel(rng=seed) or a plain "
               "Model(LinearSVC) built without rng%s), 300 PSMs / 150 spectra, 3 features; each "
               "run twice in one process, the global numpy RNG seeded differently before each run"
               % (len(seeds), len(variants), "" if tier == "quick" else ", protein level"),
               "np.array_equal on folds / coefficients / scaler / scores, byte equality of every result file; "
               "non-trivial = all fold models trained and the learned score (not a raw feature) is used")
    with scratch("c08a_") as d:
        for s in seeds:
            for vi, v in enumerate(variants):
                cfg1 = base_cfg(s, global_seed=101, **v)
                cfg2 = base_cfg(s, global_seed=202, **v)
                try:
                    r1 = analysis(cfg1, d / ("s%d_v%d_a" % (s, vi)), keep_raw=True)
                    r2 = analysis(cfg2, d / ("s%d_v%d_b" % (s, vi)), keep_raw=True)
                except Exception as e:
                    ck.case(("inproc", s, v), nontrivial=False)
                    ck.violation("analysis-fails:" + type(e).__name__, "%s: %s" % (type(e).__name__, str(e)[:150]),
                                 {"cfg": cfg1})
                    continue
                ck.case(("inproc", s, sorted(v.items())), nontrivial=r1["learned"])
                a, b = r1["raw"], r2["raw"]
                diffs = []
                if len(a["folds"]) != len(b["folds"]) or not all(np.array_equal(x, y) for x, y in
                                                                   zip(a["folds"], b["folds"])):
                    diffs.append("folds")
                if [model_bytes(m) for m in a["models"]] != [model_bytes(m) for m in b["models"]]:
                    diffs.append("coef")
                if not np.array_equal(a["scores"], b["scores"]) or a["descs"] != b["descs"]:
                    diffs.append("scores")
                diffs += ["file:" + n for n in sorted(set(a["files"]) | set(b["files"]))
                          if a["files"].get(n) != b["files"].get(n)]
                if diffs:
                    ck.violation("repeat-" + _case_of(diffs), "two runs in one process differ in %s" % diffs,
                                 {"cfg": cfg1, "second_global_seed": 202})
    return ck


# ----------------------------------------------------------------------------------------------- (b),(d) sessions
def run_worker(cfg, hashseed):
    env = dict(os.environ)
    env["PYTHONHASHSEED"] = str(hashseed)
    env["PYTHONPATH"] = VERIF + os.pathsep + os.environ.get("MOKAPOT_REPO", "/repo")
    p = subprocess.run([sys.executable, "-m", "harness.c08", "--worker", json.dumps(cfg)], cwd=VERIF, env=env,
                       capture_output=True, text=True, timeout=600)
    lines = [ln for ln in p.stdout.splitlines() if ln.startswith("{")]
    if p.returncode != 0 or not lines:
        return {"error": (p.stderr or p.stdout)[-600:]}
    return json.loads(lines[-1])


def worker_main(cfg):
    with scratch("c08w_") as d:
        print(json.dumps(analysis(cfg, d)))


_POOL = ThreadPoolExecutor(max_workers=8)


def launch(cfgs, hashseeds):
    """start one fresh interpreter per (cfg, hash seed); returns [(cfg index, hash seed, future)]"""
    return [(ci, h, _POOL.submit(run_worker, cfgs[ci], h)) for ci in range(len(cfgs)) for h in hashseeds]


def _sessions(ck, cfgs, hashseeds, what, pending=None):
    pending = pending or launch(cfgs, hashseeds)
    for ci, cfg in enumerate(cfgs):
        rs = [(h, f.result()) for cj, h, f in pending if cj == ci]
        errs = [(h, r["error"]) for h, r in rs if "error" in r]
        ok = [(h, r) for h, r in rs if "error" not in r]
        ck.case((what, sorted((k, str(v)) for k, v in cfg.items())),
                nontrivial=bool(ok) and all(r["learned"] for _, r in ok) and len(ok) >= 2)
        mode = ("-" + cfg["proteins"].replace("_", "-") + "-fasta") if cfg.get("proteins") else ""
        for h, e in errs:
            ck.violation("worker-fails" + mode, "fresh interpreter (PYTHONHASHSEED=%s) failed: %s" % (h, e[-300:]),
                         {"cfg": cfg, "hashseeds": [h]})
        for h, r in ok:
            if str(r["hashseed"]) != str(h):
                ck.violation("harness-hashseed-not-set", "worker did not see its PYTHONHASHSEED", {"cfg": cfg})
        for (h1, r1) in ok[1:]:
            h0, r0 = ok[0]
            diffs = _diff(r0, r1)
            if diffs:
                ck.violation("hashseed%s:%s" % (mode, _case_of(diffs)),
                             "PYTHONHASHSEED=%s vs %s (same seed %d%s): %s differ"
                             % (h0, h1, cfg["seed"], "" if cfg.get("global_seed") is None else
                                ", np.random.seed(%d)" % cfg["global_seed"], diffs),
                             {"cfg": cfg, "hashseeds": [h0, h1]})


def session_plan(tier, seed):
    hs = [0, 12345] if tier == "quick" else [0, 1, 12345, 987654]
    seeds = [seed, seed + 1] if tier == "quick" else [seed + j for j in range(4)]
    variants = [dict(fmt="parquet", workers=1), dict(fmt="parquet", workers=1, model="plain")]
    if tier != "quick":
        variants = [dict(fmt=f, workers=w) for f in ("parquet", "text") for w in (1, 2, 4)] + \
            [dict(fmt="text", workers=2, model="plain")]
    return [base_cfg(s, **v) for s in seeds for v in variants], hs, len(seeds), len(variants)


def check_sessions(tier, seed, pending=None):
    cfgs, hs, n_seeds, n_var = session_plan(tier, seed)
    ck = Check("fresh_interpreters", "mokapot.read_pin + brew + assign_confidence in `python -m harness.c08 --worker`",
               "PYTHONHASHSEED in %s x %d analysis seeds x %d configurations (format x max_workers x model kind), 300 PSMs; global numpy "
               "RNG left at its (entropy-seeded) start-up state" % (hs, n_seeds, n_var),
               "sha256 of fold assignments, coefficients+scaler, scores, each result file compared between sessions; "
               "non-trivial = all fold models trained and the learned score is used in every session")
    _sessions(ck, cfgs, hs, "session", pending)
    return ck


def protein_plan(tier, seed):
    hs = [0, 1, 12345] if tier == "quick" else [0, 1, 2, 3, 12345, 987654]
    seeds = [seed] if tier == "quick" else [seed, seed + 1, seed + 2]
    cfgs = []
    for s in seeds:
        cfgs.append(base_cfg(s, proteins="with_decoys"))
        # a target-only FASTA maps decoy peptides with the GLOBAL numpy RNG (by design); the CLI seeds it, so do we
        cfgs.append(base_cfg(s, proteins="target_only", global_seed=s))
    return cfgs, hs, len(seeds)


def check_protein_sessions(tier, seed, pending=None):
    cfgs, hs, n_seeds = protein_plan(tier, seed)
    ck = Check("fresh_interpreters_proteins", "mokapot.read_fasta + brew + assign_confidence(proteins=...)",
               "PYTHONHASHSEED in %s x %d seeds x {FASTA with decoys, target-only FASTA with np.random.seed(seed) as the "
               "CLI does}; 14 target proteins (shared peptide, subset protein, identical proteins, peptides of equal "
               "composition in different proteins), 300 PSMs, tab-delimited input" % (hs, n_seeds),
               "sha256 of every result file incl. targets.proteins / decoys.proteins compared between sessions; "
               "non-trivial = models trained and learned score used")
    _sessions(ck, cfgs, hs, "protein-session", pending)
    return ck


# ----------------------------------------------------------------------------------------------- (c) model order
def check_model_order(tier, seed):
    import numpy as np
    ks = [2, 3] if tier == "quick" else [2, 3, 4]
    seeds = [seed] if tier == "quick" else [seed, seed + 1]
    ck = Check("model_order", "mokapot.brew(psms, model=[trained models in any order], folds=k, rng=seed)",
               "all k! orders of the k models returned by a first run, k in %s, %d seed(s), 300 PSMs" % (ks, len(seeds)),
               "scores of the second run must be np.array_equal to the first run's; non-trivial = a non-identity order "
               "of trained models with pairwise different coefficients")
    with scratch("c08c_") as d:
        for s in seeds:
            for k in ks:
                cfg = base_cfg(s, folds=k)
                first = analysis(cfg, d / ("k%d_s%d_first" % (k, s)), keep_raw=True)
                models = first["raw"]["models"]
                if not first["trained"]:        # nothing to feed back: brew rejects untrained models by contract
                    ck.case(("order", s, k, "first run left a fold model untrained"), nontrivial=False)
                    continue
                coefs = [model_bytes(m)[3] for m in models]
                distinct = first["trained"] and len(set(coefs)) == len(coefs)
                for perm in itertools.permutations(range(k)):
                    ck.case(("order", s, k, perm), nontrivial=distinct and perm != tuple(range(k)))
                    try:
                        again = analysis(cfg, d / ("k%d_s%d_%s" % (k, s, "".join(map(str, perm)))), keep_raw=True,
                                         models_in=[copy.deepcopy(models[j]) for j in perm])
                    except Exception as e:
                        ck.violation("model-order-fails:" + type(e).__name__, "%s: %s" % (type(e).__name__, str(e)[:150]),
                                     {"cfg": cfg, "perm": list(perm)})
                        continue
                    same = np.array_equal(first["raw"]["scores"], again["raw"]["scores"]) \
                        and first["raw"]["descs"] == again["raw"]["descs"]
                    if not same:
                        n = int((first["raw"]["scores"] != again["raw"]["scores"]).sum())
                        ck.violation("model-order-identity" if perm == tuple(range(k)) else "model-order-permuted",
                                     "models fed back in order %s: %d of %d scores differ from the first run"
                                     % (list(perm), n, len(again["raw"]["scores"])), {"cfg": cfg, "perm": list(perm)})
                    elif _diff(first, again):
                        ck.violation("model-order-files", "models fed back in order %s: %s differ"
                                     % (list(perm), _diff(first, again)), {"cfg": cfg, "perm": list(perm)})
    return ck


def REPLAY(check_name, violation):
    import numpy as np
    inp = violation["input"]
    if isinstance(inp, str):
        inp = json.loads(inp)
    cfg = inp["cfg"]
    with scratch("c08p_") as d:
        if "perm" in inp:
            first = analysis(cfg, d / "first", keep_raw=True)
            again = analysis(cfg, d / "again", keep_raw=True,
                             models_in=[copy.deepcopy(first["raw"]["models"][j]) for j in inp["perm"]])
            same = np.array_equal(first["raw"]["scores"], again["raw"]["scores"]) and not _diff(first, again)
            return {"violated": not same, "detail": _diff(first, again)}
        if "hashseeds" in inp:
            hs = inp["hashseeds"] if len(inp["hashseeds"]) > 1 else inp["hashseeds"] * 2
            r0, r1 = run_worker(cfg, hs[0]), run_worker(cfg, hs[1])
            if "error" in r0 or "error" in r1:
                return {"violated": True, "detail": [r0.get("error"), r1.get("error")]}
            return {"violated": bool(_diff(r0, r1)), "detail": _diff(r0, r1)}
        r0 = analysis(cfg, d / "a")
        r1 = analysis(dict(cfg, global_seed=inp.get("second_global_seed", 202)), d / "b")
        return {"violated": bool(_diff(r0, r1)), "detail": _diff(r0, r1)}


if __name__ == "__main__":
    if len(sys.argv) > 2 and sys.argv[1] == "--worker":
        worker_main(json.loads(sys.argv[2]))
        sys.exit(0)
    a = args()
    plan_b, plan_d = session_plan(a.tier, a.seed), protein_plan(a.tier, a.seed)
    pend_b, pend_d = launch(plan_b[0], plan_b[1]), launch(plan_d[0], plan_d[1])    # run while (a) and (c) compute
    emit([check_same_process(a.tier, a.seed), check_model_order(a.tier, a.seed),
          check_sessions(a.tier, a.seed, pend_b), check_protein_sessions(a.tier, a.seed, pend_d)],
         ["bit-identity is observed on this machine / BLAS / thread configuration only; sklearn and numpy numerics are "
          "not varied",
          "PEPs with the default 'qvality' algorithm (hist_nnls cannot run with the installed SciPy)",
          "PercolatorModel(train_fdr=0.2), test_fdr = eval_fdr = 0.2 on 300 generated PSMs",
          "target-only FASTA: np.random.seed(seed) is called before the analysis, as mokapot's CLI does, because "
          "match_decoy draws from the global RNG by design"])
