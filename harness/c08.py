"""C08 bounded stand-in: the same seeded analysis repeated in-process, in fresh interpreters with different
PYTHONHASHSEED, and with the returned models fed back in every order.

`analysis(cfg, d)` is the one small pipeline used everywhere: table -> mokapot.read_pin -> brew -> assign_confidence.
It returns sha256 digests (and, in-process, the raw arrays) of the four things the statement names: fold
assignments, model coefficients, scores, result files.  `python -m harness.c08 --worker '<cfg json>'` runs it in a
fresh interpreter and prints the digests.

Two classes of INPUT are run through fresh interpreters as well (check `fresh_interpreters_inputs`), both at the level
of the reader alone (`--worker '{"kind": "readers", ...}'`: mokapot.read_fasta / mokapot.read_pin only, many inputs
per interpreter) and through the whole analysis:
  * a protein database given as SEVERAL FASTA files with indistinguishable proteins (identical peptide sets under
    different accessions, equal-sized subset proteins, one accession listed again with another sequence) spread over
    the files, as with a database plus contaminant / spike-in files;
  * PSM tables in which one or two FEATURE columns really contain missing values (read_pin drops such features), for
    several sizes of the column slices in which read_pin looks for them.
"""
import copy
import hashlib
import itertools
import json
import logging
import os
import random
import subprocess
import sys
import traceback
import warnings
from concurrent.futures import ThreadPoolExecutor
from pathlib import Path

from harness.common import Check, args, emit
from harness.datasets import VERIF, scratch, small_df

logging.disable(logging.CRITICAL)
warnings.filterwarnings("ignore")

AA = "ACDEFGHILMNPQSTVWY"           # no K/R: tryptic peptides end in K or R only


# ----------------------------------------------------------------------------------------------- data
def _fasta_and_peptides(data_seed, n_prot=12, decoys=True):
    """A tiny protein database with everything the grouping code cares about: proteins sharing a peptide, proteins
    whose peptides are a subset of another's, and peptides of different proteins that are anagrams of each other
    (same composition).  Returns (fasta text, [(target peptide, protein, decoy peptide)])."""
    rnd = random.Random("c08-fasta-%d" % data_seed)

    def pep():
        return "".join(rnd.choice(AA) for _ in range(rnd.randint(7, 11))) + rnd.choice("KR")
    prots = {}
    for p in range(n_prot):
        prots["sp|P%03d|PROT%d" % (p, p)] = [pep() for _ in range(4)]
    names = list(prots)
    for a, b in zip(names[0::2], names[1::2]):          # anagram pairs: b gets a's peptides with two residues swapped
        prots[b] = prots[b][:2]
        for q in prots[a]:
            j = next(j for j in range(len(q) - 2) if q[j] != q[j + 1])
            prots[b].append(q[:j] + q[j + 1] + q[j] + q[j + 2:])
    prots[names[2]].append(prots[names[3]][0])          # a shared peptide
    prots["sp|SUB01|SUBSET"] = prots[names[5]][:2]      # a protein whose peptides are a subset of another's
    prots["sp|SUB02|SAME"] = list(prots[names[6]])      # two indistinguishable proteins

    def rev(q):
        return q[-2::-1] + q[-1]
    lines, triples = [], []
    for name, peps in prots.items():
        lines.append(">%s some description\n%s" % (name, "".join(peps)))
        if decoys:
            lines.append(">decoy_%s some description\n%s" % (name, "".join(rev(q) for q in peps)))
        for q in peps:
            triples.append((q, name, rev(q)))
    return "\n".join(lines) + "\n", triples


def _multi_fasta(data_seed, names, decoys=True):
    """The database of _fasta_and_peptides spread over len(names) >= 2 FASTA files the way a search database plus
    contaminant / spike-in files are: the first file is the complete base database; every further file j holds
      * another accession with exactly the sequence of base protein 6 (with the base's own duplicate of that protein
        this makes one group of indistinguishable proteins with a member in EVERY file),
      * another accession with exactly the sequence of one more base protein (a two-file group),
      * a protein made of the first two peptides of base protein 8 (the same peptide set in every further file: subset
        proteins with equally many peptides, in different files),
    and the last file lists the accession of base protein 10 once more with a shorter sequence (one accession, two
    sequences, in different files).  Returns ([(file name, text)], {accession: index of its file})."""
    base, triples = _fasta_and_peptides(data_seed, decoys=decoys)
    peps = {}
    for q, name, _ in triples:
        peps.setdefault(name, []).append(q)
    tn = list(peps)

    def rev(q):
        return q[-2::-1] + q[-1]
    files, where = [(names[0], base)], {n: 0 for n in tn}
    for j in range(1, len(names)):
        entries = [("cRAP%d|X%03d|ALIAS_OF_6" % (j, j), peps[tn[6]]),
                   ("cRAP%d|Y%03d|ALIAS" % (j, j), peps[tn[(2, 4, 0)[(j - 1) % 3]]]),
                   ("cRAP%d|S%03d|PART_OF_8" % (j, j), peps[tn[8]][:2])]
        for n, _ in entries:
            where[n] = j
        if j == len(names) - 1:
            entries.append((tn[10], peps[tn[10]][:3]))
        lines = []
        for n, ps in entries:
            lines.append(">%s another description\n%s" % (n, "".join(ps)))
            if decoys:
                lines.append(">decoy_%s another description\n%s" % (n, "".join(rev(q) for q in ps)))
        files.append((names[j], "\n".join(lines) + "\n"))
    return files, where


FEATURE_NAME_SETS = {"sequest": ["xcorr", "deltacn", "lnrsp", "peplen", "dm", "enzint", "ions", "sp"]}


def feature_names(cfg):
    """names of the feature columns of table(cfg), in file order"""
    n = cfg.get("n_feat", 3)
    if cfg.get("feat_names"):
        return FEATURE_NAME_SETS[cfg["feat_names"]][:n]
    return ["f%d" % j for j in range(n)]


def complete_features(cfg):
    """ORACLE (from the documented contract of read_pin, not from its code): the features read_pin may use are the
    feature columns of the file without missing values, in file order"""
    names = feature_names(cfg)
    gappy = {names[j] for j in cfg.get("nan_cols") or []}
    return [f for f in names if f not in gappy]


def table(cfg):
    """the PSM table of a configuration (a pure function of cfg).  cfg["nan_cols"]: indices of the feature columns in
    which about 4 % of the values (at least one) are missing; only noise features (index >= 2) are meant."""
    df = small_df(n_spec=cfg["n_spec"], dup=2, seed=cfg["data_seed"], n_feat=cfg.get("n_feat", 3),
                  n_pep=max(10, cfg["n_spec"] // 3))
    good = ((df["Label"] == 1) & (df["ScanNr"] % 3 != 0)).values        # a second informative feature, so that the
    df["f1"] = df["f1"] + 1.5 * good                                    # learned model beats the best single feature
    if cfg.get("proteins"):
        _, triples = _fasta_and_peptides(cfg["data_seed"])
        rnd = random.Random("c08-psm-%d" % cfg["data_seed"])
        peps, prots = [], []
        names = list(dict.fromkeys(t[1] for t in triples))
        present = set(names[0::2])      # proteins "in the sample": only they get the well-scoring target PSMs, so
        pres = [t for t in triples if t[1] in present]      # that decoy proteins win some of the other pairs
        absent = [t for t in triples if t[1] not in present]
        for lab, is_good in zip(df["Label"], good):
            t, name, dcy = rnd.choice(pres if is_good else absent)
            peps.append(t if lab == 1 else dcy)
            prots.append(name if lab == 1 else "decoy_" + name)
        df["Peptide"], df["Proteins"] = peps, prots
    for j in cfg.get("nan_cols") or []:
        rnd = random.Random("c08-nan-%d-%d" % (cfg["data_seed"], j))
        rows = rnd.sample(range(len(df)), max(1, len(df) // 25))
        if cfg.get("nan_tail"):                 # missing values only in the last row chunk(s) of the file
            rows = [len(df) - 1 - r % max(1, len(df) // 4) for r in rows]
        df.loc[rows, "f%d" % j] = float("nan")
    if cfg.get("feat_names"):
        df = df.rename(columns=dict(zip(["f%d" % j for j in range(cfg.get("n_feat", 3))], feature_names(cfg))))
    return df


# ----------------------------------------------------------------------------------------------- analysis
def _sha(*chunks):
    h = hashlib.sha256()
    for c in chunks:
        h.update(c if isinstance(c, bytes) else str(c).encode())
        h.update(b"|")
    return h.hexdigest()


def model_bytes(m):
    import numpy as np
    est = m.estimator
    parts = [str(m.fold).encode(), str(list(m.features) if m.features is not None else None).encode(),
             str(bool(m.is_trained)).encode()]
    for obj, names in ((est, ("coef_", "intercept_")), (m.scaler, ("mean_", "scale_"))):
        for nme in names:
            v = getattr(obj, nme, None)
            parts.append(b"none" if v is None else np.ascontiguousarray(np.asarray(v, dtype=float)).tobytes())
    return parts


def read_table(cfg, d):
    """write table(cfg) into d and read it with mokapot.read_pin; cfg["col_chunk"] / cfg["row_chunk"] set the size of
    the column slices / row chunks in which read_pin looks for missing values.  Returns (table, dataset)."""
    import mokapot
    import mokapot.parsers.pin as pin
    df = table(cfg)
    path = d / ("in.parquet" if cfg["fmt"] == "parquet" else "in.pin")
    if cfg["fmt"] == "parquet":
        df.to_parquet(path, index=False)
    else:
        df.to_csv(path, sep="\t", index=False)
    saved = pin.CHUNK_SIZE_COLUMNS_FOR_DROP_COLUMNS, pin.CHUNK_SIZE_ROWS_FOR_DROP_COLUMNS
    try:
        if cfg.get("col_chunk"):
            pin.CHUNK_SIZE_COLUMNS_FOR_DROP_COLUMNS = cfg["col_chunk"]
        if cfg.get("row_chunk"):
            pin.CHUNK_SIZE_ROWS_FOR_DROP_COLUMNS = cfg["row_chunk"]
        ds = mokapot.read_pin(path, max_workers=cfg.get("workers", 1))[0]
    finally:
        pin.CHUNK_SIZE_COLUMNS_FOR_DROP_COLUMNS, pin.CHUNK_SIZE_ROWS_FOR_DROP_COLUMNS = saved
    return df, ds


def write_fastas(files, d):
    """write [(name, text)] into d; the paths to hand to read_fasta: the bare names when d is the working directory
    (fresh-interpreter workers: the run is then a function of cfg and PYTHONHASHSEED only, not of the random name of
    the scratch directory), full paths otherwise"""
    d = Path(d)
    for n, text in files:
        (d / n).write_text(text)
    here = Path.cwd().resolve() == d.resolve()
    return [n if here else str(d / n) for n, _ in files]


LAST = {}       # what the current analysis has got so far (a worker reports it when a later step fails)


def analysis(cfg, d, keep_raw=False, models_in=None):
    """Run the pipeline of cfg in directory d.  models_in: trained models to feed back instead of training."""
    import numpy as np
    import mokapot
    from mokapot import PercolatorModel, assign_confidence, brew
    d = Path(d)
    d.mkdir(parents=True, exist_ok=True)
    LAST.clear()
    if cfg.get("global_seed") is not None:          # the state of the global RNG is NOT part of "a fixed seed"
        np.random.seed(cfg["global_seed"])
    seed, k, w = cfg["seed"], cfg["folds"], cfg["workers"]
    df, ds = read_table(cfg, d)
    LAST["features"] = [str(f) for f in ds.feature_columns]
    probe = copy.copy(ds)                             # _split deletes the spectra_dataframe attribute of its dataset
    folds = [np.asarray(f, dtype=np.int64) for f in probe._split(k, np.random.default_rng(seed))]
    proteins = None
    if cfg.get("proteins"):
        if cfg.get("fasta_names"):
            files, _ = _multi_fasta(cfg["data_seed"], cfg["fasta_names"], decoys=cfg["proteins"] == "with_decoys")
            proteins = mokapot.read_fasta(write_fastas(files, d), missed_cleavages=0, min_length=6)
        else:
            fasta, _ = _fasta_and_peptides(cfg["data_seed"], decoys=cfg["proteins"] == "with_decoys")
            (d / "db.fasta").write_text(fasta)
            proteins = mokapot.read_fasta(d / "db.fasta", missed_cleavages=0, min_length=6)
    if models_in is not None:
        model = list(models_in)
    elif cfg.get("model") == "plain":
        # a user-supplied estimator wrapped in mokapot.Model, constructed WITHOUT a generator of its own: the only
        # randomness of its training is the shuffle of the training PSMs, which brew(rng=seed) has to seed
        from sklearn.svm import LinearSVC
        model = mokapot.Model(LinearSVC(dual=False, C=1.0), train_fdr=0.2)
    else:
        model = PercolatorModel(train_fdr=0.2, rng=seed)
    psms, models, scores, descs = brew([ds], model=model, test_fdr=0.2, folds=k, max_workers=w, rng=seed,
                                       **({"ensemble": True} if cfg.get("ensemble") else {}))
    out = d / "out"
    out.mkdir(exist_ok=True)
    assign_confidence(psms, max_workers=w, scores=scores, descs=descs, eval_fdr=0.2, dest_dir=out, prefixes=[None],
                      decoys=True, rng=seed, proteins=proteins, peps_algorithm="qvality")
    files = {p.name: p.read_bytes() for p in sorted(out.iterdir()) if p.is_file()}
    sc = np.ascontiguousarray(np.asarray(scores[0], dtype=float))
    feats = df[feature_names(cfg)].values
    res = {"folds": _sha(*[f.tobytes() for f in folds]),
           "coef": _sha(*[b for m in models for b in model_bytes(m)]),
           "scores": _sha(sc.tobytes(), str(list(descs))),
           "files": {n: hashlib.sha256(b).hexdigest() for n, b in files.items()},
           "trained": bool(all(m.is_trained for m in models)),
           "learned": bool(all(m.is_trained for m in models)
                           and not any(np.array_equal(sc, feats[:, j]) for j in range(feats.shape[1]))),
           "n_files": len(files), "hashseed": os.environ.get("PYTHONHASHSEED"), "features": LAST["features"]}
    if keep_raw:
        res["raw"] = {"folds": folds, "models": models, "scores": sc, "descs": list(descs), "files": files}
    return res


PARTS = ("folds", "coef", "scores", "files")


def _diff(a, b):
    """names of the parts of two digests that differ"""
    out = [p for p in PARTS[:3] if a[p] != b[p]]
    names = sorted(set(a["files"]) | set(b["files"]))
    out += ["file:" + n for n in names if a["files"].get(n) != b["files"].get(n)]
    return out


def _case_of(diffs):
    """stable class id: the first (most upstream) thing that differs"""
    if "folds" in diffs:
        return "fold-assignment"
    if "coef" in diffs:
        return "model-coefficients"
    if "scores" in diffs:
        return "scores"
    levels = sorted({d.split(".")[-1] for d in diffs})
    return "result-files-" + "+".join(levels)


def base_cfg(seed, data_seed=3, n_spec=150, folds=3, workers=1, fmt="parquet", proteins=None, global_seed=None,
             model=None, **inputs):
    """inputs: ensemble (True: brew(ensemble=True), every PSM gets the mean score of all fold models), fasta_names
    (several FASTA files), n_feat / nan_cols / col_chunk / row_chunk / feat_names / nan_tail
    (feature columns with missing values); only the keys that are given are put into the configuration"""
    if proteins:
        fmt = "text"        # protein-level output cannot be produced from Parquet input (proteins.parquet is written as csv)
    cfg = {"seed": seed, "data_seed": data_seed, "n_spec": n_spec, "folds": folds, "workers": workers, "fmt": fmt,
           "proteins": proteins, "global_seed": global_seed}
    if model:
        cfg["model"] = model
    cfg.update({k: v for k, v in inputs.items() if v is not None})
    return cfg


# ----------------------------------------------------------------------------------------------- (a) in-process
def check_same_process(tier, seed):
    import numpy as np
    seeds = [seed, seed + 1] if tier == "quick" else [seed + j for j in range(6)]
    variants = [dict(fmt="parquet", workers=1), dict(fmt="text", workers=2),
                dict(fmt="parquet", workers=1, model="plain")]
    if tier != "quick":
        variants += [dict(fmt="text", workers=1, folds=2), dict(fmt="parquet", workers=4, folds=4),
                     dict(fmt="text", workers=2, proteins="with_decoys"), dict(fmt="parquet", workers=2, ensemble=True)]
    ck = Check("repeat_in_process", "mokapot.read_pin + brew + assign_confidence (+ OnDiskPsmDataset._split)",
               "%d analysis seeds x %d configurations (format, workers, folds, PercolatorModel(rng=seed) or a plain "
               "Model(LinearSVC) built without rng%s), 300 PSMs / 150 spectra, 3 features; each "
               "run twice in one process, the global numpy RNG seeded differently before each run"
               % (len(seeds), len(variants), "" if tier == "quick" else ", protein level, ensemble=True"),
               "np.array_equal on folds / coefficients / scaler / scores, byte equality of every result file; "
               "non-trivial = all fold models trained and the learned score (not a raw feature) is used")
    with scratch("c08a_") as d:
        for s in seeds:
            for vi, v in enumerate(variants):
                cfg1 = base_cfg(s, global_seed=101, **v)
                cfg2 = base_cfg(s, global_seed=202, **v)
                try:
                    r1 = analysis(cfg1, d / ("s%d_v%d_a" % (s, vi)), keep_raw=True)
                    r2 = analysis(cfg2, d / ("s%d_v%d_b" % (s, vi)), keep_raw=True)
                except Exception as e:
                    ck.case(("inproc", s, v), nontrivial=False)
                    ck.violation("analysis-fails:" + type(e).__name__, "%s: %s" % (type(e).__name__, str(e)[:150]),
                                 {"cfg": cfg1})
                    continue
                ck.case(("inproc", s, sorted(v.items())), nontrivial=r1["learned"])
                a, b = r1["raw"], r2["raw"]
                diffs = []
                if len(a["folds"]) != len(b["folds"]) or not all(np.array_equal(x, y) for x, y in
                                                                   zip(a["folds"], b["folds"])):
                    diffs.append("folds")
                if [model_bytes(m) for m in a["models"]] != [model_bytes(m) for m in b["models"]]:
                    diffs.append("coef")
                if not np.array_equal(a["scores"], b["scores"]) or a["descs"] != b["descs"]:
                    diffs.append("scores")
                diffs += ["file:" + n for n in sorted(set(a["files"]) | set(b["files"]))
                          if a["files"].get(n) != b["files"].get(n)]
                if diffs:
                    ck.violation("repeat-" + _case_of(diffs), "two runs in one process differ in %s" % diffs,
                                 {"cfg": cfg1, "second_global_seed": 202})
    return ck


# ----------------------------------------------------------------------------------------------- (b),(d) sessions
def run_worker(cfg, hashseed):
    env = dict(os.environ)
    env["PYTHONHASHSEED"] = str(hashseed)
    env["PYTHONPATH"] = VERIF + os.pathsep + os.environ.get("MOKAPOT_REPO", "/repo")
    p = subprocess.run([sys.executable, "-m", "harness.c08", "--worker", json.dumps(cfg)], cwd=VERIF, env=env,
                       capture_output=True, text=True, timeout=600)
    lines = [ln for ln in p.stdout.splitlines() if ln.startswith("{")]
    if p.returncode != 0 or not lines:
        return {"error": (p.stderr or p.stdout)[-600:]}
    return json.loads(lines[-1])


def safe_analysis(cfg, d):
    """analysis(cfg, d) with d as the working directory (relative FASTA names: see write_fastas); a failure is
    reported together with what the analysis had got so far"""
    d.mkdir(parents=True, exist_ok=True)
    os.chdir(d)
    try:
        return analysis(cfg, d)
    except Exception:
        return {"error": traceback.format_exc()[-600:], "features": LAST.get("features"),
                "hashseed": os.environ.get("PYTHONHASHSEED")}


def worker_main(cfg):
    with scratch("c08w_") as d:
        if cfg.get("kind") == "readers":    # reader-level inputs, then whole analyses, all in this one interpreter
            out = readers(cfg, d)
            out["analyses"] = [safe_analysis(c, d / ("analysis%d" % i)) for i, c in enumerate(cfg.get("analyses") or [])]
        else:
            out = safe_analysis(cfg, d)
        os.chdir(VERIF)
        print(json.dumps(out))


_POOL = ThreadPoolExecutor(max_workers=8)


def launch(cfgs, hashseeds):
    """start one fresh interpreter per (cfg, hash seed); returns [(cfg index, hash seed, future)]"""
    return [(ci, h, _POOL.submit(run_worker, cfgs[ci], h)) for ci in range(len(cfgs)) for h in hashseeds]


def _sessions(ck, cfgs, hashseeds, what, pending=None):
    pending = pending or launch(cfgs, hashseeds)
    for ci, cfg in enumerate(cfgs):
        rs = [(h, f.result()) for cj, h, f in pending if cj == ci]
        errs = [(h, r["error"]) for h, r in rs if "error" in r]
        ok = [(h, r) for h, r in rs if "error" not in r]
        ck.case((what, sorted((k, str(v)) for k, v in cfg.items())),
                nontrivial=bool(ok) and all(r["learned"] for _, r in ok) and len(ok) >= 2)
        mode = "-multi-fasta" if cfg.get("fasta_names") else "-missing-values" if cfg.get("nan_cols") else \
            ("-" + cfg["proteins"].replace("_", "-") + "-fasta") if cfg.get("proteins") else ""
        for h, e in errs:
            ck.violation("worker-fails" + mode, "fresh interpreter (PYTHONHASHSEED=%s) failed: %s" % (h, e[-300:]),
                         {"cfg": cfg, "hashseeds": [h]})
        for h, r in ok:
            if str(r["hashseed"]) != str(h):
                ck.violation("harness-hashseed-not-set", "worker did not see its PYTHONHASHSEED", {"cfg": cfg})
        for (h1, r1) in ok[1:]:
            h0, r0 = ok[0]
            diffs = _diff(r0, r1)
            if diffs:
                ck.violation("hashseed%s:%s" % (mode, _case_of(diffs)),
                             "PYTHONHASHSEED=%s vs %s (same seed %d%s): %s differ"
                             % (h0, h1, cfg["seed"], "" if cfg.get("global_seed") is None else
                                ", np.random.seed(%d)" % cfg["global_seed"], diffs),
                             {"cfg": cfg, "hashseeds": [h0, h1]})


def session_plan(tier, seed):
    hs = [0, 12345] if tier == "quick" else [0, 1, 12345, 987654]
    seeds = [seed, seed + 1] if tier == "quick" else [seed + j for j in range(4)]
    variants = [dict(fmt="parquet", workers=1), dict(fmt="parquet", workers=1, model="plain")]
    if tier != "quick":
        variants = [dict(fmt=f, workers=w) for f in ("parquet", "text") for w in (1, 2, 4)] + \
            [dict(fmt="text", workers=2, model="plain")]
    return [base_cfg(s, **v) for s in seeds for v in variants], hs, len(seeds), len(variants)


def check_sessions(tier, seed, pending=None):
    cfgs, hs, n_seeds, n_var = session_plan(tier, seed)
    ck = Check("fresh_interpreters", "mokapot.read_pin + brew + assign_confidence in `python -m harness.c08 --worker`",
               "PYTHONHASHSEED in %s x %d analysis seeds x %d configurations (format x max_workers x model kind), 300 PSMs; global numpy "
               "RNG left at its (entropy-seeded) start-up state" % (hs, n_seeds, n_var),
               "sha256 of fold assignments, coefficients+scaler, scores, each result file compared between sessions; "
               "non-trivial = all fold models trained and the learned score is used in every session")
    _sessions(ck, cfgs, hs, "session", pending)
    return ck


def protein_plan(tier, seed):
    hs = [0, 1, 12345] if tier == "quick" else [0, 1, 2, 3, 12345, 987654]
    seeds = [seed] if tier == "quick" else [seed, seed + 1, seed + 2]
    cfgs = []
    for s in seeds:
        cfgs.append(base_cfg(s, proteins="with_decoys"))
        # a target-only FASTA maps decoy peptides with the GLOBAL numpy RNG (by design); the CLI seeds it, so do we
        cfgs.append(base_cfg(s, proteins="target_only", global_seed=s))
    return cfgs, hs, len(seeds)


def check_protein_sessions(tier, seed, pending=None):
    cfgs, hs, n_seeds = protein_plan(tier, seed)
    ck = Check("fresh_interpreters_proteins", "mokapot.read_fasta + brew + assign_confidence(proteins=...)",
               "PYTHONHASHSEED in %s x %d seeds x {FASTA with decoys, target-only FASTA with np.random.seed(seed) as the "
               "CLI does}; 14 target proteins (shared peptide, subset protein, identical proteins, peptides of equal "
               "composition in different proteins), 300 PSMs, tab-delimited input" % (hs, n_seeds),
               "sha256 of every result file incl. targets.proteins / decoys.proteins compared between sessions; "
               "non-trivial = models trained and learned score used")
    _sessions(ck, cfgs, hs, "protein-session", pending)
    return ck


# ----------------------------------------------------------------------------------------------- (e) inputs
FASTA_PARTS = ("peptide_map", "protein_map", "shared_peptides", "has_decoys")


def proteins_canon(p):
    """a Proteins object as order-free structures: the maps as sorted item lists (their iteration order is not part
    of any result), the '; '-joined groups of a shared peptide as a sorted list; the group NAMES are kept as they are
    (the order of the members of a group is what ends up in the protein-level result file)"""
    pm = sorted((str(k), str(v)) for k, v in p.peptide_map.items())
    prm = sorted((str(k), str(v)) for k, v in p.protein_map.items())
    sh = sorted((str(k), sorted(str(v).split("; "))) for k, v in p.shared_peptides.items())
    groups = sorted({g for _, g in pm if ", " in g} | {g for _, gs in sh for g in gs if ", " in g})
    return {"peptide_map": _sha(json.dumps(pm)), "protein_map": _sha(json.dumps(prm)),
            "shared_peptides": _sha(json.dumps(sh)), "has_decoys": bool(p.has_decoys), "groups": groups,
            "n_peptides": len(pm)}


def readers(cfg, d):
    """the reader-level worker: every FASTA layout of cfg["fasta"] through mokapot.read_fasta, every table of
    cfg["pin"] through mokapot.read_pin, in ONE interpreter (the working directory is the directory of the files)"""
    import mokapot
    out = {"hashseed": os.environ.get("PYTHONHASHSEED"), "fasta": [], "pin": []}
    for i, lay in enumerate(cfg.get("fasta") or []):
        sub = Path(d) / ("fasta%d" % i)
        sub.mkdir()
        os.chdir(sub)
        try:
            files, _ = _multi_fasta(lay["data_seed"], lay["names"], decoys=lay["decoys"])
            if not lay["decoys"]:
                import numpy as np
                np.random.seed(lay["data_seed"])
            out["fasta"].append(proteins_canon(mokapot.read_fasta(write_fastas(files, sub), missed_cleavages=0,
                                                                  min_length=6)))
        except Exception:
            out["fasta"].append({"error": traceback.format_exc()[-400:]})
    for i, var in enumerate(cfg.get("pin") or []):
        sub = Path(d) / ("pin%d" % i)
        sub.mkdir()
        os.chdir(sub)
        try:
            out["pin"].append({"features": [str(f) for f in read_table(var, sub)[1].feature_columns]})
        except Exception:
            out["pin"].append({"error": traceback.format_exc()[-400:]})
    os.chdir(d)
    return out


def _cross_file_groups(lay, groups):
    """how many of the protein groups reported by a session have members that come from different FASTA files"""
    _, where = _multi_fasta(lay["data_seed"], lay["names"], decoys=lay["decoys"])
    pre = "decoy_"
    n = 0
    for g in groups:
        src = {where.get(m[len(pre):] if m.startswith(pre) else m) for m in g.split(", ")}
        n += len(src - {None}) >= 2
    return n


def reader_compare(kind, item, h0, r0, h1, r1):
    """violations [(case, what)] of one reader-level input between the sessions h0 and h1 (h1 None: r0 alone)"""
    out = []
    name = "read-fasta-multi-file" if kind == "fasta" else "read-pin-missing-values"
    for h, r in ((h0, r0),) + (((h1, r1),) if h1 is not None and h1 != h0 else ()):
        if "error" in r:
            out.append(("reader-fails:" + name, "PYTHONHASHSEED=%s: %s" % (h, r["error"][-250:])))
    if kind == "pin" and "features" in r0 and r0["features"] != complete_features(item):
        out.append((name + ":not-the-complete-features-in-file-order",
                    "PYTHONHASHSEED=%s: read_pin keeps the features %s; the feature columns without missing values "
                    "are %s" % (h0, r0["features"], complete_features(item))))
    if h1 is None or "error" in r0 or "error" in r1:
        return out
    if kind == "pin":
        if r0["features"] != r1["features"]:
            out.append(("hashseed-%s:feature-columns" % name, "PYTHONHASHSEED=%s vs %s: feature_columns %s vs %s"
                        % (h0, h1, r0["features"], r1["features"])))
    else:
        diffs = [q for q in FASTA_PARTS if r0[q] != r1[q]]
        if diffs:
            only0 = [g for g in r0["groups"] if g not in r1["groups"]][:2]
            only1 = [g for g in r1["groups"] if g not in r0["groups"]][:2]
            out.append(("hashseed-%s:%s" % (name, diffs[0].replace("_", "-")),
                        "PYTHONHASHSEED=%s vs %s: %s of read_fasta(%s) differ; groups only in the first %s, only in "
                        "the second %s" % (h0, h1, diffs, item["names"], only0, only1)))
    return out


FASTA_NAME_SETS = [["db.fasta", "contaminants.fasta"], ["uniprot_sprot.fasta", "crap.fasta", "spikein.fasta"],
                   ["a.fa", "b.fa", "c.fa", "d.fa"], ["human.fasta", "yeast.fasta", "irt.fasta"],
                   ["target_decoy.fasta", "mq_contaminants.fasta"], ["1.fasta", "2.fasta", "3.fasta", "4.fasta", "5.fasta"]]


def input_plan(tier, seed):
    """(reader-level inputs, whole-analysis configurations, the hash seeds of the interpreters that run them all)"""
    quick = tier == "quick"
    lays = []
    for li, names in enumerate(FASTA_NAME_SETS if not quick else FASTA_NAME_SETS[:4]):
        for dcy in (True, False) if (not quick or li < 2) else (True,):
            lays.append({"names": names, "data_seed": 10 * seed + li, "decoys": dcy})
    pins = []
    gaps = [[3], [2, 5], [4, 2]] if quick else [[3], [2, 5], [4, 2], [5], [2, 3, 4]]
    for fmt in ("text", "parquet"):
        for ci, chunk in enumerate((2, 3, 19) if quick else (2, 3, 4, 5, 19)):
            for gi, gap in enumerate(gaps):
                var = {"fmt": fmt, "data_seed": 10 * seed + gi, "n_spec": 60, "n_feat": 6, "nan_cols": gap,
                       "col_chunk": chunk}
                if (ci + gi) % 2:
                    var["feat_names"] = "sequest"
                if (ci + gi) % 3 == 2:
                    var["row_chunk"], var["nan_tail"] = 50, True
                pins.append(var)
    hs = [0, 1, 12345] if quick else [0, 1, 2, 3, 12345, 987654]
    seeds = [seed] if quick else [seed, seed + 1]
    cfgs = []
    for s in seeds:
        cfgs.append(base_cfg(s, proteins="with_decoys", fasta_names=FASTA_NAME_SETS[1]))
        cfgs.append(base_cfg(s, fmt="text", n_feat=6, nan_cols=[3], col_chunk=19))
        if not quick:
            cfgs.append(base_cfg(s, fmt="parquet", n_feat=6, nan_cols=[2, 5], col_chunk=2, feat_names="sequest"))
            cfgs.append(base_cfg(s, proteins="target_only", global_seed=s, fasta_names=FASTA_NAME_SETS[0]))
            cfgs.append(base_cfg(s, proteins="with_decoys", fasta_names=FASTA_NAME_SETS[2], workers=2))
            cfgs.append(base_cfg(s, fmt="parquet", n_feat=6, nan_cols=[4], col_chunk=3, workers=2))
            cfgs.append(base_cfg(s, fmt="text", n_feat=6, nan_cols=[5, 3], col_chunk=4, feat_names="sequest",
                                 row_chunk=100))
    return {"kind": "readers", "fasta": lays, "pin": pins}, cfgs, hs


class _Part:
    """the result of ONE whole analysis out of the batch a reader-level worker ran after its reader-level inputs"""

    def __init__(self, future, index):
        self.future, self.index = future, index

    def result(self):
        r = self.future.result()
        return r["analyses"][self.index] if "analyses" in r else r


def launch_inputs(tier, seed):
    """one fresh interpreter per hash seed runs all the reader-level inputs and then the whole analyses (starting an
    interpreter and importing mokapot costs more than these small inputs do)"""
    rcfg, cfgs, hs = input_plan(tier, seed)
    pend_r = launch([dict(rcfg, analyses=cfgs)], hs)
    return pend_r, [(ci, h, _Part(f, ci)) for ci in range(len(cfgs)) for _, h, f in pend_r]


def check_input_sessions(tier, seed, pending=None):
    rcfg, cfgs, hs = input_plan(tier, seed)
    pend_r, pend_a = pending or launch_inputs(tier, seed)
    fa = [c for c in cfgs if c.get("fasta_names")]
    n_files = sorted({len(l["names"]) for l in rcfg["fasta"]})
    n_gaps = sorted({len(v["nan_cols"]) for v in rcfg["pin"]})
    ck = Check("fresh_interpreters_inputs",
               "mokapot.read_fasta([several files]) / mokapot.read_pin(table with missing feature values), alone and "
               "followed by brew + assign_confidence, in `python -m harness.c08 --worker` (one interpreter per hash "
               "seed runs all of these inputs one after the other)",
               "PYTHONHASHSEED in %s.  Reader level: %d multi-file FASTA layouts (%s files under %d sets of file names; "
               "14 target proteins in the first file, in every further file two proteins indistinguishable from "
               "proteins of the first file and an equal-sized subset protein, in the last file one accession listed "
               "again with a shorter sequence; with decoys or target-only after np.random.seed) and %d tables (120 PSMs, 6 "
               "feature columns of which %s noise features have missing values in about 4 %% of the rows; text / Parquet; "
               "column slices of %s columns; some read in 50-row chunks with the missing values only in the last "
               "rows; two sets of feature names).  Whole analysis: %d configurations with %s FASTA files (the same "
               "kind of layout, with decoys%s) and %d with %s feature(s) with missing values (6 features, text%s, "
               "column slices of %s), 300 PSMs"
               % (hs, len(rcfg["fasta"]), n_files, len({tuple(l["names"]) for l in rcfg["fasta"]}), len(rcfg["pin"]),
                  n_gaps, sorted({v["col_chunk"] for v in rcfg["pin"]}), len(fa),
                  sorted({len(c["fasta_names"]) for c in fa}), "" if tier == "quick" else " or target-only",
                  len(cfgs) - len(fa), sorted({len(c["nan_cols"]) for c in cfgs if c.get("nan_cols")}),
                  "" if tier == "quick" else " / Parquet",
                  sorted({c["col_chunk"] for c in cfgs if c.get("nan_cols")})),
               "reader level: sha256 of the sorted items of peptide_map / protein_map / shared_peptides (group names "
               "verbatim) and the list feature_columns compared between sessions; feature_columns also compared with "
               "the feature columns of the written table that have no missing value, in file order (what read_pin "
               "documents).  Whole analysis: as fresh_interpreters, plus feature_columns.  Non-trivial = at least two "
               "sessions ran and (FASTA) at least two protein groups have members from different files / (table) a "
               "feature column has missing values and the column slices hold two or more columns / (analysis) models "
               "trained and the learned score used")
    rs = [(h, f.result()) for _, h, f in pend_r]
    bad = [(h, r) for h, r in rs if "error" in r]
    ok = [(h, r) for h, r in rs if "error" not in r]
    for h, r in bad:
        ck.violation("reader-worker-fails", "fresh interpreter (PYTHONHASHSEED=%s) failed: %s" % (h, r["error"][-300:]),
                     {"cfg": {"kind": "readers", "fasta": rcfg["fasta"][:1], "pin": rcfg["pin"][:1]}, "hashseeds": [h]})
    for h, r in ok:
        if str(r["hashseed"]) != str(h):
            ck.violation("harness-hashseed-not-set", "worker did not see its PYTHONHASHSEED",
                         {"cfg": {"kind": "readers", "fasta": rcfg["fasta"][:1]}, "hashseeds": [h]})
    told = set()            # one violation per class at the reader level: the list of a check holds five

    def tell(case, what, inp):
        if case not in told:
            told.add(case)
            ck.violation(case, what, inp)
    for kind in ("fasta", "pin"):
        for i, item in enumerate(rcfg[kind]):
            got = [(h, r[kind][i]) for h, r in ok]
            if kind == "fasta":
                nontriv = len(got) >= 2 and "groups" in got[0][1] and _cross_file_groups(item, got[0][1]["groups"]) >= 2
            else:
                nontriv = len(got) >= 2 and item["col_chunk"] >= 2 and bool(item["nan_cols"])
            ck.case(("reader", kind, sorted((k, str(v)) for k, v in item.items())), nontrivial=nontriv)
            sub = {"cfg": {"kind": "readers", kind: [item]}}
            ref = next(((h, r) for h, r in got if "error" not in r), None)      # the first session that read the input
            for h, r in got:
                for case, what in reader_compare(kind, item, h, r, None, None):    # this session alone
                    tell(case, what, dict(sub, hashseeds=[h]))
                if "error" not in r and (h, r) != ref:
                    for case, what in reader_compare(kind, item, ref[0], ref[1], h, r):
                        if case.startswith("hashseed-"):
                            tell(case, what, dict(sub, hashseeds=[ref[0], h]))
    # whole analyses: the comparison of fresh_interpreters, then the feature lists (also of sessions that failed later on)
    _sessions(ck, cfgs, hs, "input-session", pend_a)
    for ci, cfg in enumerate(cfgs):
        if not cfg.get("nan_cols"):
            continue
        feats = [(h, f.result().get("features")) for cj, h, f in pend_a if cj == ci]
        feats = [(h, f) for h, f in feats if f is not None]
        for h, f in feats:
            if f != complete_features(cfg):
                ck.violation("missing-values:not-the-complete-features-in-file-order",
                             "PYTHONHASHSEED=%s: the analysis uses the features %s; the feature columns without "
                             "missing values are %s" % (h, f, complete_features(cfg)), {"cfg": cfg, "hashseeds": [h]})
        for h, f in feats[1:]:
            if f != feats[0][1]:
                ck.violation("hashseed-missing-values:feature-columns",
                             "PYTHONHASHSEED=%s vs %s: feature_columns %s vs %s" % (feats[0][0], h, feats[0][1], f),
                             {"cfg": cfg, "hashseeds": [feats[0][0], h]})
    return ck


# ----------------------------------------------------------------------------------------------- (c) model order
def order_plan(tier, seed):
    """[(analysis seed, folds, workers, ensemble)]: the first runs whose models are fed back in all k! orders.  With
    ensemble=True every PSM is scored by ALL models and the scores are averaged, so the order in which the caller
    hands the models over must not even change the last bit of the mean (floating-point addition is not associative:
    for k >= 3 an order other than the fold order up to a swap of the first two sums differently)."""
    if tier == "quick":
        return [(seed, 2, 1, False), (seed, 3, 1, False), (seed, 3, 1, True)]
    plan = [(s, k, 1, False) for s in (seed, seed + 1) for k in (2, 3, 4)]
    plan += [(s, k, w, True) for s, w in ((seed, 1), (seed + 1, 2)) for k in (2, 3, 4)]
    return plan + [(seed, 3, 2, False)]


def check_model_order(tier, seed):
    import numpy as np
    plan = order_plan(tier, seed)
    ck = Check("model_order", "mokapot.brew(psms, model=[trained models in any order], folds=k, rng=seed"
               "[, ensemble=True])",
               "all k! orders of the k models returned by a first run; per-fold scoring (ensemble=False): k in %s, "
               "%d seed(s); ensemble scoring (ensemble=True in both runs, mean of all models for every PSM): k in %s, "
               "%d seed(s); max_workers in %s; 300 PSMs"
               % (sorted({k for _, k, _, e in plan if not e}), len({s for s, _, _, e in plan if not e}),
                  sorted({k for _, k, _, e in plan if e}), len({s for s, _, _, e in plan if e}),
                  sorted({w for _, _, w, _ in plan})),
               "scores of the second run must be np.array_equal (bit for bit) to the first run's, result files "
               "byte-equal; non-trivial = a non-identity order of trained models with pairwise different coefficients")
    with scratch("c08c_") as d:
        for s, k, w, ens in plan:
            cfg = base_cfg(s, folds=k, workers=w, ensemble=ens or None)
            tag = "-ensemble" if ens else ""
            name = "k%d_s%d_w%d%s" % (k, s, w, tag)
            first = analysis(cfg, d / (name + "_first"), keep_raw=True)
            models = first["raw"]["models"]
            if not first["trained"]:        # nothing to feed back: brew rejects untrained models by contract
                ck.case(("order", s, k, w, ens, "first run left a fold model untrained"), nontrivial=False)
                continue
            coefs = [model_bytes(m)[3] for m in models]
            distinct = first["trained"] and len(set(coefs)) == len(coefs)
            for perm in itertools.permutations(range(k)):
                ck.case(("order", s, k, w, ens, perm), nontrivial=distinct and perm != tuple(range(k)))
                try:
                    again = analysis(cfg, d / ("%s_%s" % (name, "".join(map(str, perm)))), keep_raw=True,
                                     models_in=[copy.deepcopy(models[j]) for j in perm])
                except Exception as e:
                    ck.violation("model-order%s-fails:%s" % (tag, type(e).__name__),
                                 "%s: %s" % (type(e).__name__, str(e)[:150]), {"cfg": cfg, "perm": list(perm)})
                    continue
                a, b = first["raw"]["scores"], again["raw"]["scores"]
                same = np.array_equal(a, b) and first["raw"]["descs"] == again["raw"]["descs"]
                if not same:
                    n = int((a != b).sum()) if a.shape == b.shape else -1
                    gap = float(np.max(np.abs(a - b))) if a.shape == b.shape else float("nan")
                    ck.violation(("model-order-identity" if perm == tuple(range(k)) else "model-order-permuted") + tag,
                                 "models (folds %s) fed back in order %s%s: %d of %d scores differ from the first run "
                                 "(max abs difference %.3g)"
                                 % ([m.fold for m in models], list(perm), ", ensemble=True" if ens else "", n, len(b),
                                    gap), {"cfg": cfg, "perm": list(perm)})
                elif _diff(first, again):
                    ck.violation("model-order-files" + tag, "models fed back in order %s%s: %s differ"
                                 % (list(perm), ", ensemble=True" if ens else "", _diff(first, again)),
                                 {"cfg": cfg, "perm": list(perm)})
    return ck


def REPLAY(check_name, violation):
    import numpy as np
    inp = violation["input"]
    if isinstance(inp, str):
        inp = json.loads(inp)
    cfg = inp["cfg"]
    if cfg.get("kind") == "readers":
        kind = "fasta" if cfg.get("fasta") else "pin"
        hs = inp["hashseeds"]
        rs = [run_worker(cfg, h) for h in hs]
        if any("error" in r for r in rs):
            return {"violated": True, "detail": [r.get("error") for r in rs]}
        found = reader_compare(kind, cfg[kind][0], hs[0], rs[0][kind][0], *((hs[1], rs[1][kind][0]) if len(hs) > 1
                                                                              else (None, None)))
        return {"violated": bool(found), "detail": found}
    with scratch("c08p_") as d:
        if "perm" in inp:
            first = analysis(cfg, d / "first", keep_raw=True)
            again = analysis(cfg, d / "again", keep_raw=True,
                             models_in=[copy.deepcopy(first["raw"]["models"][j]) for j in inp["perm"]])
            same = np.array_equal(first["raw"]["scores"], again["raw"]["scores"]) and not _diff(first, again)
            return {"violated": not same, "detail": _diff(first, again)}      # cfg["ensemble"] is honoured by analysis
        if "hashseeds" in inp:
            hs = inp["hashseeds"] if len(inp["hashseeds"]) > 1 else inp["hashseeds"] * 2
            r0, r1 = run_worker(cfg, hs[0]), run_worker(cfg, hs[1])
            if "error" in r0 or "error" in r1:
                return {"violated": True, "detail": [r0.get("error"), r1.get("error")]}
            extra = []
            if cfg.get("nan_cols"):
                extra = ["features"] * (r0["features"] != r1["features"]) + \
                    ["features-not-the-complete-ones"] * (r0["features"] != complete_features(cfg))
            return {"violated": bool(_diff(r0, r1) or extra), "detail": extra + _diff(r0, r1)}
        r0 = analysis(cfg, d / "a")
        r1 = analysis(dict(cfg, global_seed=inp.get("second_global_seed", 202)), d / "b")
        return {"violated": bool(_diff(r0, r1)), "detail": _diff(r0, r1)}


if __name__ == "__main__":
    if len(sys.argv) > 2 and sys.argv[1] == "--worker":
        worker_main(json.loads(sys.argv[2]))
        sys.exit(0)
    a = args()
    plan_b, plan_d = session_plan(a.tier, a.seed), protein_plan(a.tier, a.seed)
    pend_b, pend_d = launch(plan_b[0], plan_b[1]), launch(plan_d[0], plan_d[1])    # run while (a) and (c) compute
    pend_e = launch_inputs(a.tier, a.seed)
    emit([check_same_process(a.tier, a.seed), check_model_order(a.tier, a.seed),
          check_sessions(a.tier, a.seed, pend_b), check_protein_sessions(a.tier, a.seed, pend_d),
          check_input_sessions(a.tier, a.seed, pend_e)],
         ["bit-identity is observed on this machine / BLAS / thread configuration only; sklearn and numpy numerics are "
          "not varied",
          "PEPs with the default 'qvality' algorithm (hist_nnls cannot run with the installed SciPy)",
          "PercolatorModel(train_fdr=0.2), test_fdr = eval_fdr = 0.2 on 300 generated PSMs",
          "model order with ensemble=True: both the first run and the re-run use ensemble=True (the first run's scores "
          "are then the mean over all fold models, which is what the re-run has to reproduce); the models are fed "
          "back as deep copies; ensemble scoring is exercised in the model-order check%s"
          % (" only" if a.tier == "quick" else " and in repeat_in_process"),
          "target-only FASTA: np.random.seed(seed) is called before the analysis, as mokapot's CLI does, because "
          "match_decoy draws from the global RNG by design",
          "several FASTA files: the list is given in one fixed order and by the same (relative) file names in every "
          "session; the iteration order of the maps of the Proteins object and the order of the groups inside a "
          "shared_peptides entry are not compared (they reach no result file), the member order inside a group name is",
          "missing values: only noise features get them (the two informative features stay), about 4 % of the rows; "
          "that read_pin keeps exactly the complete feature columns in file order is taken from its documentation "
          "(features with missing values are dropped), the statement itself only demands that all sessions agree"])
