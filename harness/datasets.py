"""Helpers shared by the bounded checks: scratch directories under /verif/.work and small on-disk datasets."""
import os
import shutil
import tempfile
from contextlib import contextmanager
from pathlib import Path

import numpy as np
import pandas as pd

VERIF = os.path.dirname(os.path.dirname(os.path.abspath(__file__)))


@contextmanager
def scratch(prefix="h_"):
    """A private scratch directory under /verif/.work, removed on exit (nothing is kept under /tmp)."""
    base = os.path.join(VERIF, ".work")
    os.makedirs(base, exist_ok=True)
    d = tempfile.mkdtemp(prefix=prefix, dir=base)
    try:
        yield Path(d)
    finally:
        shutil.rmtree(d, ignore_errors=True)


def small_df(n_spec=60, dup=2, seed=0, labels=(1, -1), n_feat=2, n_pep=40, n_prot=5):
    """A PIN-like table: n_spec spectra with `dup` PSMs each, columns SpecId Label ScanNr ExpMass f0.. Peptide Proteins.
    f0 separates targets from decoys, the other features are noise."""
    rng = np.random.default_rng(seed)
    rows = []
    sid = 0
    for s in range(n_spec):
        for d in range(dup):
            tgt = (s + d) % 2 == 0
            row = dict(SpecId=sid, Label=labels[0] if tgt else labels[1], ScanNr=s, ExpMass=100.0 + s)
            row["f0"] = float(rng.normal(2.5 if tgt and s % 3 else 0, 1))
            for k in range(1, n_feat):
                row["f%d" % k] = float(rng.normal(0, 1))
            row["Peptide"] = "PEP%dK" % ((s * 7 + d) % n_pep)
            row["Proteins"] = "prot%d" % (s % n_prot)
            rows.append(row)
            sid += 1
    return pd.DataFrame(rows)


def make_ds(df, path, label="Label", spectrum_columns=("ScanNr", "ExpMass"), level_columns=("Peptide",),
            extra_metadata=()):
    """Write df to `path` (.parquet or tab-delimited) and build the OnDiskPsmDataset describing it, the way
    read_percolator would (without going through the parser)."""
    import pyarrow as pa
    from mokapot import OnDiskPsmDataset
    from mokapot.utils import convert_targets_column
    path = Path(path)
    if path.suffix == ".parquet":
        df.to_parquet(path, index=False)
    else:
        df.to_csv(path, sep="\t", index=False)
    feats = [c for c in df.columns if c.startswith("f") and c[1:].isdigit()]
    spec = df[list(spectrum_columns) + [label]].copy()
    spec = convert_targets_column(spec, label)
    meta = ["SpecId", label, "ScanNr"] + [c for c in ("ExpMass",) if c in df.columns] + ["Peptide", "Proteins"] \
        + list(extra_metadata)
    meta = list(dict.fromkeys(meta + [c for c in spectrum_columns if c not in meta]))

    def ctype(col):
        kind = df[col].dtype.kind
        if path.suffix == ".parquet":
            return {"i": pa.int64(), "f": pa.float64(), "b": pa.bool_()}.get(kind, pa.string())
        return {"i": "int", "f": "float", "b": "bool"}.get(kind, "string")
    return OnDiskPsmDataset(
        filename=path, columns=list(df.columns), target_column=label, spectrum_columns=list(spectrum_columns),
        peptide_column="Peptide", protein_column="Proteins", feature_columns=feats, metadata_columns=meta,
        metadata_column_types=[ctype(m) for m in meta], level_columns=list(level_columns), filename_column=None,
        scan_column="ScanNr", specId_column="SpecId", calcmass_column=None,
        expmass_column="ExpMass" if "ExpMass" in df.columns else None, rt_column=None, charge_column=None,
        spectra_dataframe=spec)
