"""C02 bounded stand-in: cross-validation integrity of mokapot.brew.brew, observed through the public Model API
with a recording estimator, plus direct checks of OnDiskPsmDataset._split and brew.make_train_sets.

Oracle (property text): the PSMs of every file are partitioned into exactly `folds` non-empty folds, all PSMs of
one spectrum (equal full spectrum key) in one fold; the score of every PSM comes from the model of its fold and
that model's training rows contain neither the PSM nor any PSM of the same spectrum; with subset_max_train the
training rows are a subset of the other folds (never the held-out fold) and at most the cap.
"""
import importlib
import itertools
import json
import logging
import threading
import warnings

import numpy as np
import pandas as pd
from sklearn.base import BaseEstimator

from harness.common import Check, args, emit
from harness.datasets import scratch, make_ds

logging.disable(logging.CRITICAL)
warnings.filterwarnings("ignore")

BREW = importlib.import_module("mokapot.brew")  # the module (mokapot.brew the attribute is the function)
KEY_COLS = ("ScanNr", "ExpMass", "K2", "K3")
MULT = 10 ** 6

_TAGS = itertools.count(1)
_LOCK = threading.Lock()


# Classes of failing input that are already recorded for the pinned tree; anything else is reported first so that
# the five violation slots of a Check can never hide a new class behind the recorded ones.
EXPECTED = ("split-skewed-multiplicity", "subset-larger-than-file", "empty-fold-slice-in-chunk")


def report(ck, found):
    """found: [(case_id, what, input)]. One violation per case id (smallest input), unexpected ids first."""
    best = {}
    for cid, what, inp in found:
        size = len(json.dumps(inp, default=str))
        if cid not in best or size < best[cid][0]:
            best[cid] = (size, what, inp)
    for cid in sorted(best, key=lambda k: (k in EXPECTED, k)):
        ck.violation(cid, best[cid][1], best[cid][2])


# ------------------------------------------------------------------------------------------------ estimator
class RecordingProba(BaseEstimator):
    """predict_proba-only estimator (so brew never calibrates). fit() records the row-id feature values it saw;
    the score of a row is tag * 10**6 + row id, tag unique per fitted instance."""

    def __init__(self, id_col=2, shape="n2"):
        self.id_col = id_col
        self.shape = shape

    def fit(self, X, y):
        if not hasattr(self, "tag_"):
            with _LOCK:
                self.tag_ = next(_TAGS)
            self.seen_ = []
        self.seen_.extend(int(v) for v in np.asarray(X)[:, self.id_col])
        return self

    def predict_proba(self, X):
        s = self.tag_ * float(MULT) + np.asarray(X)[:, self.id_col].astype(float)
        if self.shape == "n":
            return s
        return np.column_stack([-s, s])  # scikit-learn convention: second column is the score


# ------------------------------------------------------------------------------------------------ datasets
def spectrum_key(s, width, mode):
    """All four key columns of spectrum number s; the spectrum key is the first `width` of them.
    plain: first column already unique; shared: first column shared by two spectra, the second tells them apart;
    deep (width >= 3): the first TWO columns are shared by two spectra, only the third tells them apart."""
    if mode == "plain" or width == 1:
        return (s, float(s), s % 3, "c%d" % (s % 2))
    if mode == "shared" or width == 2:
        return (s // 2, float(s % 2), s % 3, "c%d" % (s % 2))
    return (s // 4, float((s // 2) % 2), s % 2, "c%d" % (s % 2))


def build_frames(scans, width, mode, data_seed):
    """scans: per file the spectrum number of every row (row order = file order). Row ids are globally unique."""
    rng = np.random.default_rng(data_seed)
    frames, rid = [], 0
    for file_scans in scans:
        n = len(file_scans)
        tgt = rng.integers(0, 2, n).astype(bool)
        tgt[:4] = [True, False, True, False]
        rng.shuffle(tgt)
        rows = []
        for i, s in enumerate(file_scans):
            key = spectrum_key(int(s), width, mode)
            rows.append(dict(SpecId=rid, Label=1 if tgt[i] else -1, ScanNr=key[0], ExpMass=key[1], K2=key[2],
                             K3=key[3], f0=(10.0 if tgt[i] else 0.0) + float(rng.normal()), f1=float(rng.normal()),
                             f2=rid, Peptide="PEP%dK" % rid, Proteins="p%d" % (rid % 3)))
            rid += 1
        frames.append(pd.DataFrame(rows))
    return frames


def full_keys(frame, width):
    return [tuple(r) for r in frame[list(KEY_COLS[:width])].itertuples(index=False, name=None)]


def gen_scans(rng, n_rows, max_mult=4, skew=False):
    """A shuffled list of spectrum numbers with multiplicities 1..max_mult summing to n_rows."""
    out, s = [], 0
    if skew:
        big = int(rng.integers(max(2, n_rows // 2), max(3, n_rows - 2)))
        out += [s] * big
        s += 1
    while len(out) < n_rows:
        m = int(min(rng.integers(1, max_mult + 1), n_rows - len(out)))
        out += [s] * m
        s += 1
    out = np.array(out)
    rng.shuffle(out)
    return [int(x) for x in out]


# ------------------------------------------------------------------------------------------------ failure classes
def split_failure_class(frames, width, folds):
    """Names the class of input for which the fold split is known to fail; depends on the input only."""
    for fr in frames:
        fs = len(fr) // folds
        spec = pd.Series(full_keys(fr, width)).value_counts().max()
        if spec > fs:
            return "split-skewed-multiplicity"      # one spectrum holds more rows than a nominal fold
    for fr in frames:
        fs = len(fr) // folds
        two = pd.Series(full_keys(fr, min(width, 2))).value_counts().max()
        if two > fs:
            return "split-hash-first-two-key-columns"  # spectra sharing the first two key columns are lumped together
    return "split-other"


def replay_split(frames, width, folds, d):
    """Fold structure the real _split produces for these frames (does not depend on the rng) or the exception."""
    out = []
    for j, fr in enumerate(frames):
        ds = make_ds(fr, d / ("rs%d.parquet" % j), spectrum_columns=KEY_COLS[:width])
        try:
            out.append([np.asarray(a) for a in ds._split(folds, np.random.default_rng(0))])
        except Exception as e:  # noqa
            return None, "%s: %s" % (type(e).__name__, e)
    return out, None


def chunk_slices(split, n, chunk):
    """For every prediction chunk the number of rows of every fold."""
    fold_of = np.empty(n, dtype=int)
    for f, idx in enumerate(split):
        fold_of[idx] = f
    return [[int((fold_of[a:a + chunk] == f).sum()) for f in range(len(split))] for a in range(0, n, chunk)]


# ------------------------------------------------------------------------------------------------ one brew case
def run_brew_case(c, d):
    """c: json-able case. Returns a list of (case_id, what); empty when the property holds; the string 'skip:...'
    when a documented training precondition (targets and decoys in every training set) is not met."""
    from mokapot.model import Model
    import mokapot
    width, folds = c["width"], c["folds"]
    frames = build_frames(c["scans"], width, c["mode"], c["data_seed"])
    dss = [make_ds(fr, d / ("f%d.%s" % (j, c["fmt"])), spectrum_columns=KEY_COLS[:width])
           for j, fr in enumerate(frames)]
    model = Model(RecordingProba(id_col=2, shape=c.get("shape", "n2")), scaler="as-is", train_fdr=1.0, max_iter=1,
                  override=True, shuffle=c.get("shuffle", True))
    old = (BREW.CHUNK_SIZE_ROWS_PREDICTION, BREW.CHUNK_SIZE_READ_ALL_DATA)
    BREW.CHUNK_SIZE_ROWS_PREDICTION, BREW.CHUNK_SIZE_READ_ALL_DATA = c["pred_chunk"], c["read_chunk"]
    exc = None
    try:
        _, models, scores, _ = mokapot.brew(dss, model=model, test_fdr=0.5, folds=folds, max_workers=c["workers"],
                                            subset_max_train=c["cap"], rng=c["rng"])
    except Exception as e:  # noqa
        exc = e
    finally:
        BREW.CHUNK_SIZE_ROWS_PREDICTION, BREW.CHUNK_SIZE_READ_ALL_DATA = old

    bad = []
    if exc is None:
        bad = oracle_brew(c, frames, models, scores)
        if not bad:
            return []
    msg = "%s: %s" % (type(exc).__name__, exc) if exc is not None else ""
    if exc is not None and isinstance(exc, ValueError) and (
            "No target PSMs were" in str(exc) or "No decoy PSMs were" in str(exc)):
        return "skip: " + msg
    # ---- name the class of the failure
    split, split_err = replay_split(frames, width, folds, d)
    if split_err or any(len(a) == 0 for fl in split for a in fl) or any(len(fl) != folds for fl in split):
        cid = split_failure_class(frames, width, folds)
        what = split_err or "the split has an empty fold"
        return [(cid, "%s (brew: %s)" % (what, msg or bad[0][1]))]
    if exc is not None and "Cannot take a larger sample than population" in str(exc):
        return [("subset-larger-than-file", msg)]
    slices = [chunk_slices(sp, len(fr), c["pred_chunk"]) for sp, fr in zip(split, frames)]
    has_empty = any(0 in sl for fl in slices for sl in fl)
    has_single = any(1 in sl for fl in slices for sl in fl)
    if exc is not None and str(exc) == "No PSMs were detected." and has_empty:
        return [("empty-fold-slice-in-chunk", msg)]
    # a chunk holding exactly one row of some fold: _get_scores squeezes the (1, 2) / (1,) predict_proba output
    if has_single and exc is not None and "'predict_proba' returned too many dimensions" in str(exc):
        return [("single-row-fold-slice-predict-proba", msg)]
    if has_single and exc is None and c.get("shape", "n2") == "n2" and all(
            b[0] in ("score-not-from-fold-model", "score-row-misaligned", "score-length") for b in bad):
        return [("single-row-fold-slice-predict-proba", "; ".join("%s: %s" % b for b in bad[:2]))]
    if exc is not None:
        return [("brew-raises-" + type(exc).__name__, msg)]
    return bad


def oracle_brew(c, frames, models, scores, keys_of=None):
    """keys_of(j, frame): the spectrum of every row of file j when it is not the first c['width'] columns of KEY_COLS."""
    bad = []
    folds, width, cap = c["folds"], c["width"], c["cap"]
    if len(models) != folds:
        return [("model-count", "%d models for %d folds" % (len(models), folds))]
    tags = [getattr(m.estimator, "tag_", None) for m in models]
    if None in tags or len(set(tags)) != folds:
        return [("model-tags", "fold models are not distinct fitted instances: %s" % tags)]
    seen = {t: list(m.estimator.seen_) for t, m in zip(tags, models)}
    all_ids = set(int(r) for fr in frames for r in fr["f2"])
    if len(scores) != len(frames):
        return [("score-count", "%d score arrays for %d files" % (len(scores), len(frames)))]
    fold_rows = {t: set() for t in tags}           # row ids scored by each model, over all files
    for j, (fr, sc) in enumerate(zip(frames, scores)):
        sc = np.asarray(sc, dtype=float).ravel()
        ids = [int(r) for r in fr["f2"]]
        if len(sc) != len(ids):
            bad.append(("score-length", "file %d: %d scores for %d rows" % (j, len(sc), len(ids))))
            continue
        code = np.rint(sc).astype(np.int64)
        tag_of, rid_of = code // MULT, code % MULT
        if np.any(np.abs(sc - code) > 1e-6) or any(int(t) not in seen for t in tag_of):
            bad.append(("score-not-from-fold-model", "file %d: a score is not the output of one of the fold models" % j))
            continue
        if [int(r) for r in rid_of] != ids:
            pos = [i for i in range(len(ids)) if int(rid_of[i]) != ids[i]][:3]
            bad.append(("score-row-misaligned", "file %d: score at rows %s belongs to another row" % (j, pos)))
            continue
        used = set(int(t) for t in tag_of)
        if len(used) != folds:
            bad.append(("fold-count", "file %d: rows are scored by %d models, %d folds requested" % (j, len(used), folds)))
        keys = keys_of(j, fr) if keys_of is not None else full_keys(fr, width)
        by_key = {}
        for i, k in enumerate(keys):
            by_key.setdefault(k, []).append(i)
        for k, rows in by_key.items():
            ts = set(int(tag_of[i]) for i in rows)
            if len(ts) > 1:
                bad.append(("spectrum-split-over-folds", "file %d: spectrum %s scored by models %s" % (j, k, sorted(ts))))
                break
        for k, rows in by_key.items():          # the scoring model never saw the row nor its spectrum mates
            for i in rows:
                s = set(seen[int(tag_of[i])])
                leak = [ids[r] for r in rows if ids[r] in s]
                if leak:
                    bad.append(("trained-on-held-out-spectrum", "file %d row %d: its model was trained on row ids %s "
                                "of the same spectrum" % (j, i, leak[:4])))
                    break
            else:
                continue
            break
        for i in range(len(ids)):
            fold_rows[int(tag_of[i])].add(ids[i])
    if bad:
        return bad
    for t in tags:
        s = seen[t]
        if not set(s) <= all_ids - fold_rows[t]:
            bad.append(("train-not-subset-of-other-folds", "model %d saw row ids outside the other folds: %s"
                        % (t, sorted(set(s) - (all_ids - fold_rows[t]))[:5])))
        if len(set(s)) != len(s):
            bad.append(("train-duplicates", "model %d saw a row twice" % t))
        if cap is not None and len(s) > cap:
            bad.append(("train-exceeds-cap", "model %d saw %d rows, cap %d" % (t, len(s), cap)))
    return bad


def nontrivial_brew(c):
    """more than one PSM for some spectrum and folds >= 2 (always) -- plus what the sample shows"""
    return any(len(set(f)) < len(f) for f in c["scans"])


KNOWN_SEEDS = [
    # (i) skewed multiplicities; (ii) cap larger than a small file's pool; (iii) a chunk without rows of a fold
    dict(scans=[[25] * 8 + [100, 101]], width=2, mode="plain", data_seed=1, fmt="parquet", folds=3, workers=1,
         cap=None, pred_chunk=700000, read_chunk=200000, rng=0),
    dict(scans=[[0, 1, 2, 3], list(range(10, 60)) + list(range(10, 60))], width=2, mode="plain", data_seed=1,
         fmt="parquet", folds=2, workers=1, cap=40, pred_chunk=700000, read_chunk=200000, rng=0),
    dict(scans=[[i // 2 for i in range(24)]], width=2, mode="plain", data_seed=1, fmt="parquet", folds=3, workers=1,
         cap=None, pred_chunk=3, read_chunk=200000, rng=0),
    # found by this check: a chunk with exactly ONE row of a fold and a predict_proba estimator
    dict(scans=[[0, 1, 2, 3, 4, 5, 6]], width=1, mode="plain", data_seed=1, fmt="parquet", folds=2, workers=1,
         cap=None, pred_chunk=4, read_chunk=200000, rng=0, shape="n2"),
]


def gen_brew_cases(tier, seed):
    rng = np.random.default_rng(seed)
    n_cases = 300 if tier == "quick" else 6000
    cases = [dict(c) for c in KNOWN_SEEDS]
    for k in range(n_cases):
        n_files = int(rng.choice([1, 1, 2, 3]))
        folds = int(rng.integers(2, 7))
        width = int(rng.integers(1, 5))
        mode = str(rng.choice(["plain", "shared", "deep"]))
        skew = rng.random() < 0.04
        scans = []
        for j in range(n_files):
            lo = max(12, 4 * folds + 2)
            n = int(rng.integers(lo, 41)) if lo < 41 else 40
            scans.append(gen_scans(rng, n, skew=skew and j == 0))
        n = max(len(s) for s in scans)
        total_train_min = sum(len(s) for s in scans) * (folds - 1) // folds
        r = rng.random()
        if r < 0.4:
            cap = None
        elif r < 0.85:      # a cap that bites: per-file share below every file's training pool
            cap = int(rng.integers(2 * n_files + 4, max(2 * n_files + 5, min(len(s) for s in scans) // 2 * n_files)))
        else:               # any cap
            cap = int(rng.integers(6, total_train_min + 10))
        pred_chunk = int(rng.choice([3, n // 2 + 1, n, n + 1], p=[0.1, 0.3, 0.3, 0.3]))
        read_chunk = int(rng.choice([3, n // 2 + 1, n, n + 1]))
        cases.append(dict(scans=scans, width=width, mode=mode, data_seed=int(rng.integers(0, 10 ** 6)),
                          fmt=str(rng.choice(["parquet", "tab"])), folds=folds,
                          workers=int(rng.choice([1, 2])) if tier == "quick" else int(rng.choice([1, 2, 8])),
                          cap=cap, pred_chunk=pred_chunk, read_chunk=read_chunk, rng=int(rng.integers(0, 10 ** 6)),
                          shape=str(rng.choice(["n2", "n"], p=[0.7, 0.3])), shuffle=bool(rng.random() < 0.8)))
    return cases


def _brew_worker(cases):
    with scratch("c02_") as d:
        return [run_brew_case(c, d) for c in cases]


def _map_cases(cases, procs=8):
    """Order-preserving evaluation in `procs` forked workers (tags only need to be unique within one case)."""
    import multiprocessing as mp
    blocks = [cases[i::procs] for i in range(procs)]
    with mp.get_context("fork").Pool(procs) as pool:
        res = pool.map(_brew_worker, blocks)
    out = [None] * len(cases)
    for i, block in enumerate(res):
        out[i::procs] = block
    return out


def check_brew(tier, seed):
    cases = gen_brew_cases(tier, seed)
    ck = Check("brew_cv_integrity", "mokapot.brew.brew (+ _predict, parse_in_chunks, make_train_sets, _split)",
               "random: %d cases with seed %d (+%d fixed seeds of recorded defects): 1-3 files of 12-40 rows, spectrum "
               "multiplicity 1-4 (4%% with one dominant spectrum), spectrum key of 1-4 columns (leading columns "
               "unique / shared / first two shared), folds 2-6, workers %s, subset_max_train absent / biting / "
               "arbitrary, CHUNK_SIZE_ROWS_PREDICTION in {3, n/2+1, n, n+1}, CHUNK_SIZE_READ_ALL_DATA in "
               "{3, n/2+1, n, n+1}, Parquet and tab-delimited files, predict_proba of shape (n,2) and (n,), "
               "shuffle on/off" % (len(cases) - len(KNOWN_SEEDS), seed, len(KNOWN_SEEDS), "1/2" if tier == "quick" else "1/2/8"),
               "recording predict_proba estimator through Model(scaler='as-is', train_fdr=1.0, max_iter=1, "
               "override=True); score = model tag*1e6 + row id; non-trivial = brew returned scores for a dataset in "
               "which some spectrum has several PSMs (cases where brew raises are counted as evaluations only)")
    skipped, found = 0, []
    for c, res in zip(cases, _map_cases(cases)):
        if isinstance(res, str):
            skipped += 1
            ck.case(c, nontrivial=False)
            continue
        ck.case(c, nontrivial=nontrivial_brew(c) and not res)
        found += [(cid, what, c) for cid, what in res]
    report(ck, found)
    ck.rule += "; %d cases skipped because a training set held only targets or only decoys" % skipped
    return ck


# ------------------------------------------------------------------------------------------------ _split directly
def _split_dataset(scans, width, mode):
    from mokapot import OnDiskPsmDataset
    keys = [spectrum_key(int(s), width, mode) for s in scans]
    df = pd.DataFrame(keys, columns=list(KEY_COLS))
    df["Label"] = True
    cols = list(KEY_COLS[:width])
    ds = OnDiskPsmDataset(
        filename=None, columns=list(df.columns), target_column="Label", spectrum_columns=cols, peptide_column=None,
        protein_column=None, feature_columns=[], metadata_columns=[], metadata_column_types=[], level_columns=[],
        filename_column=None, scan_column=None, specId_column=None, calcmass_column=None, expmass_column=None,
        rt_column=None, charge_column=None, spectra_dataframe=df[cols + ["Label"]])
    return ds, df


def run_split_case(c):
    ds, df = _split_dataset(c["scans"], c["width"], c["mode"])
    n, folds = len(df), c["folds"]
    try:
        res = ds._split(folds, np.random.default_rng(c["rng"]))
    except Exception as e:  # noqa
        cid = split_failure_class([df], c["width"], folds)
        return [(cid if isinstance(e, IndexError) else "split-raises-" + type(e).__name__, "%s: %s" % (type(e).__name__, e))]
    bad = []
    if len(res) != folds:
        return [("split-fold-count", "%d arrays for %d folds" % (len(res), folds))]
    flat = [int(i) for a in res for i in a]
    if sorted(flat) != list(range(n)):
        bad.append(("split-not-a-partition", "fold arrays do not partition range(%d)" % n))
    keys = full_keys(df, c["width"])
    where = {}
    for f, a in enumerate(res):
        for i in a:
            where.setdefault(keys[int(i)], set()).add(f)
    cut = [k for k, v in where.items() if len(v) > 1]
    if cut:
        bad.append(("split-cuts-spectrum", "spectrum %s lies in folds %s" % (cut[0], sorted(where[cut[0]]))))
    if any(len(a) == 0 for a in res) and not bad:
        bad.append((split_failure_class([df], c["width"], folds), "fold sizes %s: an empty fold" % [len(a) for a in res]))
    return bad


def check_split(tier, seed):
    rng = np.random.default_rng(seed + 1)
    n_cases = 1500 if tier == "quick" else 30000
    cases = [dict(scans=[25] * 8 + [100, 101], width=2, mode="plain", folds=3, rng=0)]
    for _ in range(n_cases):
        folds = int(rng.integers(2, 7))
        skew = rng.random() < 0.03
        n = int(rng.integers(max(6, 4 * folds + 2), 61))
        cases.append(dict(scans=gen_scans(rng, n, skew=skew), width=int(rng.integers(1, 5)),
                          mode=str(rng.choice(["plain", "shared", "deep"])), folds=folds, rng=int(rng.integers(0, 10 ** 6))))
    ck = Check("split_partition", "mokapot.dataset.OnDiskPsmDataset._split",
               "random: %d cases with seed %d (+1 fixed seed): 6-60 rows, spectrum multiplicity 1-4 (3%% with one "
               "dominant spectrum), key width 1-4 (leading columns unique / shared / first two shared), folds 2-6 "
               "(<= number of spectra)" % (n_cases, seed + 1),
               "exactly `folds` non-empty arrays partitioning range(n), rows with equal full spectrum key in one "
               "array; non-trivial = some spectrum has several rows")
    found = []
    for c in cases:
        if len(set(c["scans"])) < c["folds"]:
            continue
        res = run_split_case(c)
        ck.case(c, nontrivial=len(set(c["scans"])) < len(c["scans"]) and not res)
        found += [(cid, what, c) for cid, what in res]
    report(ck, found)
    return ck


# ------------------------------------------------------------------------------------------------ make_train_sets
def _partition(c):
    """A partition of range(n) of every file into `folds` non-empty index arrays: near-balanced (as a fold split
    would be) or with arbitrary cut points."""
    rng = np.random.default_rng(c["part_seed"])
    test_idx = []
    for n in c["sizes"]:
        perm = rng.permutation(n)
        if c.get("balanced", False):
            test_idx.append([np.asarray(a) for a in np.array_split(perm, c["folds"])])
        else:
            cuts = np.sort(rng.choice(np.arange(1, n), c["folds"] - 1, replace=False))
            test_idx.append([np.asarray(a) for a in np.split(perm, cuts)])
    return test_idx


# ---- LARGE collections: make_train_sets walks the row range of a collection in windows of 5,000,000 rows (a local
# constant of the function, not patchable), so only a collection with more rows than that exercises the window seams.
WINDOW = 5_000_000


def _large_partition(c):
    """A partition of range(n) of every file into `folds` non-empty index arrays, never in ascending order (shuffled as
    mokapot's fold arrays are, or -- cheaper for the code under test -- rolled / descending). Layouts: 'mod' (row r of file j lies in fold (r + shift + j) % folds, so neighbouring
    rows -- in particular the rows around every multiple of 5,000,000 -- lie in different folds), 'random'
    (independent uniform fold per row, the five rows around every multiple of 5,000,000 as in 'mod'), 'blocks'
    (contiguous row blocks, one block boundary 0 or 1 rows after the last multiple of 5,000,000 below n)."""
    rng = np.random.default_rng(c["part_seed"])
    folds, shift, layout = c["folds"], c["shift"], c["layout"]
    out = []
    for j, n in enumerate(c["sizes"]):
        rows = np.arange(n, dtype=np.int64)
        mod = (rows + shift + j) % folds
        if layout == "mod":
            fold_of = mod
        elif layout == "random":
            fold_of = rng.integers(0, folds, n)
            fold_of[:folds] = np.arange(folds)          # no empty fold
            for seam in range(WINDOW, n + 3, WINDOW):
                near = np.arange(max(folds, seam - 2), min(n, seam + 3))
                fold_of[near] = mod[near]
        elif layout == "blocks":
            main = min(WINDOW * max(1, (n - 1) // WINDOW) + shift % 2, n - 1)
            cuts = np.sort(np.append(rng.choice(np.arange(1, main), folds - 2, replace=False), main))
            fold_of = (np.searchsorted(cuts, rows, side="right") + shift) % folds
        else:
            raise ValueError(layout)
        arrays = []
        for f in range(folds):
            a = np.flatnonzero(fold_of == f)
            if c["order"] == "shuffled":
                a = rng.permutation(a)
            elif c["order"] == "rolled":                # ascending, but starting somewhere in the middle
                a = np.roll(a, int(rng.integers(0, len(a))))
            elif c["order"] == "descending":
                a = a[::-1].copy()
            else:
                raise ValueError(c["order"])
            arrays.append(a)
        out.append(arrays)
    return out


def run_large_train_sets_case(c):
    """Vectorised oracle (boolean masks over the rows of every file); the case ids carry the prefix 'large-'."""
    sizes, folds, cap = c["sizes"], c["folds"], c["cap"]
    test_idx = _large_partition(c)
    bad = []
    try:
        n_sets = 0
        for f, tr in enumerate(BREW.make_train_sets(test_idx, cap, list(sizes), np.random.default_rng(c["rng"]))):
            n_sets += 1
            if f >= folds:
                continue
            if len(tr) != len(sizes):
                return [("large-train-sets-files", "fold %d: %d index lists for %d files" % (f, len(tr), len(sizes)))]
            total = 0
            for j, n in enumerate(sizes):
                idx = np.asarray(tr[j], dtype=np.int64).ravel()
                total += len(idx)
                if len(idx) and (idx.min() < 0 or idx.max() >= n):
                    bad.append(("large-train-sets-index-out-of-range", "fold %d file %d: a training index lies outside "
                                "range(%d)" % (f, j, n)))
                    continue
                held = np.zeros(n, dtype=bool)          # the held-out rows of this fold, from the INPUT of the call
                held[test_idx[j][f]] = True
                times = np.bincount(idx, minlength=n)
                if times.max(initial=0) > 1:
                    bad.append(("large-train-sets-duplicates", "fold %d file %d: training index %d occurs %d times"
                                % (f, j, int(times.argmax()), int(times.max()))))
                leaked = np.flatnonzero(held & (times > 0))
                if len(leaked):
                    seam = bool(np.all(leaked % WINDOW == 0))
                    bad.append(("large-train-sets-use-test-fold-window-seam-row" if seam else "large-train-sets-use-test-fold",
                                "fold %d file %d (%d rows): %d held-out row(s) of this fold are among its training rows: %s"
                                % (f, j, n, len(leaked), leaked[:5].tolist())))
                if cap is None:
                    missing = np.flatnonzero(~held & (times == 0))
                    if len(missing):
                        bad.append(("large-train-sets-incomplete", "fold %d file %d (%d rows): %d rows of the other folds "
                                    "are missing from the training rows: %s" % (f, j, n, len(missing), missing[:5].tolist())))
                del idx, held, times
            if cap is not None and total > cap:
                bad.append(("large-train-sets-exceed-cap", "fold %d: %d training rows, cap %d" % (f, total, cap)))
            del tr
    except Exception as e:  # noqa
        return [("large-train-sets-raises-" + type(e).__name__, "%s: %s" % (type(e).__name__, e))]
    if n_sets != folds:
        return [("large-train-sets-count", "%d training sets for %d folds" % (n_sets, folds))]
    seen, out = set(), []
    for cid, what in bad:                               # one entry per class, first occurrence
        if cid not in seen:
            seen.add(cid)
            out.append((cid, what))
    return out[:3]


def _large_cap(c, kind, rng):
    """None / 'near': a cap 1-3 rows below the smallest total training pool (nearly every pool row is drawn, so a
    wrong pool shows) / 'small': a cap of 1,000-100,000 rows."""
    if kind == "none":
        return None
    if kind == "small":
        return int(rng.integers(1000, 100001))
    part = _large_partition(c)
    pool = min(sum(n - len(fl[f]) for n, fl in zip(c["sizes"], part)) for f in range(c["folds"]))
    return int(pool - rng.integers(1, 4))


def gen_large_train_sets_cases(tier, seed):
    rng = np.random.default_rng(seed + 3)

    def small():
        return int(rng.integers(20, 61))

    def case(sizes, folds, layout, kind, order=None):
        order = order or str(rng.choice(["shuffled", "rolled", "descending"]))
        c = dict(large=True, sizes=[int(n) for n in sizes], folds=int(folds), layout=layout, order=order,
                 shift=int(rng.integers(0, 6)), cap=None, part_seed=int(rng.integers(0, 10 ** 6)),
                 rng=int(rng.integers(0, 10 ** 6)))
        c["cap"] = _large_cap(c, kind, rng)
        return c

    if tier == "quick":
        # two collections without cap (2 folds); one collection, 3 folds (rows 4,999,999 / 5,000,000 / 5,000,001 in
        # three different folds), cap just below the pool
        return [case([WINDOW + 1, small()], 2, str(rng.choice(["mod", "random", "blocks"])), "none", "shuffled"),
                case([WINDOW + 3], 3, "mod", "near", str(rng.choice(["rolled", "descending"])))]
    cases = []
    layouts, kinds = ["mod", "random", "blocks"], ["none", "near", "small"]
    k = int(rng.integers(0, 6))
    for n in (WINDOW - 1, WINDOW, WINDOW + 1, WINDOW + 3):
        for layout in layouts:
            folds = 2 + k % 2
            kind = kinds[k % 3]
            # a second, small collection only without cap or with a small cap ('near' with a small partner halves the
            # share of the large collection)
            where = k % 3 if kind != "near" else 0
            sizes = [[n], [n, small()], [small(), n]][where]
            cases.append(case(sizes, folds, layout, kind))
            k += 1
    for n in (2 * WINDOW, 2 * WINDOW + 1, 2 * WINDOW + 3):
        cases.append(case([n], 2, layouts[k % 3], "none"))
        cases.append(case([n], 3, layouts[(k + 1) % 3], "near"))
        k += 1
    cases.append(case([WINDOW + 1, WINDOW + 3], 2, "mod", "none"))
    cases.append(case([WINDOW + 3, WINDOW + 1], 2, "random", "near"))
    return cases


def _large_worker(cases, conn):
    conn.send([run_large_train_sets_case(c) for c in cases])
    conn.close()


def start_large_train_sets(tier, seed):
    """Evaluates the LARGE make_train_sets cases one after the other in ONE forked background process (peak resident size about 1.1 GB in the quick tier, 1.4 GB in the thorough tier),
    so that they overlap with the other checks; collect with finish_large_train_sets."""
    import multiprocessing as mp
    cases = gen_large_train_sets_cases(tier, seed)
    recv, send = mp.Pipe(duplex=False)
    proc = mp.get_context("fork").Process(target=_large_worker, args=(cases, send), daemon=True)
    proc.start()
    send.close()
    return cases, proc, recv


def finish_large_train_sets(started):
    cases, proc, recv = started
    try:
        results = recv.recv()
    except EOFError:
        results = [[("large-train-sets-worker-died", "the background process ended without a result")]] * len(cases)
    proc.join()
    return cases, results


def run_train_sets_case(c):
    if c.get("large"):
        return run_large_train_sets_case(c)
    sizes, folds, cap = c["sizes"], c["folds"], c["cap"]
    test_idx = _partition(c)
    try:
        out = list(BREW.make_train_sets(test_idx, cap, list(sizes), np.random.default_rng(c["rng"])))
    except Exception as e:  # noqa
        pools = [min(n - len(a) for a in fl) for n, fl in zip(sizes, test_idx)]
        share = None if cap is None else [cap // len(sizes)] * (len(sizes) - 1) + [cap - cap // len(sizes) * (len(sizes) - 1)]
        if "Cannot take a larger sample than population" in str(e) and cap is not None and any(
                s > p for s, p in zip(share, pools)):
            return [("subset-larger-than-file", "%s: %s" % (type(e).__name__, e))]
        return [("train-sets-raises-" + type(e).__name__, "%s: %s" % (type(e).__name__, e))]
    bad = []
    if len(out) != folds:
        return [("train-sets-count", "%d training sets for %d folds" % (len(out), folds))]
    for f, tr in enumerate(out):
        if len(tr) != len(sizes):
            return [("train-sets-files", "fold %d: %d index lists for %d files" % (f, len(tr), len(sizes)))]
        total = 0
        for j, idx in enumerate(tr):
            idx = [int(i) for i in idx]
            total += len(idx)
            comp = set(range(sizes[j])) - set(int(i) for i in test_idx[j][f])
            if len(set(idx)) != len(idx):
                bad.append(("train-sets-duplicates", "fold %d file %d: duplicate training index" % (f, j)))
            if not set(idx) <= comp:
                bad.append(("train-sets-use-test-fold", "fold %d file %d: training indices %s are not in the complement "
                            "of the test fold" % (f, j, sorted(set(idx) - comp)[:5])))
            if cap is None and set(idx) != comp:
                bad.append(("train-sets-incomplete", "fold %d file %d: training set is not the whole complement" % (f, j)))
        if cap is not None and total > cap:
            bad.append(("train-sets-exceed-cap", "fold %d: %d training rows, cap %d" % (f, total, cap)))
    return bad[:3]


def check_train_sets(tier, seed, started_large=None):
    """started_large: the value of start_large_train_sets(tier, seed) when the LARGE cases already run in the
    background; otherwise they are evaluated here, one after the other."""
    rng = np.random.default_rng(seed + 2)
    n_cases = 1500 if tier == "quick" else 40000
    cases = [dict(sizes=[4, 100], folds=2, cap=40, part_seed=0, rng=0)]
    for _ in range(n_cases):
        nf = int(rng.integers(1, 4))
        folds = int(rng.integers(2, 7))
        c = dict(sizes=[int(rng.integers(max(8, folds + 1), 41)) for _ in range(nf)], folds=folds, cap=None,
                 part_seed=int(rng.integers(0, 10 ** 6)), rng=int(rng.integers(0, 10 ** 6)),
                 balanced=bool(rng.random() < 0.6))
        pool = min(n - len(a) for n, fl in zip(c["sizes"], _partition(c)) for a in fl)
        r = rng.random()
        if 0.3 <= r < 0.9:      # per-file share (cap // files, remainder to the last file) within every pool
            c["cap"] = int(rng.integers(1, max(2, (pool - nf + 1) * nf)))
        elif r >= 0.9:
            c["cap"] = int(rng.integers(1, sum(c["sizes"]) + 5))
        cases.append(c)
    large = started_large[0] if started_large is not None else gen_large_train_sets_cases(tier, seed)
    ck = Check("make_train_sets", "mokapot.brew.make_train_sets",
               "random: %d cases with seed %d (+1 fixed seed): 1-3 files of 8-40 rows, partitions into 2-6 non-empty test "
               "folds (60%% near-balanced, 40%% arbitrary cut points), subset_max_train absent (30%%) / per-file share below every pool (60%%) / "
               "arbitrary 1..total+4 (10%%); plus %d LARGE direct calls (parameters drawn with seed %d) around the "
               "function's internal row window of 5,000,000: collections of %s rows, alone / next to a 20-60 row "
               "collection%s, 2-3 folds laid out so that the rows next to every multiple of 5,000,000 lie in different "
               "folds (row %% folds shifted / uniform random / contiguous blocks with a boundary on or one row after "
               "the multiple), fold arrays shuffled / ascending from a random start / descending, subset_max_train absent / 1-3 rows below the smallest training "
               "pool%s" % (n_cases, seed + 2, len(large), seed + 3,
                             "5,000,001 and 5,000,003" if tier == "quick" else
                             "4,999,999 / 5,000,000 / 5,000,001 / 5,000,003 / 10,000,000 / 10,000,001 / 10,000,003",
                             "" if tier == "quick" else " / two collections of 5,000,001 and 5,000,003 rows",
                             "" if tier == "quick" else " / 1,000-100,000 rows"),
               "one training set per fold; per file no duplicates, subset of the complement of that fold's test "
               "indices, equal to it without cap; with cap at most cap rows in total; non-trivial = the cap forces "
               "sub-sampling or there are several files; for the LARGE calls (same rule, checked with boolean row "
               "masks; a cap far below the pool draws a given row rarely, so only the absent and the near-pool cap "
               "expose single wrong pool rows) non-trivial = a collection has more than 5,000,000 rows")
    found = []
    for c in cases:
        res = run_train_sets_case(c)
        biting = c["cap"] is not None and c["cap"] < sum(c["sizes"]) * (c["folds"] - 1) // c["folds"]
        ck.case(c, nontrivial=(biting or len(c["sizes"]) > 1) and not res)
        found += [(cid, what, c) for cid, what in res]
    large_results = finish_large_train_sets(started_large)[1] if started_large is not None else [
        run_train_sets_case(c) for c in large]
    for c, res in zip(large, large_results):
        ck.case(c, nontrivial=max(c["sizes"]) > WINDOW and not res)
        found += [(cid, what, c) for cid, what in res]
    report(ck, found)
    return ck


# ------------------------------------------------------------------------------------------------ read + re-used datasets
# The spectrum of a PSM is what identifies the MEASURED spectrum (run, scan, retention time, measured mass); columns
# that describe the CANDIDATE (theoretical mass, charge hypothesis, peptide, features) differ between the PSMs of one
# spectrum. Here the generator knows the spectrum number of every row, the files go through the real reader
# (mokapot.read_pin decides which columns form the spectrum key) and the same dataset objects are then split / brewed
# one to three times in a row.
READ_NAMES = {
    "default": dict(filename="filename", ret_time="ret_time", expmass="ExpMass", calcmass="CalcMass", charge="Charge"),
    "lower": dict(filename="FileName", ret_time="Ret_Time", expmass="expmass", calcmass="calcmass", charge="charge"),
    "explicit": dict(filename="Run", ret_time="RT", expmass="ObsMass", calcmass="TheoMass", charge="Z"),
}
OPTIONAL = ("filename", "ret_time", "expmass", "calcmass", "charge")


def build_read_frames(c):
    """Per file the table written to disk and the (ground truth) spectrum number of every row."""
    rng = np.random.default_rng(c["data_seed"])
    names, has = READ_NAMES[c["naming"]], c["has"]
    frames, truth, rid = [], [], 0
    for file_scans in c["scans"]:
        n = len(file_scans)
        tgt = rng.integers(0, 2, n).astype(bool)
        tgt[:4] = [True, False, True, False]
        rng.shuffle(tgt)
        rank, rows = {}, []
        for i, s in enumerate(file_scans):
            s = int(s)
            k = rank[s] = rank.get(s, -1) + 1                 # candidate number within the spectrum
            row = dict(SpecId="id%d" % rid, Label=1 if tgt[i] else -1)
            # with a file-name column two runs use the same scan numbers, otherwise the scan number is unique
            row["ScanNr"] = s // 2 if "filename" in has else s
            if "filename" in has:
                row[names["filename"]] = "run%d.mzML" % (s % 2)
            if "ret_time" in has:
                row[names["ret_time"]] = 10.0 + 0.5 * s
            if "expmass" in has:
                row[names["expmass"]] = 400.0 + 1.25 * s
            if "calcmass" in has:                             # candidate level: differs within a spectrum
                row[names["calcmass"]] = 400.0 + 1.25 * s + 0.01 * (k + 1)
            row.update(f0=(10.0 if tgt[i] else 0.0) + float(rng.normal()), f1=float(rng.normal()), f2=rid)
            if "charge" in has:                               # candidate level as well
                row[names["charge"]] = 2 + k % 3
            row.update(Peptide="PEP%dK" % rid, Proteins="p%d" % (rid % 3))
            rows.append(row)
            rid += 1
        frames.append(pd.DataFrame(rows))
        truth.append([int(s) for s in file_scans])
    return frames, truth


def read_datasets(c, frames, d):
    import mokapot
    names, has = READ_NAMES[c["naming"]], c["has"]
    kw = {}
    if c["naming"] == "explicit":
        arg = dict(filename="filename_column", ret_time="rt_column", expmass="expmass_column",
                   calcmass="calcmass_column", charge="charge_column")
        kw = {arg[o]: names[o] for o in OPTIONAL if o in has}
    paths = []
    for j, fr in enumerate(frames):
        p = d / ("r%d.%s" % (j, c["fmt"]))
        if c["fmt"] == "parquet":
            fr.to_parquet(p, index=False)
        else:
            fr.to_csv(p, sep="\t", index=False)
        paths.append(p)
    return mokapot.read_pin(paths, max_workers=1, **kw)


def oracle_split_truth(res, truth, folds):
    """res: what _split returned for one file; truth: spectrum number of every row."""
    n = len(truth)
    if len(res) != folds:
        return [("fold-count", "%d arrays for %d folds" % (len(res), folds))]
    flat = sorted(int(i) for a in res for i in a)
    if flat != list(range(n)):
        return [("not-a-partition", "fold arrays do not partition range(%d)" % n)]
    where = {}
    for f, a in enumerate(res):
        for i in a:
            where.setdefault(truth[int(i)], set()).add(f)
    cut = sorted(k for k, v in where.items() if len(v) > 1)
    if cut:
        return [("spectrum-split-over-folds", "the PSMs of spectrum %d lie in folds %s (%d of %d spectra are cut)"
                 % (cut[0], sorted(where[cut[0]]), len(cut), len(where)))]
    if any(len(a) == 0 for a in res):
        return [("empty-fold", "fold sizes %s" % [len(a) for a in res])]
    return []


def run_history_case(c, d):
    """Returns [(case_id, what)] of the FIRST call of the history that breaks the property ('read-...' for the first
    call on the freshly read datasets, 'reuse-...' for a later call on the same objects), [] when every call is fine,
    'skip: ...' when a training set held only targets or only decoys."""
    import copy
    from mokapot.model import Model
    import mokapot
    frames, truth = build_read_frames(c)
    try:
        dss = read_datasets(c, frames, d)
    except Exception as e:  # noqa
        return [("read-raises-" + type(e).__name__, "read_pin: %s: %s" % (type(e).__name__, e))]
    for ds, fr in zip(dss, frames):
        if len(ds.spectra_dataframe) != len(fr) or not 1 <= len(ds.spectrum_columns) <= 4:
            return [("read-spectra-frame", "spectrum columns %s, %d rows for %d PSMs"
                     % (list(ds.spectrum_columns), len(ds.spectra_dataframe), len(fr)))]
    id_col = list(dss[0].feature_columns).index("f2") if "f2" in dss[0].feature_columns else None
    if id_col is None:
        return [("read-feature-columns", "f2 is not a feature: %s" % (list(dss[0].feature_columns),))]
    spectra = [ds.spectra_dataframe for ds in dss]        # what the reader attached; the unchanged _split removes it
    for k, call in enumerate(c["history"]):
        prefix = "read-" if k == 0 else "reuse-"
        if k > 0 and c["reuse"] == "copy":
            dss = [copy.copy(ds) for ds in dss]
        for ds, sp in zip(dss, spectra):
            ds.spectra_dataframe = sp
        folds, bad = call["folds"], []
        if any(pd.Series(t).value_counts().max() > len(t) // folds for t in truth):
            known = "split-skewed-multiplicity"             # recorded class: a spectrum larger than a nominal fold
        else:
            known = None
        try:
            if call["kind"] == "split":
                for j, ds in enumerate(dss):
                    res = ds._split(folds, np.random.default_rng(call["rng"] + j))
                    bad += [(cid, "file %d: %s" % (j, what)) for cid, what in oracle_split_truth(res, truth[j], folds)]
            else:
                model = Model(RecordingProba(id_col=id_col, shape="n2"), scaler="as-is", train_fdr=1.0, max_iter=1,
                              override=True)
                _, models, scores, _ = mokapot.brew(dss, model=model, test_fdr=0.5, folds=folds,
                                                    max_workers=call["workers"], subset_max_train=call["cap"],
                                                    rng=call["rng"])
                bad = oracle_brew(dict(folds=folds, width=None, cap=call["cap"]), frames, models, scores,
                                  keys_of=lambda j, fr: truth[j])
        except Exception as e:  # noqa
            msg = "%s: %s" % (type(e).__name__, e)
            if isinstance(e, ValueError) and ("No target PSMs were" in str(e) or "No decoy PSMs were" in str(e)):
                return "skip: " + msg
            if known and isinstance(e, IndexError):
                return [(known, msg)]
            bad = [("raises-" + type(e).__name__, msg)]
        if bad:
            if known and all(cid == "empty-fold" for cid, _ in bad):
                return [(known, bad[0][1])]
            seen, out = set(), []
            for cid, what in bad:
                if cid not in seen:
                    seen.add(cid)
                    out.append((prefix + cid, "call %d of the history (%s, folds=%d): %s" % (k + 1, call["kind"], folds, what)))
            return out[:3]
    return []


def gen_history_cases(tier, seed):
    rng = np.random.default_rng(seed + 4)
    n_cases = 96 if tier == "quick" else 2000
    cases = []
    for _ in range(n_cases):
        n_files = int(rng.choice([1, 1, 2]))
        history = []
        for _k in range(int(rng.integers(1, 4))):
            kind = str(rng.choice(["split", "brew"]))
            history.append(dict(kind=kind, folds=int(rng.integers(2, 7)), rng=int(rng.integers(0, 10 ** 6)),
                                workers=int(rng.choice([1, 2] if tier == "quick" else [1, 2, 8])), cap=None))
        lo = 4 * max(h["folds"] for h in history) + 2          # every nominal fold holds at least four rows
        scans = [gen_scans(rng, int(rng.integers(lo, 49))) for _j in range(n_files)]
        for h in history:                                       # a cap that bites, below every file's training pool
            if h["kind"] == "brew" and rng.random() < 0.5:
                h["cap"] = int(rng.integers(2 * n_files + 4, max(2 * n_files + 5, min(len(s) for s in scans) // 2 * n_files)))
        p = dict(filename=0.3, ret_time=0.35, expmass=0.7, calcmass=0.75, charge=0.3)
        cases.append(dict(scans=scans, has=[o for o in OPTIONAL if rng.random() < p[o]],
                          naming=str(rng.choice(list(READ_NAMES))), fmt=str(rng.choice(["tab", "parquet"])),
                          data_seed=int(rng.integers(0, 10 ** 6)), reuse=str(rng.choice(["same", "copy"])),
                          history=history))
    return cases


def _history_worker(cases):
    with scratch("c02h_") as d:
        return [run_history_case(c, d) for c in cases]


def start_read_and_reuse(tier, seed, procs=4):
    """Starts the evaluation of the histories in `procs` forked workers, so that it overlaps with the other checks;
    pass the value to check_read_and_reuse."""
    import multiprocessing as mp
    cases = gen_history_cases(tier, seed)
    pool = mp.get_context("fork").Pool(procs)
    import time
    return cases, pool, pool.map_async(_history_worker, [cases[i::procs] for i in range(procs)]), procs, time.time()


def check_read_and_reuse(tier, seed, started=None):
    if started is None:
        started = start_read_and_reuse(tier, seed, procs=8)
    cases, pool, pending, procs, t0 = started
    results = [None] * len(cases)
    for i, block in enumerate(pending.get()):
        results[i::procs] = block
    pool.close()
    pool.join()
    ck = Check("read_and_reused_datasets", "mokapot.read_pin -> OnDiskPsmDataset._split / mokapot.brew.brew, called 1-3 times on the same objects",
               "random: %d cases with seed %d: 1-2 PIN files (tab-delimited / Parquet) of 4*max(folds)+2 .. 48 rows, spectrum "
               "multiplicity 1-4, optional columns file name (30%%: two runs sharing their scan numbers) / retention time "
               "(35%%) / measured mass (70%%) / theoretical mass (75%%, different for every candidate of a spectrum) / charge "
               "(30%%, candidate level), named as mokapot expects them, in another letter case, or freely and passed as "
               "*_column arguments; the datasets returned by read_pin (spectrum key of 1-4 columns chosen by the reader) "
               "go through a history of 1-3 calls, each _split on every file or brew on all files, folds 2-6 drawn "
               "independently per call, workers %s, subset_max_train absent / biting; between two calls the spectra "
               "frame the reader attached is re-attached (the same object) to the same dataset objects or to "
               "copy.copy of them; default chunk sizes" % (len(cases), seed + 4, "1/2" if tier == "quick" else "1/2/8"),
               "the spectrum of a row is the generator's spectrum number (run, scan, retention time and measured mass are "
               "functions of it; theoretical mass, charge, peptide and features are not); after EVERY call: exactly "
               "`folds` non-empty folds partitioning the rows, every spectrum in one fold, and for brew the rule of "
               "brew_cv_integrity (score from the fold's model, which saw neither the row nor its spectrum mates, "
               "training rows within the other folds and the cap); the first failing call ends a history; "
               "non-trivial = every call of the history passed and some spectrum has several PSMs")
    ck.t0 = t0                                              # the workers were started then
    skipped, found = 0, []
    for c, res in zip(cases, results):
        if isinstance(res, str):
            skipped += 1
            ck.case(c, nontrivial=False)
            continue
        ck.case(c, nontrivial=any(len(set(f)) < len(f) for f in c["scans"]) and not res)
        found += [(cid, what, c) for cid, what in res]
    report(ck, found)
    ck.rule += "; %d histories skipped because a training set held only targets or only decoys" % skipped
    return ck


# ------------------------------------------------------------------------------------------------ replay
def REPLAY(check_name, violation):
    c = violation["input"]
    if isinstance(c, str):
        c = json.loads(c)
    if check_name == "brew_cv_integrity":
        with scratch("c02r_") as d:
            res = run_brew_case(c, d)
    elif check_name == "split_partition":
        res = run_split_case(c)
    elif check_name == "make_train_sets":
        res = run_train_sets_case(c)
    elif check_name == "read_and_reused_datasets":
        with scratch("c02r_") as d:
            res = run_history_case(c, d)
    else:
        return {"violated": None, "note": "no replay for %s" % check_name}
    if isinstance(res, str):
        return {"violated": False, "detail": res}
    return {"violated": bool(res), "detail": res}


if __name__ == "__main__":
    a = args()
    np.random.seed(a.seed)
    started = start_large_train_sets(a.tier, a.seed)   # forked first: runs while the other checks are evaluated
    started_hist = start_read_and_reuse(a.tier, a.seed)
    emit([check_brew(a.tier, a.seed), check_split(a.tier, a.seed), check_train_sets(a.tier, a.seed, started),
          check_read_and_reuse(a.tier, a.seed, started_hist)],
         ["fold membership of a row is read off the score (tag of the model that produced it); the training rows of a "
          "model are what its estimator's fit() received (train_fdr=1.0 keeps every target as a positive, so nothing "
          "is filtered before fit)",
          "ensemble mode off; models fitted by brew (not user-supplied)",
          "training sets holding only targets or only decoys are outside the domain (mokapot refuses them by design)",
          "crc32 collisions between different spectrum keys are not enumerated",
          "read_and_reused_datasets: which columns identify a spectrum is taken from the meaning of the PIN columns (run, "
          "scan, retention time, measured mass: the spectrum; theoretical mass, charge, peptide: the candidate); a "
          "dataset is re-used by re-attaching the spectra frame the reader gave it, because the pinned _split deletes "
          "that attribute (a second brew on an untouched, already split dataset object raises AttributeError and is "
          "outside the domain)"])
