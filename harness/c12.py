"""C12 bounded stand-in: Model.fit feeds the estimator rows and labels of the same PSM, in any row order and with
shuffle on or off; predictions are order independent, match features by name, and survive save/load.

Oracle (property text): in every training iteration the rows given to the estimator are feature rows of PSMs of the
dataset, each with the label of that same PSM: label 1 exactly for the targets accepted at train_fdr under the
current scores (the initial direction for iteration 0, afterwards the scores the estimator itself returned in the
previous iteration), label 0 exactly for the decoys. q-values are recomputed here from the definition
q(s) = min over thresholds t <= s of (decoys(>=t)+1)/targets(>=t), capped at 1, with exact fractions.

Call histories (check refit_history): the same statement for every sequence of calls on ONE Model object: fit, fit
again on a table whose feature columns come in another order, save/load in between, a pre-trained model that is
fitted again. For a model that is already trained the "current scores" of the first iteration are the scores of that
model: features by name, normalised with the statistics the model holds, estimator as trained. After every completed
fit the name list, the scaler and the estimator must describe the same column order, so predictions (any column order
of the table handed in) equal: feature by name -> statistics of that name from the last training table -> weight the
spying estimator learned for the input column that held this name.
"""
import itertools
import json
import logging
import warnings
from fractions import Fraction
from pathlib import Path

import numpy as np
import pandas as pd
from sklearn.base import BaseEstimator

from harness.common import Check, args, emit
from harness.datasets import scratch

logging.disable(logging.CRITICAL)
warnings.filterwarnings("ignore")

FEATS = ["f0", "f1", "f2", "rid"]        # rid = the row-id feature (position 3 at training time)
W_FIXED = np.array([1.0, 0.5, -0.25, 0.0])
TOL = 1e-9


# ------------------------------------------------------------------------------------------------ estimators
class _Recording(BaseEstimator):
    """Deterministic, row-wise scoring estimator that records what fit() and the scoring method received.
    learn=False: fixed linear function of the row; learn=True: weights = mean(positives) - mean(negatives)."""

    def __init__(self, learn=False, shape="n2"):
        self.learn = learn
        self.shape = shape

    def fit(self, X, y):
        X = np.asarray(X, dtype=float)
        y = np.asarray(y, dtype=float)
        if not hasattr(self, "fits_"):
            self.fits_, self.outs_ = [], {}
        self.fits_.append((X.copy(), y.copy()))
        if self.learn:
            w = X[y == 1].mean(axis=0) - X[y == 0].mean(axis=0)
            w[3] = 0.0
        else:
            w = W_FIXED.copy()
        self.w_ = w
        return self

    def _score(self, X):
        X = np.asarray(X, dtype=float)
        s = (X * self.w_).sum(axis=1)
        self.outs_[len(self.fits_)] = (X.copy(), s.copy())   # scores returned after the k-th fit
        return s


class RecDecision(_Recording):
    def decision_function(self, X):
        return self._score(X)


class RecProba(_Recording):
    def predict_proba(self, X):
        s = self._score(X)
        return np.column_stack([-s, s]) if self.shape == "n2" else s


# ------------------------------------------------------------------------------------------------ oracle pieces
def accepted_targets(scores, is_target, fdr, desc=True):
    """Set of positions of targets with q-value <= fdr (definition, exact arithmetic)."""
    s = np.asarray(scores, dtype=float) * (1.0 if desc else -1.0)
    tgt = np.asarray(is_target, dtype=bool)
    thr = Fraction(fdr)
    out, run = {}, Fraction(1)
    for t in sorted(set(s.tolist())):           # thresholds from the worst score upwards: running min over t' <= t
        nt = int((tgt & (s >= t)).sum())
        nd = int((~tgt & (s >= t)).sum())
        run = min(run, Fraction(nd + 1, nt) if nt else Fraction(1))
        out[t] = run
    return set(i for i in range(len(s)) if tgt[i] and out[float(s[i])] <= thr)


def make_df(c):
    """Dataset of case c in its BASE order: continuous features (no accidental ties) plus exact duplicates of
    feature rows shared by a target and a decoy (robust ties)."""
    rng = np.random.default_rng(c["data_seed"])
    n = c["n"]
    tgt = np.array([True, True, True, False, False] + list(rng.random(n - 5) < 0.55))[:n]
    good = tgt & (rng.random(n) < 0.7)
    f0 = np.where(good, rng.normal(3.0, 1.0, n), rng.normal(0.0, 1.0, n))
    f1 = np.where(good, rng.normal(1.5, 1.0, n), rng.normal(0.0, 1.0, n))
    f2 = rng.normal(0.0, 1.0, n)
    if c.get("lower_is_better"):
        f0 = -f0
    for _ in range(c.get("dups", 0)):
        a, b = int(rng.integers(0, n)), int(rng.integers(0, n))
        f0[b], f1[b], f2[b] = f0[a], f1[a], f2[a]
    df = pd.DataFrame({"target": tgt, "spectrum": np.arange(n) // 2, "peptide": ["PEP%dK" % i for i in range(n)],
                       "protein": ["p%d" % (i % 3) for i in range(n)], "f0": f0, "f1": f1, "f2": f2,
                       "rid": np.arange(n, dtype=float)})
    return df


def make_psms(df, feature_columns=FEATS, column_order=None):
    from mokapot import LinearPsmDataset
    if column_order is not None:
        df = df[column_order]
    return LinearPsmDataset(psms=df, target_column="target", spectrum_columns="spectrum", peptide_column="peptide",
                            protein_column="protein", feature_columns=list(feature_columns), copy_data=True)


def expected_rows(df, scaler):
    """Feature matrix (training column order) the estimator must see for every row id, keyed by id."""
    X = df[FEATS].to_numpy(dtype=float)
    if scaler == "standard":
        sd = X.std(axis=0)
        sd[sd == 0] = 1.0
        X = (X - X.mean(axis=0)) / sd
    ids = df["rid"].to_numpy().astype(int)
    return {int(i): X[k] for k, i in enumerate(ids)}


def decode_ids(X, exp):
    """Row id of every recorded feature row (the id column may have been standardised): nearest id value."""
    keys = sorted(exp)
    col = np.array([exp[k][3] for k in keys])
    pos = np.abs(np.asarray(X)[:, 3][:, None] - col[None, :]).argmin(axis=1)
    return [keys[p] for p in pos]


def build_model(c, est=None):
    from mokapot.model import Model
    from sklearn.preprocessing import StandardScaler
    if est is None:
        est = (RecDecision if c["kind"] == "decision" else RecProba)(learn=c["learn"], shape=c.get("shape", "n2"))
    return Model(est, scaler="as-is" if c["scaler"] == "as-is" else StandardScaler(), train_fdr=c["train_fdr"],
                 max_iter=c["max_iter"], direction=c.get("direction"), override=True, shuffle=c["shuffle"],
                 rng=c["rng"])


def run_fit(c, order):
    """Fit on the dataset of c with rows in `order`. Returns (violations, outcome) where outcome is
    ('trained', {id: final prediction}) or ('aborted', message)."""
    base = make_df(c)
    df = base.iloc[list(order)].reset_index(drop=True)
    psms = make_psms(df)
    model = build_model(c)
    aborted = None
    try:
        model.fit(psms)
    except RuntimeError as e:
        if not any(m in str(e) for m in ("Model performs worse after training", "No PSMs accepted at train_fdr",
                                         "No PSMs found below the 'eval_fdr'")):
            return [("fit-raises-RuntimeError", str(e))], ("error", str(e))
        aborted = str(e)
    except Exception as e:  # noqa
        return [("fit-raises-" + type(e).__name__, "%s: %s" % (type(e).__name__, e))], ("error", str(e))
    est = model.estimator
    bad = check_iterations(c, df, est, aborted)
    if aborted or bad:
        return bad, ("aborted", aborted)
    pred = np.asarray(model.predict(psms), dtype=float)
    ids = df["rid"].to_numpy().astype(int)
    if len(pred) != len(ids):
        return [("predict-length", "%d predictions for %d rows" % (len(pred), len(ids)))], ("error", "")
    exp = expected_rows(df, c["scaler"])
    want = {i: float((exp[i] * est.w_).sum()) for i in exp}
    out = {int(i): float(p) for i, p in zip(ids, pred)}
    off = [i for i in out if abs(out[i] - want[i]) > TOL]
    if off:
        bad.append(("predict-row-misaligned", "prediction of row ids %s is not the estimator's score of that row" % off[:4]))
    return bad, ("trained", out, model, psms, df)


def check_iterations(c, df, est, aborted):
    bad = []
    fits = getattr(est, "fits_", [])
    if not fits:
        if aborted and ("No PSMs accepted" in aborted or "No PSMs found below" in aborted):
            # refused before the first iteration: legitimate only if no initial direction accepts a target
            feats = [c["direction"]] if c.get("direction") else FEATS
            top = max(len(accepted_targets(df[f].to_numpy(), df["target"].to_numpy(), c["train_fdr"], desc))
                      for f in feats for desc in (True, False))
            return [("abort-although-targets-accepted", "%s, but a feature accepts %d targets" % (aborted, top))] if top else []
        return [("no-fit-recorded", "the estimator was never fitted")]
    if not aborted and len(fits) != c["max_iter"]:
        bad.append(("iteration-count", "%d fit calls for max_iter=%d" % (len(fits), c["max_iter"])))
    exp = expected_rows(df, c["scaler"])
    ids_all = df["rid"].to_numpy().astype(int)
    tgt_of = dict(zip(ids_all.tolist(), df["target"].tolist()))
    decoys = set(i for i in tgt_of if not tgt_of[i])
    thr = c["train_fdr"]
    for k, (X, y) in enumerate(fits):
        ids = decode_ids(X, exp)
        if len(set(ids)) != len(ids):
            return bad + [("fit-duplicate-rows", "iteration %d: a PSM is passed twice" % k)]
        wrong = [i for j, i in enumerate(ids) if np.abs(X[j] - exp[i]).max() > TOL]
        if wrong:
            return bad + [("fit-feature-row-mixed", "iteration %d: feature rows of ids %s are not rows of the dataset" % (k, wrong[:4]))]
        if not set(np.unique(y).tolist()) <= {0.0, 1.0}:
            return bad + [("fit-label-values", "iteration %d: labels %s" % (k, np.unique(y).tolist()))]
        pos = set(i for i, v in zip(ids, y) if v == 1)
        neg = set(i for i, v in zip(ids, y) if v == 0)
        if neg != decoys:
            return bad + [("fit-negatives-not-decoys", "iteration %d: label 0 for ids %s, decoys are %s"
                           % (k, sorted(neg ^ decoys)[:6], "a different set"))]
        # current scores
        if k == 0:
            options = []
            feats = [c["direction"]] if c.get("direction") else FEATS
            for f in feats:
                for desc in (True, False):
                    acc = accepted_targets(df[f].to_numpy(), df["target"].to_numpy(), thr, desc)
                    options.append(set(int(ids_all[p]) for p in acc))
            top = max(len(o) for o in options)
            ok = any(pos == o for o in options if len(o) == top)
            src = "the initial direction"
        else:
            Xs, s = est.outs_.get(k, (None, None))
            if Xs is None:
                return bad + [("no-scores-recorded", "no scoring call after fit %d" % k)]
            sid = decode_ids(Xs, exp)
            if sorted(sid) != sorted(ids_all.tolist()):
                return bad + [("score-call-rows", "iteration %d was scored on a different row set" % (k - 1))]
            score_of = dict(zip(sid, s.tolist()))
            order = ids_all.tolist()
            acc = accepted_targets([score_of[i] for i in order], [tgt_of[i] for i in order], thr, True)
            ok = pos == set(order[p] for p in acc)
            src = "the scores returned in iteration %d" % (k - 1)
        if not ok:
            return bad + [("fit-positives-not-accepted-targets", "iteration %d (shuffle=%s): label 1 for ids %s is not the set "
                           "of targets accepted at %g under %s" % (k, c["shuffle"], sorted(pos)[:8], thr, src))]
    return bad


# ------------------------------------------------------------------------------------------------ cases
def run_case(c, d=None):
    """All sub-checks of one dataset/configuration. Returns [(case_id, what)]."""
    n = c["n"]
    prng = np.random.default_rng(c["perm_seed"])
    if c.get("all_perms"):
        orders = list(itertools.permutations(range(n)))
    else:
        orders = [tuple(range(n)), tuple(reversed(range(n)))] + [tuple(int(x) for x in prng.permutation(n))
                                                                 for _ in range(c["n_perm"])]
    bad, outcomes = [], []
    keep = None
    for order in orders:
        for sh in (True, False):
            cc = dict(c, shuffle=sh)
            b, out = run_fit(cc, order)
            bad += [(cid, "%s [order=%s]" % (what, list(order) if n <= 12 else "perm")) for cid, what in b]
            outcomes.append((order, sh, out))
            if out[0] == "trained" and keep is None:
                keep = out
        if len(bad) > 4:
            break
    kinds = set(o[2][0] for o in outcomes)
    if not bad and kinds == {"trained", "aborted"}:
        bad.append(("training-outcome-depends-on-order", "training aborts for some row orders / shuffle settings and "
                    "succeeds for others: %s" % [(list(o[0])[:6], o[1], o[2][0]) for o in outcomes[:6]]))
    trained = [o for o in outcomes if o[2][0] == "trained"]
    if not bad and len(trained) > 1:
        ref = trained[0][2][1]
        for order, sh, out in trained[1:]:
            diff = max(abs(out[1][i] - ref[i]) for i in ref)
            if diff > TOL:
                bad.append(("prediction-depends-on-order-or-shuffle", "final predictions differ by %.3g between row orders/"
                            "shuffle settings (shuffle=%s)" % (diff, sh)))
                break
    if not bad and keep is not None:
        bad += check_names_and_persistence(c, keep, d)
    return bad, len(trained)


def check_names_and_persistence(c, keep, d):
    from mokapot.model import load_model, save_model
    _, ref, model, psms, df = keep
    bad = []
    ids = df["rid"].to_numpy().astype(int)
    prng = np.random.default_rng(c["perm_seed"] + 1)
    for _ in range(3):
        fc = [FEATS[i] for i in prng.permutation(len(FEATS))]
        cols = list(df.columns)
        meta = [x for x in cols if x not in FEATS]
        corder = [cols[i] for i in prng.permutation(len(cols))]
        for fcols, co in ((fc, None), (FEATS, meta + fc), (fc, corder)):
            p2 = make_psms(df, feature_columns=fcols, column_order=co)
            try:
                pred = np.asarray(model.predict(p2), dtype=float)
            except Exception as e:  # noqa
                return [("predict-permuted-columns-raises", "%s: %s" % (type(e).__name__, e))]
            if max(abs(float(p) - ref[int(i)]) for i, p in zip(ids, pred)) > 1e-12:
                return [("prediction-by-column-position", "scores change when the feature columns are passed in the order "
                         "%s" % fcols)]
    # a dataset with different feature names must be refused
    try:
        model.predict(make_psms(df.rename(columns={"f1": "g1"}), feature_columns=["f0", "g1", "f2", "rid"]))
        bad.append(("predict-accepts-foreign-features", "no error for a dataset with another feature name set"))
    except ValueError:
        pass
    except Exception as e:  # noqa
        bad.append(("predict-foreign-features-error-type", "%s: %s" % (type(e).__name__, e)))
    if d is not None:
        path = Path(d) / "model.pkl"
        for saver in (lambda m, f: m.save(f), save_model):
            try:
                saver(model, path)
                m2 = load_model(path)
                pred = np.asarray(m2.predict(psms), dtype=float)
            except Exception as e:  # noqa
                return bad + [("save-load-raises", "%s: %s" % (type(e).__name__, e))]
            if len(pred) != len(ids) or max(abs(float(p) - ref[int(i)]) for i, p in zip(ids, pred)) > 0:
                return bad + [("save-load-changes-predictions", "re-loaded model predicts differently")]
    return bad


def gen_cases(tier, seed):
    rng = np.random.default_rng(seed)
    quick = tier == "quick"
    cases = []
    for k in range(2 if quick else 6):             # every row permutation of tiny datasets
        cases.append(dict(n=5 if quick or k < 4 else 6, data_seed=int(rng.integers(0, 10 ** 6)), all_perms=True, n_perm=0,
                          perm_seed=0, kind=["decision", "proba"][k % 2], learn=bool(k % 2), scaler="as-is",
                          train_fdr=0.5, max_iter=2, rng=int(rng.integers(0, 10 ** 6)), dups=0))
    for k in range(130 if quick else 1000):
        kind = str(rng.choice(["decision", "proba"]))
        cases.append(dict(n=int(rng.integers(6, 31)), data_seed=int(rng.integers(0, 10 ** 6)), n_perm=2 if quick else 6,
                          perm_seed=int(rng.integers(0, 10 ** 6)), kind=kind, learn=bool(rng.random() < 0.6),
                          shape=str(rng.choice(["n2", "n"])), scaler=str(rng.choice(["as-is", "standard"])),
                          train_fdr=float(rng.choice([0.25, 0.5, 0.75])),
                          max_iter=int(rng.integers(1, 5)) if quick else int(rng.integers(1, 11)),
                          direction=[None, None, "f0", "f1"][int(rng.integers(0, 4))],
                          lower_is_better=bool(rng.random() < 0.25), dups=int(rng.integers(0, 4)),
                          rng=int(rng.integers(0, 10 ** 6))))
    return cases


def check_training(tier, seed):
    cases = gen_cases(tier, seed)
    n_all = sum(1 for c in cases if c.get("all_perms"))
    ck = Check("fit_alignment", "mokapot.model.Model.fit / decision_function / save / load_model",
               "random: %d datasets with seed %d (6-30 rows, 4 features incl. the row id, 0-3 duplicated feature rows), each "
               "fitted in identity, reversed and %d random row orders x shuffle on/off; + %d datasets of 5-6 rows in "
               "EVERY row permutation x shuffle on/off; max_iter %s, train_fdr in {0.25,0.5,0.75}, direction None/f0/f1, "
               "scaler as-is/StandardScaler, decision_function and predict_proba ((n,2) and (n,)) estimators, fixed and "
               "learned (mean difference) weights; per dataset 9 feature-column permutations at prediction and 2 "
               "save/load round trips"
               % (len(cases) - n_all, seed, cases[-1]["n_perm"], n_all, "1-4" if tier == "quick" else "1-10"),
               "recording deterministic estimator; every fit() call is compared with the oracle; non-trivial = at least two "
               "row orders/shuffle settings trained successfully and were compared (datasets on which training aborts for "
               "every order are evaluations only)")
    found = []
    with scratch("c12_") as d:
        for c in cases:
            bad, n_trained = run_case(c, d)
            ck.case(c, nontrivial=n_trained >= 2 and not bad)
            found += [(cid, what, c) for cid, what in bad]
    best = {}
    for cid, what, inp in found:
        size = inp["n"]
        if cid not in best or size < best[cid][0]:
            best[cid] = (size, what, inp)
    for cid in sorted(best):
        ck.violation(cid, best[cid][1], best[cid][2])
    return ck


# ------------------------------------------------------------------------------------------------ call histories
# One Model object, several calls: [pre-trained |] fit(order A) [-> save -> load] -> fit(order B) [-> fit(order C)], with
# predictions on datasets in several column orders after every step. The oracle keeps a GHOST STATE of what the model
# must be after each successful fit: the normalisation statistics per feature NAME (recomputed here from the training
# table), the feature NAME held by every estimator input column (decoded from the rows the spying estimator received)
# and the weights the spy learned. Everything the model does next is predicted from the ghost state alone.
H_AFFINE = {"f0": (1.0, 0.0), "f1": (8.0, 50.0), "f2": (0.125, -7.0), "rid": (1.0 / 64, 0.0)}   # very different scales
H_PERMS = list(itertools.permutations(range(len(FEATS))))
H_PRE_W = {"f0": 1.0, "f1": 0.125, "f2": 0.25, "rid": -0.5}          # weights BY NAME of the hand-made pre-trained model
_HLOG = []                                                            # event log shared by all spy instances


class _Spy(BaseEstimator):
    """Row-wise linear scorer, weights = mean(positives) - mean(negatives) over ALL input columns (it knows nothing
    about names). Every fit / scoring call is appended to the module-level log (survives clone and pickle)."""

    def __init__(self, shape="n2"):
        self.shape = shape

    def fit(self, X, y):
        X = np.asarray(X, dtype=float)
        y = np.asarray(y, dtype=float)
        pos, neg = X[y == 1], X[y == 0]
        if len(pos) and len(neg):
            w = pos.mean(axis=0) - neg.mean(axis=0)
            b = -float((w * (pos.mean(axis=0) + neg.mean(axis=0))).sum()) / 2
        else:
            w, b = np.zeros(X.shape[1]), 0.0
        self.w_, self.b_ = w, b
        _HLOG.append(("fit", X.copy(), y.copy(), w.copy(), b))
        return self

    def _score(self, X):
        X = np.asarray(X, dtype=float)
        s = (X * self.w_).sum(axis=1) + self.b_
        _HLOG.append(("score", X.copy(), s.copy()))
        return s


class SpyDecision(_Spy):
    def decision_function(self, X):
        return self._score(X)


class SpyProba(_Spy):
    def predict_proba(self, X):
        s = self._score(X)
        return np.column_stack([-s, s]) if self.shape == "n2" else s


def hist_df(seed, n):
    df = make_df(dict(n=n, data_seed=seed, dups=0))
    for f, (a, b) in H_AFFINE.items():
        df[f] = df[f] * a + b
    return df


def norm_stats(df, scaler):
    """Normalisation constants per feature NAME, from the definition of the scaler."""
    out = {}
    for f in FEATS:
        x = df[f].to_numpy(dtype=float)
        if scaler == "standard":
            out[f] = (float(x.mean()), float(x.std()) or 1.0)
        elif scaler == "minmax":
            out[f] = (float(x.min()), float(x.max() - x.min()) or 1.0)
        else:
            out[f] = (0.0, 1.0)
    return out


def norm_rows(df, stats):
    """Normalised feature matrix, columns in the canonical order FEATS, rows in the order of df."""
    return np.column_stack([(df[f].to_numpy(dtype=float) - stats[f][0]) / stats[f][1] for f in FEATS])


def match_rows(X, Z, hint=None):
    """(p, pos): estimator column j holds feature FEATS[p[j]] and X[r] is row pos[r] of Z; None when no column
    assignment makes every recorded row a row of Z."""
    X = np.asarray(X, dtype=float)
    if X.ndim != 2 or X.shape[1] != Z.shape[1] or not len(X):
        return None
    for p in ([tuple(hint)] if hint is not None else []) + H_PERMS:
        d = np.abs(X[:, None, :] - Z[None, :, list(p)]).max(axis=2)
        pos = d.argmin(axis=1)
        if d[np.arange(len(X)), pos].max() <= TOL:
            return tuple(p), pos
    return None


def hist_model(c):
    from mokapot.model import Model
    from sklearn.preprocessing import MinMaxScaler, StandardScaler
    est = SpyDecision() if c["est"] == "decision" else SpyProba(shape=c["est"].split("-")[1])
    sc = {"as-is": "as-is", "standard": StandardScaler(), "minmax": MinMaxScaler()}[c["scaler"]]
    return Model(est, scaler=sc, train_fdr=c["train_fdr"], max_iter=c["max_iter"], direction=c.get("direction"),
                 override=True, shuffle=c["shuffle"], rng=c["rng"])


def hist_psms(df, order, via):
    """Dataset whose feature columns come in `order`: through the feature_columns list ('list'), through the column
    order of the table with feature_columns left to mokapot ('frame'), or both."""
    from mokapot import LinearPsmDataset
    meta = [x for x in df.columns if x not in FEATS]
    if via in ("frame", "both"):
        df = df[meta[:2] + list(order) + meta[2:]]
    return LinearPsmDataset(psms=df, target_column="target", spectrum_columns="spectrum", peptide_column="peptide",
                            protein_column="protein", feature_columns=None if via == "frame" else list(order),
                            copy_data=True)


def ghost_scores(g, df):
    """Score of every row of df under the ghost state: features taken BY NAME, normalised with the statistics of that
    name from the last training table, fed to the learned weights in the estimator's column order."""
    Z = norm_rows(df, g["stats"])[:, list(g["cols"])]
    return (Z * g["w"]).sum(axis=1) + g["b"]


def check_fit_step(c, df, order, g, events, aborted):
    """Compare the estimator calls of ONE Model.fit (events) with the oracle. g = ghost state before the call (None:
    untrained). Returns (violations, column assignment or None)."""
    bad = []
    refit = g is not None
    tag = "refit" if refit else "first-fit"
    stats = norm_stats(df, c["scaler"])
    Z = norm_rows(df, stats)
    tgt = df["target"].to_numpy(dtype=bool)
    n = len(df)
    decoys = set(np.flatnonzero(~tgt).tolist())
    thr = c["train_fdr"]
    # positives the first estimator fit must get
    if refit:
        names_now = [FEATS[j] for j in g["cols"]]
        cls = ("columns-reordered" if list(order) != names_now else
               "normalising-scaler" if c["scaler"] != "as-is" else "same-order-as-is")
        start_id = "refit-start-labels-not-under-model-scores[%s]" % cls
        options = [accepted_targets(ghost_scores(g, df), tgt, thr, True)]
        src = "the scores of the trained model (features by name, its own normalisation)"
    else:
        start_id = "history-first-fit-start-labels"
        feats = [c["direction"]] if c.get("direction") else FEATS
        options = [accepted_targets(df[f].to_numpy(), tgt, thr, desc) for f in feats for desc in (True, False)]
        top = max(len(o) for o in options)
        options = [o for o in options if len(o) == top]
        src = "the initial direction"
    fits = [e for e in events if e[0] == "fit"]
    if not fits:
        if aborted and ("No PSMs accepted" in aborted or "No PSMs found below" in aborted):
            if len(options[0]):
                bad.append((start_id, "%s refused with '%s' although %d targets are accepted at %g under %s"
                            % (tag, aborted[:40], len(options[0]), thr, src)))
            return bad, None
        return [("history-no-fit-recorded", "%s: the estimator was never fitted (%s)" % (tag, aborted))], None
    if not aborted and len(fits) != c["max_iter"]:
        bad.append(("history-iteration-count", "%s: %d estimator fits for max_iter=%d" % (tag, len(fits), c["max_iter"])))
    p, k, last_score = None, 0, None
    for e in events:
        if e[0] == "score":
            last_score = e
            continue
        _, X, y, _, _ = e
        m = match_rows(X, Z, p)
        if m is None:
            return bad + [("history-fit-rows-not-normalised-dataset-rows", "%s, iteration %d: the rows given to the "
                           "estimator are not rows of the training table normalised with its own statistics (%s), in "
                           "any column order" % (tag, k, c["scaler"]))], None
        if p is not None and m[0] != p:
            return bad + [("history-fit-column-order-changes", "%s, iteration %d: estimator columns %s, before %s"
                           % (tag, k, m[0], p))], None
        p, ids = m[0], m[1].tolist()
        if len(set(ids)) != len(ids):
            return bad + [("history-fit-duplicate-rows", "%s, iteration %d: a PSM is passed twice" % (tag, k))], None
        if not set(np.unique(y).tolist()) <= {0.0, 1.0}:
            return bad + [("history-fit-label-values", "%s, iteration %d: labels %s" % (tag, k, np.unique(y).tolist()))], None
        pos = set(i for i, v in zip(ids, y) if v == 1)
        neg = set(i for i, v in zip(ids, y) if v == 0)
        if neg != decoys:
            return bad + [("history-fit-negatives-not-decoys", "%s, iteration %d: label 0 for rows %s"
                           % (tag, k, sorted(neg ^ decoys)[:6]))], None
        if k == 0:
            if not any(pos == o for o in options):
                bad.append((start_id, "%s, iteration 0: label 1 for rows %s, the targets accepted at %g under %s are %s"
                            % (tag, sorted(pos)[:8], thr, src, sorted(options[0])[:8])))
        else:
            if last_score is None:
                return bad + [("history-no-scores-recorded", "%s: no scoring call before fit %d" % (tag, k))], None
            ms = match_rows(last_score[1], Z, p)
            if ms is None or ms[0] != p or sorted(ms[1].tolist()) != list(range(n)):
                return bad + [("history-score-call-rows", "%s: iteration %d was not scored on the normalised training "
                               "table" % (tag, k - 1))], None
            s = np.empty(n)
            s[ms[1]] = last_score[2]
            if pos != accepted_targets(s, tgt, thr, True):
                return bad + [("history-fit-positives-not-accepted-targets", "%s, iteration %d (shuffle=%s): label 1 for "
                               "rows %s is not the set of targets accepted at %g under the scores returned in iteration "
                               "%d" % (tag, k, c["shuffle"], sorted(pos)[:8], thr, k - 1))], None
        k += 1
    return bad, p


def probe_orders(c, prev_orders, rng):
    out = []
    for o in prev_orders + [list(reversed(FEATS))] + [[FEATS[i] for i in rng.permutation(len(FEATS))]
                                                      for _ in range(c.get("n_probe", 2))]:
        if list(o) not in out:
            out.append(list(o))
    return out


def check_predictions(c, model, g, dfs, orders, stage, rng):
    """model.predict on the first table of dfs with the feature columns in every order of `orders` (the orders the
    model has seen come first), on the other tables in the first two of them."""
    for di, df in enumerate(dfs):
        want = ghost_scores(g, df)
        tol = TOL * max(1.0, float(np.abs(want).max()))
        for o in (orders if di == 0 else orders[:2]):
            via = ["list", "frame", "both"][int(rng.integers(0, 3))]
            try:
                got = np.asarray(model.predict(hist_psms(df, o, via)), dtype=float)
            except Exception as e:  # noqa
                return [("history-predict-raises-after-" + stage, "%s: %s [columns %s]" % (type(e).__name__, e, o))]
            if got.shape != want.shape or float(np.abs(got - want).max()) > tol:
                err = float(np.abs(got - want).max()) if got.shape == want.shape else float("nan")
                return [("prediction-not-by-name-after-" + stage,
                         "after %s (training columns %s, model.features %s) the scores of table %d passed with columns %s "
                         "differ by %.3g from: features by name, normalised with the statistics of that name from the last "
                         "training table (%s), weights the estimator learned" % (stage, [FEATS[j] for j in g["cols"]],
                                                                               list(model.features), di, o, err, c["scaler"]))]
    return []


def run_history(c, d=None):
    """Returns (violations [(case_id, what)], number of successful re-fits whose column order differs from the order
    the model held before)."""
    from mokapot.model import load_model
    rng = np.random.default_rng(c["probe_seed"])
    dfs = [hist_df(s, c["n"]) for s in c["data_seeds"]]
    model = hist_model(c)
    del _HLOG[:]
    bad, g, n_reordered, seen_orders = [], None, 0, []
    if c.get("pretrained"):
        # the trained state assembled by hand, the way load_model does it for Percolator weight files
        order = list(c["pretrained"])
        model.estimator.w_ = np.array([H_PRE_W[f] for f in order])
        model.estimator.b_ = 0.0
        model.scaler.fit(dfs[0][order].to_numpy(dtype=float))
        model.features = list(order)
        model.is_trained = True
        g = dict(stats=norm_stats(dfs[0], c["scaler"]), cols=tuple(FEATS.index(f) for f in order),
                 w=model.estimator.w_.copy(), b=0.0)
        seen_orders.append(order)
        bad += check_predictions(c, model, g, dfs[:2], probe_orders(c, seen_orders, rng), "pretrained", rng)
    for step in c["steps"]:
        if bad and any(not cid.startswith("refit-start-labels") for cid, _ in bad):
            break
        if step["op"] == "saveload":
            if d is None or g is None:
                continue
            path = Path(d) / "hist_model.pkl"
            try:
                model.save(path)
                model = load_model(path)
            except Exception as e:  # noqa
                bad.append(("history-save-load-raises", "%s: %s" % (type(e).__name__, e)))
                break
            bad += check_predictions(c, model, g, dfs[:2], probe_orders(c, seen_orders, rng), "reload", rng)
            continue
        df, order = dfs[step["data"]], list(step["order"])
        stage = "refit" if g is not None else "first-fit"
        before = [FEATS[j] for j in g["cols"]] if g is not None else None
        mark = len(_HLOG)
        aborted = None
        try:
            model.fit(hist_psms(df, order, step["via"]))
        except RuntimeError as e:
            if not any(m in str(e) for m in ("Model performs worse after training", "No PSMs accepted at train_fdr",
                                             "No PSMs found below the 'eval_fdr'")):
                bad.append(("history-%s-raises-RuntimeError" % stage, str(e)))
                break
            aborted = str(e)
        except Exception as e:  # noqa
            cid = "history-%s-raises-%s" % (stage, type(e).__name__)
            if stage == "refit" and c["est"] != "decision":
                cid += "[predict_proba-%s]" % c["est"].split("-")[1]
            bad.append((cid, "%s: %s" % (type(e).__name__, e)))
            break
        events = _HLOG[mark:]
        b, p = check_fit_step(c, df, order, g, events, aborted)
        bad += b
        if aborted or p is None:
            break                              # an interrupted fit leaves no state the property speaks about
        last = [e for e in events if e[0] == "fit"][-1]
        g = dict(stats=norm_stats(df, c["scaler"]), cols=p, w=last[3], b=last[4])
        seen_orders.append(order)
        if before is not None and before != order:
            n_reordered += 1
        # the name list of the model must describe the estimator's input columns (that is what a weight is reported under)
        est_names = [FEATS[j] for j in p]
        if list(model.features or []) != est_names:
            bad.append(("feature-list-not-estimator-column-order-after-" + stage,
                        "after %s on columns %s model.features is %s but estimator input column j holds %s: weight j is "
                        "reported under the wrong name" % (stage, order, model.features, est_names)))
        others = [x for k, x in enumerate(dfs) if x is not df][:1]
        bad += check_predictions(c, model, g, [df] + others, probe_orders(c, seen_orders[-2:], rng), stage, rng)
    del _HLOG[:]
    return bad, n_reordered


def gen_histories(tier, seed):
    rng = np.random.default_rng(seed + 7919)
    kinds = ["fit-fit", "fit-save-load-fit", "pretrained-fit", "fit-fit-fit", "pretrained-fit-save-load-fit"]
    scalers = ["as-is", "standard", "minmax"]
    cases = []

    def perm():
        return [FEATS[i] for i in rng.permutation(len(FEATS))]

    for k in range(75 if tier == "quick" else 1500):
        kind = kinds[k % len(kinds)]
        orders = [perm()]
        for _ in range(3):
            orders.append(list(orders[-1]) if rng.random() < 0.15 else perm())
        fit = lambda j: dict(op="fit", data=j % 2, order=orders[j], via=str(rng.choice(["list", "frame", "both"])))  # noqa
        steps = {"fit-fit": [fit(0), fit(1)], "fit-save-load-fit": [fit(0), dict(op="saveload"), fit(1)],
                 "pretrained-fit": [fit(1)], "fit-fit-fit": [fit(0), fit(1), fit(2)],
                 "pretrained-fit-save-load-fit": [fit(1), dict(op="saveload"), fit(2)]}[kind]
        cases.append(dict(kind=kind, n=int(rng.integers(24, 49)), data_seeds=[int(x) for x in rng.integers(0, 10 ** 6, 2)],
                          scaler=scalers[(k // len(kinds)) % 3],
                          est=["decision", "decision", "decision", "proba-n2", "proba-n"][int(rng.integers(0, 5))],
                          train_fdr=float(rng.choice([0.25, 0.5])), max_iter=int(rng.integers(1, 4)),
                          direction=[None, None, "f0"][int(rng.integers(0, 3))], shuffle=bool(rng.random() < 0.7),
                          rng=int(rng.integers(0, 10 ** 6)), probe_seed=int(rng.integers(0, 10 ** 6)), n_probe=2,
                          pretrained=orders[0] if kind.startswith("pretrained") else None, steps=steps))
    return cases


def check_history(tier, seed):
    cases = gen_histories(tier, seed)
    ck = Check("refit_history", "mokapot.model.Model.fit / decision_function / save / load_model (call histories on one object)",
               "random: %d call histories with seed %d on one Model object, kinds fit-fit, fit-save-load-fit, "
               "pretrained-fit, fit-fit-fit, pretrained-fit-save-load-fit (pretrained = estimator weights, features, "
               "is_trained set by hand and the scaler fitted on a reference table, as load_model does for Percolator "
               "weights); every fit on a fresh table of 24-48 rows with the same 4 feature names in an independently "
               "drawn column order (15%% keep the previous order; order given through feature_columns, through the "
               "table, or both), features on very different scales, scaler as-is/StandardScaler/MinMaxScaler, "
               "decision_function and predict_proba ((n,2),(n,)) spies, max_iter 1-3, train_fdr 0.25/0.5, shuffle "
               "on/off; after every completed step predictions of the trained-on table in 3-5 column orders (the orders of the last two fits, reversed canonical, 2 random) and of another table in 2 of them"
               % (len(cases), seed),
               "spying estimator with learned weights on every input column; ghost state (statistics per feature name, "
               "feature name per estimator column, weights) predicts the start labels of a re-fit, every estimator "
               "call, model.features and all predictions; non-trivial = at least one re-fit completed on a column "
               "order different from the one the model held, followed by compared predictions")
    found = []
    with scratch("c12h_") as d:
        for c in cases:
            bad, n_reordered = run_history(c, d)
            ck.case(c, nontrivial=n_reordered >= 1)
            found += [(cid, what, c) for cid, what in bad]
    best = {}
    for cid, what, inp in found:
        size = (len(inp["steps"]), inp["n"])
        if cid not in best or size < best[cid][0]:
            best[cid] = (size, what, inp)
    # state/prediction classes first: the Check keeps at most 5 violations
    for cid in sorted(best, key=lambda x: (x.startswith("refit-start-labels") or "[predict_proba" in x, x)):
        ck.violation(cid, best[cid][1], best[cid][2])
    return ck


def REPLAY(check_name, violation):
    c = violation["input"]
    if isinstance(c, str):
        c = json.loads(c)
    if check_name == "refit_history":
        with scratch("c12r_") as d:
            bad, _ = run_history(c, d)
        want = violation.get("case")
        if want is None:
            return {"violated": bool(bad), "detail": bad[:3]}
        # ONE recorded violation: it is reproduced only if the same class shows up again (the same history may also
        # show another, separately recorded class)
        hit = [b for b in bad if b[0] == want]
        return {"violated": bool(hit), "detail": hit[:3], "other_classes": sorted(set(b[0] for b in bad if b[0] != want))}
    if check_name != "fit_alignment":
        return {"violated": None, "note": "no replay for %s" % check_name}
    with scratch("c12r_") as d:
        bad, _ = run_case(c, d)
    return {"violated": bool(bad), "detail": bad[:3]}


if __name__ == "__main__":
    a = args()
    np.random.seed(a.seed)
    emit([check_training(a.tier, a.seed), check_history(a.tier, a.seed)],
         ["train_fdr restricted to dyadic values (0.25, 0.5, 0.75): mokapot.qvalues.tdc computes FDRs in float32, so a "
          "threshold such as 0.3 is not decided like the exact ratio 3/10; that belongs to C01, not to alignment",
          "feature values are continuous, score ties come only from exactly duplicated feature rows, so floating point "
          "re-association between row orders cannot flip a label; tolerance 1e-9 on predictions",
          "Model(override=True): the final 'performs worse' abort is disabled so that more configurations reach "
          "prediction; aborts because no target is accepted in an iteration are kept and must not depend on row order",
          "pickle round trip within one process",
          "refit_history: an interrupted fit (RuntimeError 'No PSMs accepted' / 'performs worse') ends the history, the "
          "state of the model after an exception is not examined; the start labels of a re-fit are judged by the labels "
          "the estimator receives (or by a refusal although targets are accepted), not by how the scores were obtained; "
          "the feature-name set is the same in every table of a history (other sets are refused, see fit_alignment)"])
