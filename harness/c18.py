"""C18 bounded stand-in: mokapot.parsers.fasta.make_decoys (+ _shuffle_proteins) and re-reading its output.

Oracle, from the statement: for every target (name, sequence) of the input FASTA files the output holds a record
named prefix+name whose sequence has the same length and residue multiset, in which the first and last residue of
every enzymatic peptide of the TARGET (pieces between consecutive cleavage positions {0, match ends, len}) are
unchanged, whose cleavage positions are the same for residue-class enzymes ("[KR]", "K"), and whose peptide interiors
are exactly reversed with reverse=True; with concatenate=True the target records come first, unchanged; the real
reader (_parse_fasta_files + _parse_protein) and an independent reader recover exactly these records.
"A name" is the first blank-delimited token of a header line.
"""
import itertools
import json
import logging
import random
import re
import warnings
from collections import Counter

import numpy as np

from harness.common import Check, args, emit
from harness.datasets import scratch

logging.disable(logging.CRITICAL)
warnings.filterwarnings("ignore")

ENZYMES = ["[KR]", "K", "[KR](?!P)"]
RESIDUE_CLASS = {"[KR]", "K"}
AA = "ACDEFGHIKLMNPQRSTVWY"


# ------------------------------------------------------------------ independent helpers
def write_fasta(path, records, width=None, trailing_newline=True):
    """records: (header, sequence). width None = one line per sequence."""
    lines = []
    for header, seq in records:
        lines.append(">" + header)
        if width is None:
            if seq:
                lines.append(seq)
        else:
            lines.extend(seq[i:i + width] for i in range(0, len(seq), width))
    text = "\n".join(lines) + ("\n" if trailing_newline else "")
    with open(path, "w") as f:
        f.write(text)
    return text


def read_fasta_text(text):
    """independent reader: header lines start with '>', everything else is sequence"""
    recs = []
    for line in text.split("\n"):
        line = line.rstrip("\r")
        if line.startswith(">"):
            recs.append([line[1:].split(" ")[0], ""])
        elif line.strip():
            if not recs:
                recs.append(["<no header>", ""])
            recs[-1][1] += line.strip()
    return [tuple(r) for r in recs]


def pieces(seq, enzyme):
    cuts = sorted({0, len(seq)} | {m.end() for m in re.finditer(enzyme, seq)})
    return cuts, [(a, b) for a, b in zip(cuts, cuts[1:])]


def shufflable(seq, enzyme):
    """the decoy may differ from the target: some enzymatic peptide has an interior with two different residues"""
    return any(len(set(seq[a + 1:b - 1])) >= 2 for a, b in pieces(seq, enzyme)[1])


def decoy_problems(target, decoy, enzyme, reverse):
    """list of (case, what) for one target/decoy sequence pair"""
    out = []
    if len(decoy) != len(target):
        return [("decoy-length-differs", "target %r (%d) decoy %r (%d)" % (target, len(target), decoy, len(decoy)))]
    if Counter(decoy) != Counter(target):
        out.append(("decoy-composition-differs", "target %r decoy %r" % (target, decoy)))
    cuts, pcs = pieces(target, enzyme)
    for a, b in pcs:
        if decoy[a] != target[a] or decoy[b - 1] != target[b - 1]:
            out.append(("peptide-terminus-moved", "peptide [%d,%d) %r became %r" % (a, b, target[a:b], decoy[a:b])))
            break
    if enzyme in RESIDUE_CLASS and pieces(decoy, enzyme)[0] != cuts:
        out.append(("cleavage-sites-differ", "target %r sites %s, decoy %r sites %s"
                    % (target, cuts, decoy, pieces(decoy, enzyme)[0])))
    if reverse:
        for a, b in pcs:
            if b - a >= 2 and decoy[a + 1:b - 1] != target[a + 1:b - 1][::-1]:
                out.append(("interior-not-reversed", "peptide [%d,%d) %r became %r"
                            % (a, b, target[a:b], decoy[a:b])))
                break
    return out


def run_case(files, enzyme, reverse, concatenate, prefix, np_seed, d=None):
    """files: list of dicts {records: [(header, seq)], width, trailing_newline}. Returns (targets, problems) where
    problems is a list of (case, what)."""
    from mokapot.parsers.fasta import make_decoys, _parse_fasta_files, _parse_protein
    if d is None:
        with scratch("c18_") as dd:
            return run_case(files, enzyme, reverse, concatenate, prefix, np_seed, dd)
    paths = []
    targets = []
    for i, f in enumerate(files):
        p = str(d / ("in%d.fasta" % i))
        write_fasta(p, f["records"], f.get("width"), f.get("trailing_newline", True))
        paths.append(p)
        targets.extend((h.split(" ")[0], s) for h, s in f["records"])
    out = str(d / "out.fasta")
    np.random.seed(np_seed)
    arg = paths[0] if len(paths) == 1 else paths
    ret = make_decoys(arg, out, decoy_prefix=prefix, enzyme=enzyme, reverse=reverse, concatenate=concatenate)
    problems = []
    if str(ret) != out:
        problems.append(("return-value", "make_decoys returned %r" % (ret,)))
    with open(out) as fh:
        text = fh.read()
    mine = read_fasta_text(text)
    real = [tuple(_parse_protein(e)) for e in _parse_fasta_files(out)]
    if real != mine:
        problems.append(("reread-mismatch", "real reader %s, independent reader %s" % (_diff(real, mine))))
    n = len(targets)
    want = 2 * n if concatenate else n
    if len(mine) != want:
        problems.append(("record-count", "%d records written, %d expected" % (len(mine), want)))
        return targets, problems
    if concatenate:
        if mine[:n] != targets:
            problems.append(("targets-not-reproduced", "first records %s, targets %s" % _diff(mine[:n], targets)))
        decoys = mine[n:]
    else:
        decoys = mine
    by_name = {}
    for name, seq in decoys:
        by_name.setdefault(name, []).append(seq)
    for name, seq in targets:
        got = by_name.get(prefix + name)
        if not got or len(got) != 1:
            problems.append(("decoy-name", "no single decoy named %r (decoy names %s)"
                             % (prefix + name, sorted(by_name)[:6])))
            continue
        problems.extend(decoy_problems(seq, got[0], enzyme, reverse))
    return targets, problems


def _diff(a, b):
    for x, y in itertools.zip_longest(a, b):
        if x != y:
            return (x, y)
    return (None, None)


# ------------------------------------------------------------------ case generation
def _rand_seq(rng, kind):
    n = rng.choice([0, 1, 2, 3, 4, 5, 6, 8, 12, 20, 35, 69, 70, 71, 72, 100, 139, 140, 141, 211])
    alphabet = {"full": AA, "rich": "KRPAC", "nosite": "ACDEFGHILMNPQSTVWY", "konly": "K", "ragged": "AKRP"}[kind]
    return "".join(rng.choice(alphabet) for _ in range(n))


def hand_cases():
    long1 = "".join(AA[(i * 7) % 20] for i in range(150))
    return [
        [{"records": [("t1", ""), ("t2", "ACDEFGK")]}],
        [{"records": [("t1", "ACDEFGK"), ("t2", "")], "trailing_newline": False}],
        [{"records": [("t1", "ACDEFGK"), ("t2", ""), ("t3", "MNPQSTK")]}],
        [{"records": [("t1", "ACDEFGHILMNPQSTVWY")]}],                                   # no cleavage site
        [{"records": [("t1", "KKKK"), ("t2", "RKRK"), ("t3", "K"), ("t4", "A")]}],
        [{"records": [("sp|P1|ONE_TEST some description OS=x", "MACDEFGKPLMNQRSTVWYK"), ("t2 x", "ACDEK")]}],
        [{"records": [("t1", long1)], "width": 60}],                                      # multi-line input, > 70
        [{"records": [("t1", long1[:70]), ("t2", long1[:71]), ("t3", long1[:140]), ("t4", long1[:141])], "width": 7}],
        [{"records": [("t1", "ACDEFGKLMNPQR")]}, {"records": [("u1", "STVWYKACDEFGHK")], "trailing_newline": False},
         {"records": [("v1", ""), ("v2", "LMNPK")]}],                                     # several files
        [{"records": [("t1", "ACDEFGKLMNPQR")], "trailing_newline": False},
         {"records": [("u1", "STVWYKACDEFGHK")], "trailing_newline": False}],
        [{"records": [("t1", "ACDEFGHILMNPQSTVWY" * 5 + "K" + "ACDEFGHILMNPQSTVWY" * 4)], "width": 80}],
    ]


def random_cases(seed, n):
    rng = random.Random(seed)
    out = []
    for c in range(n):
        files = []
        k = 0
        for _ in range(rng.choice([1, 1, 2, 3])):
            recs = []
            for _ in range(rng.randint(1, 5)):
                kind = rng.choice(["full", "full", "rich", "rich", "nosite", "konly", "ragged"])
                header = "p%d_%d" % (c, k) + rng.choice(["", "", " descr text", " OS=Homo sapiens GN=X"])
                recs.append((header, _rand_seq(rng, kind)))
                k += 1
            files.append({"records": recs, "width": rng.choice([None, None, 60, 70, 80, 13]),
                          "trailing_newline": rng.random() < 0.7})
        out.append(files)
    return out


def check_files(tier, seed):
    n_random = 40 if tier == "quick" else 400
    seeds = [seed, seed + 1] if tier == "quick" else [seed, seed + 1, seed + 2, seed + 3]
    cases = hand_cases()
    n_hand = len(cases)
    cases += random_cases(seed, n_random)
    ck = Check("make_decoys_files", "mokapot.parsers.fasta.make_decoys, _shuffle_proteins, _parse_fasta_files, "
               "_parse_protein",
               "%d hand-made + %d random (seed %d) FASTA inputs of 1-3 files x 1-5 records (sequence lengths 0..211 "
               "incl. 0, 69-72, 139-141; no-site, all-K, K/R-rich and 20-letter alphabets; input line widths "
               "none/7/13/60/70/80; with/without trailing newline; headers with descriptions) x enzymes %s x "
               "(reverse=True | reverse=False under np.random.seed in %s) x concatenate in {T,F} x prefix in "
               "{decoy_, rev_}" % (n_hand, n_random, seed, ENZYMES, seeds),
               "per target: decoy named prefix+name, same length, same multiset, peptide termini fixed, identical "
               "cleavage positions for [KR] and K, interiors reversed when reverse=True; targets first and unchanged "
               "when concatenating; the written file re-read by the real reader == independent reader == expected "
               "records; non-trivial = some target peptide has an interior with >= 2 different residues")
    with scratch("c18_") as d:
        for ci, files in enumerate(cases):
            for enzyme in ENZYMES:
                for reverse, np_seed in [(True, seeds[0])] + [(False, s) for s in seeds]:
                    for concatenate in (True, False):
                        prefix = "decoy_" if (ci + concatenate) % 2 == 0 else "rev_"
                        targets, problems = run_case(files, enzyme, reverse, concatenate, prefix, np_seed, d)
                        ck.case((ci, enzyme, reverse, np_seed, concatenate),
                                nontrivial=any(shufflable(s, enzyme) for _, s in targets))
                        for case, what in problems:
                            ck.violation(case, what, {"files": files, "enzyme": enzyme, "reverse": reverse,
                                                      "concatenate": concatenate, "prefix": prefix,
                                                      "np_seed": np_seed})
    return ck


def check_exhaustive(tier, seed):
    max_len = 6 if tier == "quick" else 7
    alphabet = "KRPAC"
    seqs = [""] + ["".join(t) for n in range(1, max_len + 1) for t in itertools.product(alphabet, repeat=n)]
    records = [("x%d" % i, s) for i, s in enumerate(seqs)]
    seeds = [seed, seed + 1]
    ck = Check("make_decoys_exhaustive", "mokapot.parsers.fasta.make_decoys, _shuffle_proteins",
               "exhaustive: ONE FASTA file holding all %d sequences of length 0..%d over {%s} x enzymes %s x "
               "(reverse=True | reverse=False under np.random.seed in %s) x concatenate in {T,F}"
               % (len(seqs), max_len, ",".join(alphabet), ENZYMES, seeds),
               "same per-target oracle as make_decoys_files, evaluated for every record of the file; a case is one "
               "(sequence, enzyme, reverse, np seed, concatenate); non-trivial = some peptide of the sequence has an "
               "interior with >= 2 different residues")
    files = [{"records": records}]
    with scratch("c18_") as d:
        for enzyme in ENZYMES:
            nt = {s: shufflable(s, enzyme) for s in seqs}
            for reverse, np_seed in [(True, seeds[0])] + [(False, s) for s in seeds]:
                for concatenate in (True, False):
                    targets, problems = run_case(files, enzyme, reverse, concatenate, "decoy_", np_seed, d)
                    for s in seqs:
                        ck.case((s, enzyme, reverse, np_seed, concatenate), nontrivial=nt[s])
                    for case, what in problems:
                        ck.violation(case, what, {"exhaustive_max_len": max_len, "alphabet": alphabet,
                                                  "enzyme": enzyme, "reverse": reverse, "concatenate": concatenate,
                                                  "prefix": "decoy_", "np_seed": np_seed})
    return ck


def REPLAY(check_name, violation):
    inp = violation["input"]
    if isinstance(inp, str):
        inp = json.loads(inp)
    if "files" in inp:
        files = [{"records": [tuple(r) for r in f["records"]], "width": f.get("width"),
                  "trailing_newline": f.get("trailing_newline", True)} for f in inp["files"]]
    else:
        seqs = [""] + ["".join(t) for n in range(1, inp["exhaustive_max_len"] + 1)
                       for t in itertools.product(inp["alphabet"], repeat=n)]
        files = [{"records": [("x%d" % i, s) for i, s in enumerate(seqs)]}]
    _, problems = run_case(files, inp["enzyme"], inp["reverse"], inp["concatenate"], inp["prefix"], inp["np_seed"])
    return {"violated": bool(problems), "detail": problems[:3]}


if __name__ == "__main__":
    a = args()
    np.random.seed(a.seed)
    emit([check_files(a.tier, a.seed), check_exhaustive(a.tier, a.seed)],
         ["a record's name is the first blank-delimited token of its header; descriptions are not expected to survive",
          "record names are unique and sequences consist of residue letters only (no blanks, '*' or '-')",
          "every input file starts with '>' and holds at least one record",
          "in shuffle mode only what the statement promises is checked (termini, composition, sites), not that the "
          "decoy differs from the target"])
