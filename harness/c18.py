"""C18 bounded stand-in: mokapot.parsers.fasta.make_decoys (+ _shuffle_proteins) and re-reading its output.

Oracle, from the statement: for every target (name, sequence) of the input FASTA files the output holds a record
named prefix+name whose sequence has the same length and residue multiset, in which the first and last residue of
every enzymatic peptide of the TARGET (pieces between consecutive cleavage positions {0, match ends, len}) are
unchanged, whose cleavage positions are the same for residue-class enzymes ("[KR]", "K"), and whose peptide interiors
are exactly reversed with reverse=True; with concatenate=True the target records come first, unchanged; the real
reader (_parse_fasta_files + _parse_protein) and an independent reader recover exactly these records.
"A name" is the first blank-delimited token of a header line.
"""
import itertools
import json
import logging
import random
import re
import warnings
from collections import Counter

import numpy as np

from harness.common import Check, args, emit
from harness.datasets import scratch

logging.disable(logging.CRITICAL)
warnings.filterwarnings("ignore")

ENZYMES = ["[KR]", "K", "[KR](?!P)"]
RESIDUE_CLASS = {"[KR]", "K"}
AA = "ACDEFGHIKLMNPQRSTVWY"


# ------------------------------------------------------------------ independent helpers
def write_fasta(path, records, width=None, trailing_newline=True):
    """records: (header, sequence). width None = one line per sequence."""
    lines = []
    for header, seq in records:
        lines.append(">" + header)
        if width is None:
            if seq:
                lines.append(seq)
        else:
            lines.extend(seq[i:i + width] for i in range(0, len(seq), width))
    text = "\n".join(lines) + ("\n" if trailing_newline else "")
    with open(path, "w") as f:
        f.write(text)
    return text


def read_fasta_text(text):
    """independent reader: header lines start with '>', everything else is sequence"""
    recs = []
    for line in text.split("\n"):
        line = line.rstrip("\r")
        if line.startswith(">"):
            recs.append([line[1:].split(" ")[0], ""])
        elif line.strip():
            if not recs:
                recs.append(["<no header>", ""])
            recs[-1][1] += line.strip()
    return [tuple(r) for r in recs]


def pieces(seq, enzyme):
    cuts = sorted({0, len(seq)} | {m.end() for m in re.finditer(enzyme, seq)})
    return cuts, [(a, b) for a, b in zip(cuts, cuts[1:])]


def shufflable(seq, enzyme):
    """the decoy may differ from the target: some enzymatic peptide has an interior with two different residues"""
    return any(len(set(seq[a + 1:b - 1])) >= 2 for a, b in pieces(seq, enzyme)[1])


def decoy_problems(target, decoy, enzyme, reverse):
    """list of (case, what) for one target/decoy sequence pair"""
    out = []
    if len(decoy) != len(target):
        return [("decoy-length-differs", "target %r (%d) decoy %r (%d)" % (target, len(target), decoy, len(decoy)))]
    if Counter(decoy) != Counter(target):
        out.append(("decoy-composition-differs", "target %r decoy %r" % (target, decoy)))
    cuts, pcs = pieces(target, enzyme)
    for a, b in pcs:
        if decoy[a] != target[a] or decoy[b - 1] != target[b - 1]:
            out.append(("peptide-terminus-moved", "peptide [%d,%d) %r became %r" % (a, b, target[a:b], decoy[a:b])))
            break
    if enzyme in RESIDUE_CLASS and pieces(decoy, enzyme)[0] != cuts:
        out.append(("cleavage-sites-differ", "target %r sites %s, decoy %r sites %s"
                    % (target, cuts, decoy, pieces(decoy, enzyme)[0])))
    if reverse:
        for a, b in pcs:
            if b - a >= 2 and decoy[a + 1:b - 1] != target[a + 1:b - 1][::-1]:
                out.append(("interior-not-reversed", "peptide [%d,%d) %r became %r"
                            % (a, b, target[a:b], decoy[a:b])))
                break
    return out


def run_case(files, enzyme, reverse, concatenate, prefix, np_seed, d=None):
    """files: list of dicts {records: [(header, seq)], width, trailing_newline}. Returns (targets, problems) where
    problems is a list of (case, what)."""
    from mokapot.parsers.fasta import make_decoys, _parse_fasta_files, _parse_protein
    if d is None:
        with scratch("c18_") as dd:
            return run_case(files, enzyme, reverse, concatenate, prefix, np_seed, dd)
    paths = []
    targets = []
    for i, f in enumerate(files):
        p = str(d / ("in%d.fasta" % i))
        write_fasta(p, f["records"], f.get("width"), f.get("trailing_newline", True))
        paths.append(p)
        targets.extend((h.split(" ")[0], s) for h, s in f["records"])
    out = str(d / "out.fasta")
    if np_seed is not None:
        np.random.seed(np_seed)
    arg = paths[0] if len(paths) == 1 else paths
    _CALLS[0] += 1
    try:
        ret = make_decoys(arg, out, decoy_prefix=prefix, enzyme=enzyme, reverse=reverse, concatenate=concatenate)
    except Exception as e:         # the statement promises an output file for any FASTA input
        return targets, [("raised-" + type(e).__name__, "make_decoys raised %s: %s" % (type(e).__name__, e))]
    problems = []
    if str(ret) != out:
        problems.append(("return-value", "make_decoys returned %r" % (ret,)))
    with open(out) as fh:
        text = fh.read()
    mine = read_fasta_text(text)
    real = [tuple(_parse_protein(e)) for e in _parse_fasta_files(out)]
    if real != mine:
        problems.append(("reread-mismatch", "real reader %s, independent reader %s" % (_diff(real, mine))))
    n = len(targets)
    want = 2 * n if concatenate else n
    if len(mine) != want:
        expected_names = {nm for nm, _ in targets} | {prefix + nm for nm, _ in targets}
        stray = [nm for nm, _ in mine if nm not in expected_names]
        problems.append(("records-of-no-target" if stray else "record-count",
                         "%d records written, %d expected; names that belong to no target: %s"
                         % (len(mine), want, stray[:4])))
        return targets, problems
    if concatenate:
        if mine[:n] != targets:
            problems.append(("targets-not-reproduced", "first records %s, targets %s" % _diff(mine[:n], targets)))
        decoys = mine[n:]
    else:
        decoys = mine
    by_name = {}
    for name, seq in decoys:
        by_name.setdefault(name, []).append(seq)
    for name, seq in targets:
        got = by_name.get(prefix + name)
        if not got or len(got) != 1:
            problems.append(("decoy-name", "no single decoy named %r (decoy names %s)"
                             % (prefix + name, sorted(by_name)[:6])))
            continue
        problems.extend(decoy_problems(seq, got[0], enzyme, reverse))
    return targets, problems


def _diff(a, b):
    for x, y in itertools.zip_longest(a, b):
        if x != y:
            return (x, y)
    return (None, None)


# ------------------------------------------------------------------ case generation
def _rand_seq(rng, kind):
    n = rng.choice([0, 1, 2, 3, 4, 5, 6, 8, 12, 20, 35, 69, 70, 71, 72, 100, 139, 140, 141, 211])
    alphabet = {"full": AA, "rich": "KRPAC", "nosite": "ACDEFGHILMNPQSTVWY", "konly": "K", "ragged": "AKRP"}[kind]
    return "".join(rng.choice(alphabet) for _ in range(n))


def hand_cases():
    long1 = "".join(AA[(i * 7) % 20] for i in range(150))
    return [
        [{"records": [("t1", ""), ("t2", "ACDEFGK")]}],
        [{"records": [("t1", "ACDEFGK"), ("t2", "")], "trailing_newline": False}],
        [{"records": [("t1", "ACDEFGK"), ("t2", ""), ("t3", "MNPQSTK")]}],
        [{"records": [("t1", "ACDEFGHILMNPQSTVWY")]}],                                   # no cleavage site
        [{"records": [("t1", "KKKK"), ("t2", "RKRK"), ("t3", "K"), ("t4", "A")]}],
        [{"records": [("sp|P1|ONE_TEST some description OS=x", "MACDEFGKPLMNQRSTVWYK"), ("t2 x", "ACDEK")]}],
        [{"records": [("t1", long1)], "width": 60}],                                      # multi-line input, > 70
        [{"records": [("t1", long1[:70]), ("t2", long1[:71]), ("t3", long1[:140]), ("t4", long1[:141])], "width": 7}],
        [{"records": [("t1", "ACDEFGKLMNPQR")]}, {"records": [("u1", "STVWYKACDEFGHK")], "trailing_newline": False},
         {"records": [("v1", ""), ("v2", "LMNPK")]}],                                     # several files
        [{"records": [("t1", "ACDEFGKLMNPQR")], "trailing_newline": False},
         {"records": [("u1", "STVWYKACDEFGHK")], "trailing_newline": False}],
        [{"records": [("t1", "ACDEFGHILMNPQSTVWY" * 5 + "K" + "ACDEFGHILMNPQSTVWY" * 4)], "width": 80}],
    ] + header_text_cases()


# header texts: a record starts at a '>' that is the FIRST character of a line and nowhere else; the name ends at the
# first blank, the rest of the line is free text
DESCRIPTIONS = [
    "Isomerase (S)->(R) converting enzyme",
    ">",
    "a>b",
    ">leading mark",
    "trailing mark>",
    ">> two >> marks >",
    "x >y >z K>R",
    "OS=Homo sapiens OX=9606 GN=ALB PE=1 SV=2",
    "[Fragment] {ECO:0000255|HAMAP-Rule:MF_00001}",
    "50% identical; 3'-5' exonuclease #2 \\ \"quoted\" * + ? $ ^ & ~ `",
    "tab\tinside, comma",
    " two  blanks and one at the end ",
    "ACDEFGK MNPQR",
]
NAME_TAILS = ["|P00001|CONV_HUMAN", "->b", ">c", ";1", "=1", "#1", "(n)", ":1", "/1", "\\1", "'1", ",1", ".1", "[1]"]


def header_text_cases():
    seq = ["MACDEFGKPLMNQRSTVWYK", "ACDEFGKLMNPQR", "STVWYKACDEFGHK", "LMNPK", "", "KRKACDEFGHILMNPQSTVWYR"]
    out = []
    # one file per description: the marked record first / in the middle / last, with and without a final newline
    for i, descr in enumerate(DESCRIPTIONS):
        marked = ("sp|P%05d|CONV_HUMAN %s" % (i, descr), seq[i % 4])
        plain = [("t%d" % k, seq[(i + k) % len(seq)]) for k in range(2)]
        pos = i % 3
        recs = plain[:pos] + [marked] + plain[pos:]
        out.append([{"records": recs, "trailing_newline": i % 2 == 0, "width": [None, 7, 60][i % 3]}])
    # every record of every file carries a description with '>'; several files, the last record of a file marked, empty
    # sequences next to marked headers, files with/without a final newline
    for tn in ([True, True, True], [False, False, False], [True, False, True], [False, True, False]):
        files = []
        for f in range(3):
            recs = [("f%d_%d%s %s" % (f, k, NAME_TAILS[(3 * f + k) % len(NAME_TAILS)] if k else "",
                                       DESCRIPTIONS[(f + 2 * k) % 7]), seq[(f + k) % len(seq)]) for k in range(3)]
            files.append({"records": recs, "trailing_newline": tn[f], "width": [None, 5, None][f]})
        out.append(files)
    # names with punctuation (a '>' inside a name is not at the beginning of a line either)
    out.append([{"records": [("n%d%s" % (k, t), seq[k % 4]) for k, t in enumerate(NAME_TAILS)]}])
    out.append([{"records": [("n%d%s %s" % (k, t, DESCRIPTIONS[k % len(DESCRIPTIONS)]), seq[k % 4])
                             for k, t in enumerate(NAME_TAILS)], "trailing_newline": False, "width": 10}])
    return out


def random_cases(seed, n):
    rng = random.Random(seed)
    hrng = random.Random(seed * 7919 + 18)      # header texts are drawn from a stream of their own
    out = []
    for c in range(n):
        files = []
        k = 0
        for _ in range(rng.choice([1, 1, 2, 3])):
            recs = []
            for _ in range(rng.randint(1, 5)):
                kind = rng.choice(["full", "full", "rich", "rich", "nosite", "konly", "ragged"])
                header = "p%d_%d" % (c, k) + rng.choice(["", "", " descr text", " OS=Homo sapiens GN=X"])
                u = hrng.random()
                if u < 0.3:
                    header = header.split(" ")[0] + " " + hrng.choice(DESCRIPTIONS)
                elif u < 0.4:
                    header = header.split(" ")[0] + hrng.choice(NAME_TAILS) + " " + hrng.choice(DESCRIPTIONS)
                elif u < 0.45:
                    header = header.split(" ")[0] + hrng.choice(NAME_TAILS)
                recs.append((header, _rand_seq(rng, kind)))
                k += 1
            files.append({"records": recs, "width": rng.choice([None, None, 60, 70, 80, 13]),
                          "trailing_newline": rng.random() < 0.7})
        out.append(files)
    return out


def check_files(tier, seed):
    n_random = 40 if tier == "quick" else 400
    seeds = [seed, seed + 1] if tier == "quick" else [seed, seed + 1, seed + 2, seed + 3]
    cases = hand_cases()
    n_hand = len(cases)
    cases += random_cases(seed, n_random)
    ck = Check("make_decoys_files", "mokapot.parsers.fasta.make_decoys, _shuffle_proteins, _parse_fasta_files, "
               "_parse_protein",
               "%d hand-made + %d random (seed %d) FASTA inputs of 1-3 files x 1-5 records (sequence lengths 0..211 "
               "incl. 0, 69-72, 139-141; no-site, all-K, K/R-rich and 20-letter alphabets; input line widths "
               "none/5/7/10/13/60/70/80; with/without trailing newline; headers without / with descriptions, the "
               "descriptions (and some names) holding '>' - also doubled, first or last in the description - and other "
               "punctuation, tabs, repeated blanks) x enzymes %s x "
               "(reverse=True | reverse=False under np.random.seed in %s) x concatenate in {T,F} x prefix in "
               "{decoy_, rev_}" % (n_hand, n_random, seed, ENZYMES, seeds),
               "per target: decoy named prefix+name, same length, same multiset, peptide termini fixed, identical "
               "cleavage positions for [KR] and K, interiors reversed when reverse=True; targets first and unchanged "
               "when concatenating; the written file re-read by the real reader == independent reader == expected "
               "records; non-trivial = some target peptide has an interior with >= 2 different residues")
    with scratch("c18_") as d:
        for ci, files in enumerate(cases):
            for enzyme in ENZYMES:
                for reverse, np_seed in [(True, seeds[0])] + [(False, s) for s in seeds]:
                    for concatenate in (True, False):
                        prefix = "decoy_" if (ci + concatenate) % 2 == 0 else "rev_"
                        targets, problems = run_case(files, enzyme, reverse, concatenate, prefix, np_seed, d)
                        ck.case((ci, enzyme, reverse, np_seed, concatenate),
                                nontrivial=any(shufflable(s, enzyme) for _, s in targets))
                        for case, what in problems:
                            ck.violation(case, what, {"files": files, "enzyme": enzyme, "reverse": reverse,
                                                      "concatenate": concatenate, "prefix": prefix,
                                                      "np_seed": np_seed})
    return ck


def check_exhaustive(tier, seed):
    max_len = 6 if tier == "quick" else 7
    alphabet = "KRPAC"
    seqs = [""] + ["".join(t) for n in range(1, max_len + 1) for t in itertools.product(alphabet, repeat=n)]
    records = [("x%d" % i, s) for i, s in enumerate(seqs)]
    seeds = [seed, seed + 1]
    ck = Check("make_decoys_exhaustive", "mokapot.parsers.fasta.make_decoys, _shuffle_proteins",
               "exhaustive: ONE FASTA file holding all %d sequences of length 0..%d over {%s} x enzymes %s x "
               "(reverse=True | reverse=False under np.random.seed in %s) x concatenate in {T,F}"
               % (len(seqs), max_len, ",".join(alphabet), ENZYMES, seeds),
               "same per-target oracle as make_decoys_files, evaluated for every record of the file; a case is one "
               "(sequence, enzyme, reverse, np seed, concatenate); non-trivial = some peptide of the sequence has an "
               "interior with >= 2 different residues")
    files = [{"records": records}]
    with scratch("c18_") as d:
        for enzyme in ENZYMES:
            nt = {s: shufflable(s, enzyme) for s in seqs}
            for reverse, np_seed in [(True, seeds[0])] + [(False, s) for s in seeds]:
                for concatenate in (True, False):
                    targets, problems = run_case(files, enzyme, reverse, concatenate, "decoy_", np_seed, d)
                    for s in seqs:
                        ck.case((s, enzyme, reverse, np_seed, concatenate), nontrivial=nt[s])
                    for case, what in problems:
                        ck.violation(case, what, {"exhaustive_max_len": max_len, "alphabet": alphabet,
                                                  "enzyme": enzyme, "reverse": reverse, "concatenate": concatenate,
                                                  "prefix": "decoy_", "np_seed": np_seed})
    return ck


# ------------------------------------------------------------------ histories of calls in one process
HISTORY_MODES = ["same", "different", "overlap"]


def history_specs(seed, per_pattern):
    """every order of reverse=True/False over 2 and 3 calls, `per_pattern` variants each (inputs, enzymes, reseeding)"""
    rng = random.Random(seed * 104729 + 18)
    specs = []
    patterns = [list(t) for n in (2, 3) for t in itertools.product([False, True], repeat=n)]
    for v in range(per_pattern):
        for flags in patterns:
            n = len(flags)
            same_enzyme = rng.random() < 0.6
            e0 = rng.choice(ENZYMES)
            specs.append({"hseed": rng.randrange(10 ** 6), "flags": flags,
                          "mode": HISTORY_MODES[(v + len(specs)) % 3],
                          "enzymes": [e0 if same_enzyme else rng.choice(ENZYMES) for _ in range(n)],
                          "concat": [rng.random() < 0.5 for _ in range(n)],
                          "prefix": [rng.choice(["decoy_", "rev_"]) for _ in range(n)],
                          "np_seed": seed + v, "reseed": [rng.random() < 0.5 for _ in range(n)]})
    return specs


def history_inputs(spec):
    """the FASTA inputs of the calls of one history: 'same' = every call reads the same files, 'different' = every
    call reads files of its own, 'overlap' = files of its own plus one file shared by all calls"""
    rng = random.Random(spec["hseed"])

    def file_set(tag):
        files = []
        k = 0
        for _ in range(rng.choice([1, 1, 2])):
            recs = []
            for _ in range(rng.randint(1, 3)):
                alphabet = rng.choice([AA, AA, AA, "KRPAC" + AA, "AKRP"])
                seq = "".join(rng.choice(alphabet) for _ in range(rng.choice([12, 20, 35, 50, 71, 100, 141])))
                recs.append(("%s_%d%s" % (tag, k, rng.choice(["", " descr text", " (S)->(R) >x"])), seq))
                k += 1
            files.append({"records": recs, "width": rng.choice([None, 60, 13]),
                          "trailing_newline": rng.random() < 0.7})
        return files

    n = len(spec["flags"])
    shared = file_set("s")
    if spec["mode"] == "same":
        return [shared] * n
    own = [file_set("c%d" % k) for k in range(n)]
    if spec["mode"] == "different":
        return own
    return [own[k] + shared[:1] if k % 2 == 0 else shared[:1] + own[k] for k in range(n)]


def _interior_lengths(files, enzyme):
    """interior lengths of the peptides that a permutation can change (>= 2 different residues inside)"""
    return {b - a - 2 for f in files for _, s in f["records"] for a, b in pieces(s, enzyme)[1]
            if len(set(s[a + 1:b - 1])) >= 2}


def run_history(spec):
    """runs the calls of one history one after the other IN THIS PROCESS and checks every output completely.
    Returns one (nontrivial, problems) per call. spec['only'] = k runs call k alone (same input, same arguments)."""
    inputs = history_inputs(spec)
    only = spec.get("only")
    res = []
    seen = set()
    with scratch("c18h_") as d:
        for k, reverse in enumerate(spec["flags"]):
            if only is not None and k != only:
                continue
            sub = d / ("call%d" % k)
            sub.mkdir()
            first = k == 0 or only is not None
            np_seed = spec["np_seed"] + k if (first or spec["reseed"][k]) else None
            _, problems = run_case(inputs[k], spec["enzymes"][k], reverse, spec["concat"][k], spec["prefix"][k],
                                   np_seed, sub)
            lens = _interior_lengths(inputs[k], spec["enzymes"][k])
            res.append((k > 0 and bool(lens & seen), problems))
            seen |= lens
    return res


_CALLS = [0]       # make_decoys calls made by THIS process (run_case counts them)


def _fresh_processes(specs):
    """run_history(spec) for every spec, each in a process of its own whose interpreter has imported mokapot and has
    not called it: forked from this process while it is still in that state, otherwise from a newly started one"""
    import multiprocessing as mp
    if not specs:
        return []
    if _CALLS[0]:
        import os
        import subprocess
        import sys
        code = ("import json, sys; import harness.c18 as m; "
                "print('C18HISTORY' + json.dumps(m._fresh_processes(json.load(sys.stdin))))")
        env = dict(os.environ, PYTHONPATH=os.pathsep.join(x for x in sys.path if x))
        r = subprocess.run([sys.executable, "-c", code], input=json.dumps(specs), capture_output=True, text=True,
                           env=env, check=True)
        line = [x for x in r.stdout.splitlines() if x.startswith("C18HISTORY")][-1]
        return [[(nt, [tuple(p) for p in ps]) for nt, ps in res] for res in json.loads(line[len("C18HISTORY"):])]
    import mokapot.parsers.fasta  # noqa: F401  (imported before forking, so that the children need not)
    with mp.get_context("fork").Pool(min(12, len(specs)), maxtasksperchild=1) as pool:
        return pool.map(run_history, specs, chunksize=1)


def check_history(tier, seed):
    specs = history_specs(seed, 4 if tier == "quick" else 20)
    ck = Check("make_decoys_call_history", "mokapot.parsers.fasta.make_decoys, _shuffle_proteins",
               "%d histories (seed %d): every order of reverse=True/False over 2 and 3 consecutive make_decoys calls "
               "x %d variants; each history runs in a process of its own that has imported mokapot and never called it "
               "(forked from the harness process before its first make_decoys call, otherwise from a newly started "
               "interpreter), without restart between the calls of the history; "
               "the calls read the same files / files of their own / files of their own plus a shared file (1-3 files "
               "x 1-3 proteins of 12..141 residues, peptide interior lengths shared between the calls), enzymes %s "
               "equal or changing between the calls, concatenate and prefix drawn per call, numpy generator seeded "
               "before the first call and before a later call or left in the state the earlier call left it"
               % (len(specs), seed, len(specs) // 12, ENZYMES),
               "the complete per-call oracle of make_decoys_files (names, target records, length, multiset, termini, "
               "sites, reversed interiors, re-reading) is applied to the output of EVERY call of the history; a case is "
               "one (history, call); non-trivial = a second or third call that has a peptide whose interior holds >= 2 "
               "different residues and is as long as such an interior of an earlier call of the history; a failing "
               "later call is run once more alone in such a fresh process: ids 'after-earlier-calls:<id>' = correct "
               "alone, wrong after the earlier calls")
    results = _fresh_processes(specs)
    failing = []
    for hi, (spec, res) in enumerate(zip(specs, results)):
        for k, (nontrivial, problems) in enumerate(res):
            ck.case((hi, k, spec["hseed"], tuple(spec["flags"])), nontrivial=nontrivial)
            if problems and len(failing) < 8:
                failing.append((spec, k, problems))
    alone = _fresh_processes([dict(spec, only=k) for spec, k, _ in failing if k > 0])
    alone = iter(alone)
    for spec, k, problems in failing:
        solo = {c for c, _ in next(alone)[0][1]} if k > 0 else None
        for case, what in problems:
            cid = case if solo is None or case in solo else "after-earlier-calls:" + case
            ck.violation(cid, "call %d of a history with reverse=%s: %s" % (k + 1, spec["flags"], what),
                         {"history": spec, "call": k})
    return ck


def REPLAY(check_name, violation):
    inp = violation["input"]
    if isinstance(inp, str):
        inp = json.loads(inp)
    if "history" in inp:
        res = _fresh_processes([inp["history"]])[0]
        problems = [p for _, ps in res for p in ps]
        return {"violated": bool(problems), "detail": problems[:3]}
    if "files" in inp:
        files = [{"records": [tuple(r) for r in f["records"]], "width": f.get("width"),
                  "trailing_newline": f.get("trailing_newline", True)} for f in inp["files"]]
    else:
        seqs = [""] + ["".join(t) for n in range(1, inp["exhaustive_max_len"] + 1)
                       for t in itertools.product(inp["alphabet"], repeat=n)]
        files = [{"records": [("x%d" % i, s) for i, s in enumerate(seqs)]}]
    _, problems = run_case(files, inp["enzyme"], inp["reverse"], inp["concatenate"], inp["prefix"], inp["np_seed"])
    return {"violated": bool(problems), "detail": problems[:3]}


if __name__ == "__main__":
    a = args()
    np.random.seed(a.seed)
    history = check_history(a.tier, a.seed)       # first: its processes are forked from this one while it is unused
    emit([check_files(a.tier, a.seed), check_exhaustive(a.tier, a.seed), history],
         ["a record's name is the first blank-delimited token of its header; descriptions are not expected to survive",
          "record names are unique and sequences consist of residue letters only (no blanks, '*' or '-')",
          "every input file starts with '>' and holds at least one record",
          "in shuffle mode only what the statement promises is checked (termini, composition, sites), not that the "
          "decoy differs from the target",
          "a '>' that is not the first character of a line belongs to the header text (description or name) it stands in",
          "a history of calls = consecutive make_decoys calls of one interpreter that has imported mokapot and done "
          "nothing else with it; the calls of make_decoys_files / make_decoys_exhaustive all run in the harness "
          "process itself (there every (input, enzyme) is run with reverse=True first, then shuffled)"])
