"""C14 bounded stand-in: k-way merge returns every row once, unmodified, globally sorted by score.

Both merge implementations are run on the real code: mokapot.utils.merge_sort (row dictionaries, text and
Parquet files, MERGE_SORT_CHUNK_SIZE patched in mokapot.utils) and mokapot.streaming.MergedTabularDataReader
(descending and ascending, through get_row_iterator / get_chunked_data_iterator / read / merge_readers).
The oracle does not merge anything: every input row carries a unique id, and the output is checked for
(1) every id exactly once, (2) every output row equal to the input row of its id, (3) scores monotone in the
declared direction.  Rejection clause: an input that is not sorted as declared must end in ValueError.
Near-tie check: the same oracle on ladders of nearly equal scores (1 ulp .. 2**-20 relative apart, tiny / huge /
negative / around zero): the order is the exact order of the floats, no tolerance.
Missing-value check: inputs whose payload columns hold nulls / empty cells and integers above 2**53: cells compared
by value AND type with the written rows (merge_sort from Parquet), by exact value for rows delivered through pandas.
"""
import itertools
import json
import logging
import math
import random
import warnings
from pathlib import Path

import numpy as np
import pandas as pd
import pyarrow as pa
import pyarrow.parquet as pq

from harness.common import Check, args, emit
from harness.datasets import scratch

warnings.filterwarnings("ignore")
logging.disable(logging.CRITICAL)

VALS = (2.5, 0.5, -1.0)            # the three score values, best first; a sequence is a tuple of indices into VALS
ROW_COLS = ["id", "score", "k", "t"]


# ------------------------------------------------------------------------------------------------ domain
def sorted_seqs(max_len, min_len=1):
    """all non-increasing score sequences (= non-decreasing index tuples) of length min_len..max_len"""
    out = []
    for ln in range(min_len, max_len + 1):
        out.extend(itertools.combinations_with_replacement(range(len(VALS)), ln))
    return out


def unsorted_seqs(max_len):
    """all sequences over the three values, length 2..max_len, that are NOT non-increasing in score"""
    out = []
    for ln in range(2, max_len + 1):
        for s in itertools.product(range(len(VALS)), repeat=ln):
            if any(s[j] > s[j + 1] for j in range(ln - 1)):
                out.append(s)
    return out


def rows_for(slot, seq, ascending=False, vals=None):
    """The rows of input number `slot` holding the score sequence seq (reversed for ascending mode); seq indexes
    into vals (best first; default: the three values VALS)."""
    vals = VALS if vals is None else vals
    idx = list(reversed(seq)) if ascending else list(seq)
    return [{"id": "s%dr%d" % (slot, j), "score": vals[v], "k": slot * 100 + j, "t": j % 2 == 0}
            for j, v in enumerate(idx)]


def frame_for(slot, seq, ascending=False, vals=None):
    rows = rows_for(slot, seq, ascending, vals)
    return pd.DataFrame({c: [r[c] for r in rows] for c in ROW_COLS})


def seq_name(seq):
    return "".join(str(v) for v in seq)


def file_for(d, slot, seq, fmt, ascending=False):
    return Path(d) / ("%s%d_%s.%s" % ("a" if ascending else "s", slot, seq_name(seq), fmt))


def write_inputs(d, slots, seqs, ascending_slots=0, vals=None, formats=("csv", "parquet")):
    schema = pa.schema([("id", pa.string()), ("score", pa.float64()), ("k", pa.int64()), ("t", pa.bool_())])
    for asc in (False, True):
        for slot in range(ascending_slots if asc else slots):
            for seq in seqs:
                df = frame_for(slot, seq, asc, vals)
                if "csv" in formats:
                    df.to_csv(file_for(d, slot, seq, "csv", asc), sep="\t", index=False)
                if "parquet" in formats:
                    # row groups of 2 rows: Parquet batches have to be assembled across row groups
                    pq.write_table(pa.Table.from_pandas(df, preserve_index=False, schema=schema),
                                   file_for(d, slot, seq, "parquet", asc), row_group_size=2)


# ------------------------------------------------------------------------------------------------ oracle
def _kind(v):
    if isinstance(v, (bool, np.bool_)):
        return "b"
    if isinstance(v, (int, np.integer)):
        return "i"
    if isinstance(v, (float, np.floating)):
        return "f"
    if isinstance(v, str):
        return "s"
    return type(v).__name__


def _val_eq(got, exp):
    if _kind(got) != _kind(exp):
        return False
    if _kind(exp) == "f":
        return math.isclose(float(got), float(exp), rel_tol=1e-12, abs_tol=1e-12)
    return got == exp


def judge(out_rows, inputs, ascending, cols=None, exact_score=False, id_col="id", score_col="score"):
    """out_rows: list of dicts; inputs: list of lists of row dicts. -> None or (class, text)
    exact_score: the score of an output row must be the very float of its input row (binary inputs).
    id_col / score_col: the names of the column holding the unique row id / the score."""
    cols = list(ROW_COLS if cols is None else cols)
    by_id = {r[id_col]: r for rows in inputs for r in rows}
    total = len(by_id)
    seen = {}
    for pos, r in enumerate(out_rows):
        if not isinstance(r, dict) or list(r.keys()) != cols:
            return "row-shape", "output row %d is %r, expected the columns %s" % (pos, r, cols)
        rid = r.get(id_col)
        if rid not in by_id:
            return "row-modified", "output row %d has id %r which is no input row" % (pos, rid)
        if rid in seen:
            return "row-duplicated", "input row %s emitted at positions %d and %d" % (rid, seen[rid], pos)
        seen[rid] = pos
        for c in cols:
            if not _val_eq(r[c], by_id[rid][c]) or (exact_score and c == score_col
                                                     and float(r[c]) != float(by_id[rid][c])):
                return "row-modified", "row %s column %s: %r, input had %r" % (rid, c, r[c], by_id[rid][c])
    if len(seen) != total:
        missing = sorted(set(by_id) - set(seen))
        return "row-lost", "%d of %d input rows missing from the output: %s" % (len(missing), total, missing[:6])
    sc = [float(r[score_col]) for r in out_rows]
    for j in range(len(sc) - 1):
        if (sc[j] > sc[j + 1]) if ascending else (sc[j] < sc[j + 1]):
            return "not-sorted", "scores %s are not %s at position %d" % (
                sc, "non-decreasing" if ascending else "non-increasing", j)
    return None


def nontrivial(seqs):
    return len(seqs) >= 2 and len({v for s in seqs for v in s}) >= 2


# ------------------------------------------------------------------------------------------------ (a) merge_sort
def run_merge_sort(d, seqs, fmt, chunk, vals=None, exact_score=False):
    import mokapot.utils as mu
    paths = [file_for(d, slot, seq, fmt) for slot, seq in enumerate(seqs)]
    inputs = [rows_for(slot, seq, False, vals) for slot, seq in enumerate(seqs)]
    old = mu.MERGE_SORT_CHUNK_SIZE
    mu.MERGE_SORT_CHUNK_SIZE = chunk
    try:
        total = sum(len(r) for r in inputs)
        out = list(itertools.islice(mu.merge_sort(paths, "score"), total + 3))   # guard against endless output
    except Exception as e:                                            # noqa: BLE001
        return "raises-" + type(e).__name__, str(e)[:200]
    finally:
        mu.MERGE_SORT_CHUNK_SIZE = old
    return judge([dict(r) for r in out], inputs, ascending=False, exact_score=exact_score)


def _chunk_sizes(seqs):
    n = max(len(s) for s in seqs)
    return sorted({1, 2, n + 1})


def merge_sort_combos(tier, seed):
    """-> (all sequences, slots, [(j, tuple of sequences, all_chunk_sizes?)], description)"""
    rng = random.Random(seed)
    if tier == "quick":
        full = sorted_seqs(4)
        combos = list(itertools.product(full, repeat=2))
        combos += list(itertools.product(sorted_seqs(2), repeat=3))
        combos += list(itertools.product(sorted_seqs(1), repeat=4))
        combos += [tuple(rng.choice(full) for _ in range(3)) for _ in range(300)]
        combos += [tuple(rng.choice(full) for _ in range(4)) for _ in range(300)]
        desc = ("exhaustive: 1 and 2 files of 1..4 rows (34 and 1156 ordered tie structures), 3 files of 1..2 rows "
                "(729), 4 files of 1 row (81); random (random.Random(%d)): 300 triples and 300 quadruples of files "
                "of 1..4 rows" % seed)
        slots = 4
    else:
        full = sorted_seqs(6)
        combos = list(itertools.product(full, repeat=2))
        combos += list(itertools.product(sorted_seqs(3), repeat=3))
        combos += list(itertools.product(sorted_seqs(2), repeat=4))
        combos += list(itertools.product(sorted_seqs(1), repeat=6))
        for k in range(3, 9):
            combos += [tuple(rng.choice(full) for _ in range(k)) for _ in range(1500)]
        desc = ("exhaustive: 1 and 2 files of 1..6 rows (83 and 6889 ordered tie structures), 3 files of 1..3 rows "
                "(6859), 4 files of 1..2 rows (6561), 6 files of 1 row (729); random (random.Random(%d)): 1500 "
                "tuples each of 3..8 files of 1..6 rows" % seed)
        slots = 8
    items = [(j, (s,), True) for j, s in enumerate(full)]
    items += [(j, c, False) for j, c in enumerate(combos)]
    return full, slots, items, desc


def _merge_sort_task(task):
    d, items = task
    ev = _Events()
    for j, seqs, all_sizes in items:
        sizes = _chunk_sizes(seqs)
        for f, fmt in enumerate(("csv", "parquet")):
            for chunk in (sizes if all_sizes else [sizes[(j + f) % len(sizes)]]):
                ev.case(("merge_sort", fmt, chunk, seqs), nontrivial=nontrivial(seqs))
                bad = run_merge_sort(d, seqs, fmt, chunk)
                if bad:
                    ev.violation("merge_sort-%s-%s" % (fmt, bad[0]), bad[1],
                                 {"impl": "merge_sort", "format": fmt, "chunk": chunk,
                                  "seqs": [list(s) for s in seqs]})
    return ev.events


def check_merge_sort(tier, seed):
    full, slots, combos, desc = merge_sort_combos(tier, seed)
    ck = Check("merge_sort_rows_once_sorted", "mokapot.utils.merge_sort (get_next_row, csv_row_iterator, "
               "parquet_row_iterator)",
               desc + "; all score sequences non-increasing over the 3 values %s (every tie structure); each "
               "combination merged from tab-separated text and from Parquet (row groups of 2); "
               "MERGE_SORT_CHUNK_SIZE: all of {1, 2, longest input + 1} for single files (the chunk size only "
               "acts inside the per-file row iterators), rotating over these values with the combination number "
               "for 2 and more files" % (VALS,),
               "oracle: unique id per input row; output must contain every id exactly once, each row equal to its "
               "input row (id, score, int and bool payload), scores non-increasing; non-trivial = at least 2 "
               "files and at least 2 distinct score values; single files count as trivial")
    with scratch("c14a_") as d:
        write_inputs(d, slots, full)
        _run_tasks(ck, _merge_sort_task, [(str(d), part) for part in _split(combos, 56)])
    return ck


# ------------------------------------------------------------------------------------------------ (b) table merger
PATHS = ["rows-DataFrame", "rows-Dicts", "rows-Records", "chunked-1", "chunked-2", "chunked-all", "read",
         "merge_readers"]


def _row_to_dict(row):
    if isinstance(row, pd.DataFrame):
        if len(row) != 1:
            return {"__bad__": "row frame with %d rows" % len(row)}
        return {str(c): row[c].iloc[0] for c in row.columns}
    if isinstance(row, dict):
        return dict(row)
    if isinstance(row, np.record):
        return dict(zip(row.dtype.names, row.tolist()))
    return {"__bad__": repr(type(row))}


def _frame_to_dicts(df):
    cols = [str(c) for c in df.columns]
    lists = [df[c].tolist() for c in df.columns]
    return [dict(zip(cols, vals)) for vals in zip(*lists)] if len(cols) else []


def consume(readers, path, ascending, reader_chunk, cols, total, score_col="score"):
    """Run one access path of the real table merger to exhaustion -> list of row dicts."""
    from mokapot.streaming import MergedTabularDataReader, merge_readers
    from mokapot.tabular_data import TableType
    kw = {} if cols is None else {"columns": list(cols)}
    if path == "merge_readers":          # the function has no column argument
        it = merge_readers(readers, priority_column=score_col, descending=not ascending,
                           reader_chunk_size=reader_chunk)
        return [r for chunk in itertools.islice(it, total + 3) for r in _frame_to_dicts(chunk)]
    m = MergedTabularDataReader(readers, score_col, descending=not ascending, reader_chunk_size=reader_chunk)
    if path.startswith("rows-"):
        it = m.get_row_iterator(row_type=TableType[path[5:]], **kw)
        return [_row_to_dict(r) for r in itertools.islice(it, total + 3)]      # guard against endless output
    if path.startswith("chunked-"):
        size = total + 1 if path == "chunked-all" else int(path[8:])
        out = []
        for chunk in itertools.islice(m.get_chunked_data_iterator(size, **kw), total + 3):
            out.extend(_frame_to_dicts(chunk))
        return out
    return _frame_to_dicts(m.read(**kw))


def make_readers(d, seqs, ascending, kind, vals=None):
    from mokapot.tabular_data import DataFrameReader, CSVFileReader, ParquetFileReader
    readers = []
    for slot, seq in enumerate(seqs):
        k = kind
        if k == "frame":
            readers.append(DataFrameReader(frame_for(slot, seq, ascending, vals)))
        elif k == "csv":
            readers.append(CSVFileReader(file_for(d, slot, seq, "csv", ascending)))
        else:
            readers.append(ParquetFileReader(file_for(d, slot, seq, "parquet", ascending)))
    return readers


def run_table_merge(d, seqs, ascending, kind, path, reader_chunk, cols, vals=None, exact_score=False):
    inputs = [rows_for(slot, seq, ascending, vals) for slot, seq in enumerate(seqs)]
    total = sum(len(r) for r in inputs)
    try:
        readers = make_readers(d, seqs, ascending, kind, vals)
        out = consume(readers, path, ascending, reader_chunk, cols, total)
    except Exception as e:                                            # noqa: BLE001
        return "raises-" + type(e).__name__, str(e)[:200]
    want_cols = cols if (cols is not None and path != "merge_readers") else None
    return judge(out, inputs, ascending, want_cols, exact_score)


def table_merge_combos(tier, seed):
    """-> (all sequences, [(j, seqs, reader kind, number of access paths per direction)], description)"""
    rng = random.Random(seed + 1)
    if tier == "quick":
        full = sorted_seqs(4)
        pairs = list(itertools.product(full, repeat=2))
        short3 = list(itertools.product(sorted_seqs(2), repeat=3))
        rnd = [tuple(rng.choice(full) for _ in range(k)) for k in (3, 4) for _ in range(150)]
        files = [tuple(rng.choice(full) for _ in range(k)) for k in (1, 2, 3) for _ in range(40)]
        desc = ("in-memory frame readers: exhaustive 1 input of 1..4 rows (34, all 8 access paths), 2 inputs of 1..4 "
                "rows (1156 ordered tie structures, 2 access paths each), 3 inputs of 1..2 rows (729, 1 access "
                "path each); random (random.Random(%d)): 150 triples + 150 quadruples of inputs of 1..4 rows (2 "
                "access paths each). Text and Parquet readers: 120 random 1..3-input combinations (2 access paths "
                "each)" % (seed + 1))
    else:
        full = sorted_seqs(6)
        pairs = list(itertools.product(full, repeat=2))
        short3 = list(itertools.product(sorted_seqs(2), repeat=3)) + list(itertools.product(sorted_seqs(1), repeat=5))
        rnd = [tuple(rng.choice(full) for _ in range(k)) for k in range(3, 9) for _ in range(500)]
        files = [tuple(rng.choice(full) for _ in range(k)) for k in (1, 2, 3) for _ in range(400)]
        desc = ("in-memory frame readers: exhaustive 1 input of 1..6 rows (83, all 8 access paths), 2 inputs of 1..6 "
                "rows (6889, 2 access paths each), 3 inputs of 1..2 rows and 5 inputs of 1 row (1 access path "
                "each); random (random.Random(%d)): 500 tuples each of 3..8 inputs of 1..6 rows (2 access paths "
                "each). Text and Parquet readers: 1200 random 1..3-input combinations (2 access paths each)"
                % (seed + 1))
    items = [(j, (s,), "frame", 8) for j, s in enumerate(full)]
    items += [(j, c, "frame", 2) for j, c in enumerate(pairs)]
    items += [(j, c, "frame", 1) for j, c in enumerate(short3)]
    items += [(j, c, "frame", 2) for j, c in enumerate(rnd)]
    items += [(j, c, ("csv", "parquet")[j % 2], 2) for j, c in enumerate(files)]
    return full, items, desc


def _variants(j, seqs, n_paths):
    """The (access path, reader chunk size, requested columns) triples evaluated for combination number j:
    n_paths access paths starting at path number 3*j (so that consecutive combinations cover all 8 paths and all
    three row types), reader chunk size and column request rotating with j and the path number."""
    sizes = _chunk_sizes(seqs)
    colreqs = [None, ["score", "id"], ["id", "k", "score", "t"]]
    out = []
    for q in range(n_paths):
        p = (3 * j + q * 3) % len(PATHS) if n_paths < len(PATHS) else q
        out.append((PATHS[p], sizes[(j + p) % len(sizes)], colreqs[(j + p // 3) % len(colreqs)]))
    return out


def _table_task(task):
    d, items = task
    ev = _Events()
    for j, seqs, kind, n_paths in items:
        for ascending in (False, True):
            for path, rc, cols in _variants(j + int(ascending), seqs, n_paths):
                ev.case(("table", kind, ascending, path, rc, cols, seqs), nontrivial=nontrivial(seqs))
                bad = run_table_merge(d, seqs, ascending, kind, path, rc, cols)
                if bad:
                    ev.violation("table-merger-%s-%s" % ("asc" if ascending else "desc", bad[0]),
                                 "%s via %s: %s" % (kind, path, bad[1]),
                                 {"impl": "table", "kind": kind, "ascending": ascending, "path": path,
                                  "reader_chunk": rc, "columns": cols, "seqs": [list(s) for s in seqs]})
    return ev.events


def check_table_merger(tier, seed):
    full, items, desc = table_merge_combos(tier, seed)
    ck = Check("table_merger_rows_once_sorted",
               "mokapot.streaming.MergedTabularDataReader.get_row_iterator / get_chunked_data_iterator / read, "
               "mokapot.streaming.merge_readers",
               desc + "; score sequences over the 3 values %s sorted as declared; descending and ascending mode; "
               "8 access paths (row iterator with DataFrame / Dicts / Records rows, chunked output of size 1 / 2 / "
               "all, read, merge_readers), the paths of a combination rotating with its number; reader_chunk_size "
               "rotating over {1, 2, longest input + 1}; column request rotating over default / 2 columns / 4 "
               "reordered columns" % (VALS,),
               "oracle: unique id per input row; output must contain every id exactly once, each row equal to its "
               "input row in the requested columns, scores monotone in the declared direction; non-trivial = at "
               "least 2 inputs and at least 2 distinct score values")
    with scratch("c14b_") as d:
        write_inputs(d, 3, full, ascending_slots=3)
        _run_tasks(ck, _table_task, [(str(d), part) for part in _split(items, 56)])
    return ck


# ------------------------------------------------------------------------------------------------ rejection clause
def declared_unsorted(seq, ascending):
    """seq is given in file order as indices into VALS (index up = score down)."""
    sc = [VALS[v] for v in seq]
    if ascending:
        return any(sc[j] > sc[j + 1] for j in range(len(sc) - 1))
    return any(sc[j] < sc[j + 1] for j in range(len(sc) - 1))


def run_rejection(bad_seq, others, position, ascending, path, reader_chunk):
    """One merge in which input number `position` holds bad_seq (file order, not sorted as declared)."""
    from mokapot.tabular_data import DataFrameReader
    seqs = list(others)
    seqs.insert(position, tuple(bad_seq))
    readers = []
    for slot, seq in enumerate(seqs):
        if slot == position:
            rows = [{"id": "s%dr%d" % (slot, j), "score": VALS[v], "k": slot * 100 + j, "t": j % 2 == 0}
                    for j, v in enumerate(seq)]
            readers.append(DataFrameReader(pd.DataFrame({c: [r[c] for r in rows] for c in ROW_COLS})))
        else:
            readers.append(DataFrameReader(frame_for(slot, seq, ascending)))
    total = sum(len(s) for s in seqs)
    try:
        out = consume(readers, path, ascending, reader_chunk, None, total)
    except ValueError:
        return None
    except Exception as e:                                            # noqa: BLE001
        return "other-exception-" + type(e).__name__, "%s instead of ValueError: %s" % (type(e).__name__,
                                                                                        str(e)[:150])
    return "not-rejected", "no error; merged scores %s" % [float(r.get("score", float("nan"))) for r in out]


def check_rejection(tier, seed):
    max_len = 4 if tier == "quick" else 5
    other_sets = [(), ((0,),), ((2,),), ((0, 1, 2),), ((1, 1), (0, 2))]
    ck = Check("table_merger_rejects_unsorted", "mokapot.streaming.MergedTabularDataReader / merge_readers",
               "exhaustive: every sequence of length 2..%d over the 3 score values that is not sorted as declared "
               "(unsorted step at every position, the last rows included), in descending and ascending mode, as "
               "the only input and together with 1 or 2 sorted inputs (4 companion sets), at every input position, "
               "each through 2 of the 8 access paths (rotating with the case number, all paths and row types covered for "
               "every sequence), reader_chunk_size rotating over {1, 2, length + 1}" % max_len,
               "the merge must end in ValueError (any other outcome, a silently unsorted result included, is a "
               "violation); non-trivial = the unsorted step is not the first pair of the input or other inputs "
               "are present")
    j = 0
    seqs_all = [s for ln in range(2, max_len + 1) for s in itertools.product(range(len(VALS)), repeat=ln)]
    items = []
    for ascending in (False, True):
        for seq in seqs_all:
            if not declared_unsorted(seq, ascending):
                continue
            for others in other_sets:
                for position in range(len(others) + 1):
                    items.append((j, seq, others, position, ascending))
                    j += 1
    _run_tasks(ck, _rejection_task, _split(items, 56))
    return ck


def _rejection_task(items):
    ev = _Events()
    for j, seq, others, position, ascending in items:
        sizes = sorted({1, 2, len(seq) + 1})
        first_bad = next(k for k in range(len(seq) - 1)
                         if declared_unsorted(seq[k:k + 2], ascending))
        for p in ((3 * j) % len(PATHS), (3 * j + 3) % len(PATHS)):
            path = PATHS[p]
            rc = sizes[(j + p) % len(sizes)]
            ev.case(("reject", seq, others, position, ascending, path, rc),
                    nontrivial=first_bad > 0 or len(others) > 0)
            bad = run_rejection(seq, others, position, ascending, path, rc)
            if bad:
                ev.violation("unsorted-input-%s-%s" % ("asc" if ascending else "desc", bad[0]),
                             "via %s: %s" % (path, bad[1]),
                             {"impl": "reject", "seq": list(seq), "others": [list(o) for o in others],
                              "position": position, "ascending": ascending, "path": path, "reader_chunk": rc})
    return ev.events


# ------------------------------------------------------------------------------------------------ (c) near-ties
# Score ladders whose neighbouring values are almost, but not exactly, equal.  "Sorted" in the property is the
# exact order of the floats: a merge that treats near-equal head scores of two inputs as a tie (any relative or
# absolute tolerance) emits the smaller one first when the larger one stands in a later input.
TEXT_MAX_K = 44      # text files only for ladders whose neighbours differ by >= 2**-44 relative (see assumptions)


def _ladder(values):
    vals = tuple(sorted({float(v) for v in values}, reverse=True))
    assert len(vals) == len(values) and all(math.isfinite(v) for v in vals), values
    return vals


def _rel_ladder(x, k):
    """x, x*(1+2**-k), x*(1+2*2**-k): neighbours differ by about 2**-k relative (k <= 52: all distinct)"""
    return _ladder([x, x * (1.0 + 2.0 ** -k), x * (1.0 + 2.0 * 2.0 ** -k)])


def _ulp_ladder(x, towards=-np.inf):
    """x and its two next neighbouring floats in the direction `towards` (default: the next smaller ones)"""
    y = float(np.nextafter(x, towards))
    return _ladder([x, y, float(np.nextafter(y, towards))])


def near_tie_families(tier):
    """-> [(name, ladder of 3 distinct values best first, text files allowed?)]"""
    big = float(np.finfo(np.float64).max)
    fams = [
        ("ulp@0.75", _ulp_ladder(0.75), False),
        ("ulp@-1e-5", _ulp_ladder(-1e-5), False),
        ("ulp@max", _ulp_ladder(big), False),
        ("subnormal", _ladder([1e-323, 5e-324, 0.0]), False),
        ("zero+-1e-12", _ladder([1e-12, 0.0, -1e-12]), True),
        ("rel2^-30@0.75", _rel_ladder(0.75, 30), True),
        ("rel2^-33@-0.75", _rel_ladder(-0.75, 33), True),
        ("rel2^-40@1e300", _rel_ladder(1e300, 40), True),
        ("rel2^-44@1e-300", _rel_ladder(1e-300, 44), True),
        ("rel2^-51@12345.678", _rel_ladder(12345.678, 51), False),
        ("mixed-far-above,2^-36@0.5", _ladder([2.5, 0.5 * (1 + 2.0 ** -36), 0.5]), True),
        ("mixed-2^-47@0.5,far-below", _ladder([0.5 * (1 + 2.0 ** -47), 0.5, -1.0]), False),
    ]
    if tier != "quick":
        mags = (0.75, -0.75, 1e-300, -1e300, 12345.678, -3e-7)
        for k in range(20, 53):
            x = mags[k % len(mags)]
            fams.append(("rel2^-%d@%r" % (k, x), _rel_ladder(x, k), k <= TEXT_MAX_K and not 1e-5 <= abs(x) < 0.1))
        for x in (1.0, -1.0, 1e-300, -1e300, 2.2250738585072014e-308, 1 / 3, 1e-5):
            fams.append(("ulp@%r" % x, _ulp_ladder(x), False))
        fams.append(("ulp@-max", _ulp_ladder(-big, np.inf), False))
        fams.append(("zero+-5e-324", _ladder([5e-324, 0.0, -5e-324]), False))
        fams.append(("zero+-1e-300", _ladder([1e-300, 0.0, -1e-300]), True))
    names = [n for n, _, _ in fams]
    return [f for j, f in enumerate(fams) if f[0] not in names[:j]]


def _ladder_seqs(max_len):
    return [s for ln in range(1, max_len + 1) for s in itertools.combinations_with_replacement(range(3), ln)]


def near_tie_combos(tier, seed, fam_no):
    rng = random.Random(1000 * seed + fam_no)
    max_len, n_rnd = (2, 12) if tier == "quick" else (3, 60)
    full = _ladder_seqs(max_len)
    combos = list(itertools.product(full, repeat=2))
    combos += list(itertools.product(_ladder_seqs(1), repeat=3))
    combos += [tuple(rng.choice(full) for _ in range(3 + q % 2)) for q in range(n_rnd)]
    return full, combos


def run_near_tie(d, inp, vals):
    """One evaluation of the near-tie check; inp is the recorded input of the case."""
    seqs = tuple(tuple(s) for s in inp["seqs"])
    if inp["impl"] == "merge_sort":
        return run_merge_sort(d, seqs, inp["format"], inp["chunk"], vals, exact_score=inp["format"] == "parquet")
    return run_table_merge(d, seqs, inp["ascending"], inp["kind"], inp["path"], inp["reader_chunk"],
                           inp["columns"], vals, exact_score=inp["kind"] != "csv")


def _near_tie_task(task):
    d, fam_no, name, vals, text_ok, combos, full, one_direction = task
    d = Path(d) / ("fam%d" % fam_no)
    d.mkdir()
    formats = ("parquet", "csv") if text_ok else ("parquet",)
    write_inputs(d, 4, full, ascending_slots=4, vals=vals, formats=formats)
    kinds = ("frame", "parquet", "csv") if text_ok else ("frame", "parquet")
    ev = _Events()
    for j, seqs in enumerate(combos):
        sizes = _chunk_sizes(seqs)
        nt = nontrivial(seqs)
        tag = {"family": name, "vals_hex": [v.hex() for v in vals], "vals": list(vals),
               "seqs": [list(s) for s in seqs]}
        fmt = formats[j % len(formats)]
        runs = [dict(tag, impl="merge_sort", format=fmt, chunk=sizes[(j // 2) % len(sizes)])]
        # quick: one direction per combination, changing every 8 combinations (8 consecutive combinations cover
        # the 8 access paths); thorough: both directions
        for ascending in (((j // 8) % 2 == 1,) if one_direction else (False, True)):
            path, rc, cols = _variants(j + int(ascending and not one_direction), seqs, 1)[0]
            runs.append(dict(tag, impl="table", kind=kinds[(j // 3) % len(kinds)], ascending=ascending, path=path,
                             reader_chunk=rc, columns=cols))
        for inp in runs:
            ev.case(("near-tie", name, json.dumps(inp, sort_keys=True)), nontrivial=nt)
            bad = run_near_tie(d, inp, vals)
            if bad:
                if inp["impl"] == "merge_sort":
                    ev.violation("near-tie-merge_sort-%s-%s" % (inp["format"], bad[0]),
                                 "ladder %s %r: %s" % (name, list(vals), bad[1]), inp)
                else:
                    ev.violation("near-tie-table-merger-%s-%s" % ("asc" if inp["ascending"] else "desc", bad[0]),
                                 "ladder %s %r, %s via %s: %s" % (name, list(vals), inp["kind"], inp["path"], bad[1]),
                                 inp)
    return ev.events


def check_near_ties(tier, seed):
    fams = near_tie_families(tier)
    quick = tier == "quick"
    ck = Check("merge_near_ties_exact_order",
               "mokapot.utils.merge_sort (get_next_row), mokapot.streaming.MergedTabularDataReader / merge_readers",
               "%d score ladders of 3 distinct, nearly equal values (neighbouring floats from np.nextafter at 0.75, "
               "-1e-5, the largest float%s; subnormals; 0 and +-1e-12%s; relative steps 2**-k %s at magnitudes from "
               "1e-300 to 1e300 and of both signs; a near-tie pair next to a far-away value); for every ladder: "
               "exhaustive ordered pairs of inputs of 1..%d rows (%d: every exact-tie / near-tie structure, the "
               "larger value of a near-tie in the earlier and in the later input), the 27 triples of 1-row inputs, "
               "%d random (random.Random(1000*%d + ladder number)) 3- and 4-tuples of inputs of 1..%d rows; each "
               "combination: merge_sort once (Parquet, alternating with text for ladders with steps >= 2**-%d; "
               "MERGE_SORT_CHUNK_SIZE rotating over {1, 2, longest input + 1}) and the table merger %s "
               "(frame / Parquet / text readers, access path, reader_chunk_size and column request "
               "rotating with the combination number)"
               % (len(fams), "" if quick else " and 8 more magnitudes", "" if quick else " / 5e-324 / 1e-300",
                  "for k in {30, 33, 40, 44, 51}" if quick else "for every k in 20..52",
                  2 if quick else 3, len(_ladder_seqs(2 if quick else 3)) ** 2, 12 if quick else 60, seed,
                  2 if quick else 3, TEXT_MAX_K,
                  "once (descending or ascending, the direction changing every 8 combinations)" if quick
                  else "descending and ascending"),
               "oracle: as in the other checks (every id once, rows unmodified, scores monotone), the order being "
               "the exact comparison of the floats (no tolerance); for frame and Parquet inputs the output score "
               "must be the identical float of the input row; non-trivial = at least 2 inputs and at least 2 "
               "distinct score values")
    with scratch("c14c_") as d:
        tasks = []
        for fam_no, (name, vals, text_ok) in enumerate(fams):
            full, combos = near_tie_combos(tier, seed, fam_no)
            tasks.append((str(d), fam_no, name, vals, text_ok, combos, full, quick))
        _run_tasks(ck, _near_tie_task, tasks)
    return ck


# ------------------------------------------------------------------------------------------------ (d) column names
# "Unmodified" covers the column names of a row as well as its values.  Table headers are free text: names with a
# space ("Calc Mass", "mokapot score"), a leading digit or slash ("1/z"), a leading underscore ("_tag"), a Python
# keyword ("class") or punctuation are all legal, and none of them is a Python identifier, so any row conversion
# that goes through attribute / namedtuple / keyword-argument names renames or drops them.
ODD_NAMES = ["Calc Mass", "1/z", "_tag", "class", "m/z", "2nd best", "for", "Peptide-Len", "ion.frac", "%TIC",
             "is decoy?", "_", "__x", "lambda", "[M+H]", "x:y", "q-value", "mokapot PEP", "None", "a&b", "(ppm)",
             "3", "def", "index", "Index"]
PLAIN_NAMES = ["SpecId", "Label", "ScanNr", "ExpMass", "Peptide"]
ODD_ID_NAMES = ["id", "PSM Id", "_id", "id#", "0id"]
ODD_SCORE_NAMES = ["score", "mokapot score", "1/score", "_score", "score-1", "pass", "svm.score"]
PAYLOAD_KINDS = "sifb"


def _payload(kind, slot, j):
    if kind == "s":
        return "w%d_%d" % (slot, j)
    if kind == "i":
        return slot * 100 + j
    if kind == "f":
        return slot + 0.25 * j + 0.125          # never a whole number: stays a float through text
    return j % 2 == 0


def named_rows(spec, slot, seq, ascending):
    """spec: list of [column name, role]; role "id" / "score" / one of PAYLOAD_KINDS -> the rows of input `slot`"""
    idx = list(reversed(seq)) if ascending else list(seq)
    rows = []
    for j, v in enumerate(idx):
        row = {}
        for name, role in spec:
            row[name] = "s%dr%d" % (slot, j) if role == "id" else VALS[v] if role == "score" else \
                _payload(role, slot, j)
        rows.append(row)
    return rows


_PA_TYPES = {"id": pa.string(), "score": pa.float64(), "s": pa.string(), "i": pa.int64(), "f": pa.float64(),
             "b": pa.bool_()}


def named_frame(spec, slot, seq, ascending):
    rows = named_rows(spec, slot, seq, ascending)
    return pd.DataFrame({name: [r[name] for r in rows] for name, _ in spec})


def run_named(d, inp):
    """One evaluation of the column-name check; inp is the recorded input of the case (files are written here)."""
    import mokapot.utils as mu
    from mokapot.tabular_data import DataFrameReader, CSVFileReader, ParquetFileReader
    spec = [tuple(c) for c in inp["header"]]
    names = [n for n, _ in spec]
    id_col = next(n for n, r in spec if r == "id")
    score_col = next(n for n, r in spec if r == "score")
    seqs = tuple(tuple(s) for s in inp["seqs"])
    ascending = bool(inp.get("ascending", False))
    fmt = inp["format"] if inp["impl"] == "merge_sort" else inp["kind"]
    inputs = [named_rows(spec, slot, seq, ascending) for slot, seq in enumerate(seqs)]
    total = sum(len(r) for r in inputs)
    d = Path(d)
    d.mkdir(parents=True, exist_ok=True)
    paths = []
    for slot, seq in enumerate(seqs):
        df = named_frame(spec, slot, seq, ascending)
        path = d / ("in%d.%s" % (slot, "parquet" if fmt == "parquet" else "csv"))
        if fmt == "csv":
            df.to_csv(path, sep="\t", index=False)
        elif fmt == "parquet":
            schema = pa.schema([(n, _PA_TYPES[r]) for n, r in spec])
            pq.write_table(pa.Table.from_pandas(df, preserve_index=False, schema=schema), path, row_group_size=2)
        paths.append(path)
    if inp["impl"] == "merge_sort":
        old = mu.MERGE_SORT_CHUNK_SIZE
        mu.MERGE_SORT_CHUNK_SIZE = inp["chunk"]
        try:
            out = list(itertools.islice(mu.merge_sort(paths, score_col), total + 3))
        except Exception as e:                                        # noqa: BLE001
            return "raises-" + type(e).__name__, str(e)[:200]
        finally:
            mu.MERGE_SORT_CHUNK_SIZE = old
        out = [dict(r) if isinstance(r, dict) else r for r in out]
        return judge(out, inputs, False, names, id_col=id_col, score_col=score_col)
    cols = inp["columns"]
    try:
        if fmt == "frame":
            readers = [DataFrameReader(named_frame(spec, slot, seq, ascending)) for slot, seq in enumerate(seqs)]
        else:
            readers = [(CSVFileReader if fmt == "csv" else ParquetFileReader)(p) for p in paths]
        out = consume(readers, inp["path"], ascending, inp["reader_chunk"], cols, total, score_col=score_col)
    except Exception as e:                                            # noqa: BLE001
        return "raises-" + type(e).__name__, str(e)[:200]
    want = cols if (cols is not None and inp["path"] != "merge_readers") else names
    return judge(out, inputs, ascending, want, id_col=id_col, score_col=score_col)


def _is_odd(name):
    import keyword
    return not name.isidentifier() or keyword.iskeyword(name) or name.startswith("_")


def column_name_cases(tier, seed):
    """-> [(header spec, tuple of sequences)]: every odd name alone (as payload, id or score column, the score
    column first / in the middle / last), then random headers mixing odd and plain names in random order."""
    rng = random.Random(seed + 2)
    full = sorted_seqs(3 if tier == "quick" else 5)
    n_rnd = 90 if tier == "quick" else 1500
    max_inputs = 4 if tier == "quick" else 8

    def seqs_for(q):
        k = 1 + q % 3 if q % 7 else 1 + q % max_inputs
        return tuple(rng.choice(full) for _ in range(k))

    cases = []
    q = 0
    for name in ODD_NAMES:                               # one odd payload column, all 4 value kinds over the names
        kind = PAYLOAD_KINDS[q % 4]
        spec = [["id", "id"], [name, kind], ["Label", "i"]]
        spec.insert((0, 2, 3)[q % 3], ["score", "score"])
        cases.append((spec, seqs_for(q)))
        q += 1
    for name in ODD_ID_NAMES[1:]:
        cases.append(([[name, "id"], ["score", "score"], ["Label", "i"]], seqs_for(q)))
        q += 1
    for name in ODD_SCORE_NAMES[1:]:
        spec = [["id", "id"], ["Label", "i"], ["Peptide", "s"]]
        spec.insert((0, 2, 3)[q % 3], [name, "score"])
        cases.append((spec, seqs_for(q)))
        q += 1
    for _ in range(n_rnd):
        n_odd = rng.randint(1, 4)
        names = rng.sample(ODD_NAMES, n_odd) + rng.sample(PLAIN_NAMES, rng.randint(0, 2))
        spec = [[n, rng.choice(PAYLOAD_KINDS)] for n in names]
        spec.append([rng.choice(ODD_ID_NAMES), "id"])
        spec.append([rng.choice(ODD_SCORE_NAMES), "score"])
        rng.shuffle(spec)
        cases.append((spec, seqs_for(q)))
        q += 1
    return cases


def _column_name_task(task):
    d, items = task
    ev = _Events()
    for j, spec, seqs in items:
        names = [n for n, _ in spec]
        id_col = next(n for n, r in spec if r == "id")
        score_col = next(n for n, r in spec if r == "score")
        sizes = _chunk_sizes(seqs)
        nt = sum(_is_odd(n) for n in names) >= 1 and len({v for s in seqs for v in s}) >= 2
        extra = [n for n in names if n not in (id_col, score_col)]
        colreqs = [None, [score_col, id_col] + extra[-1:], list(reversed(names))]
        runs = [dict(impl="merge_sort", format="csv", chunk=sizes[j % len(sizes)]),
                dict(impl="merge_sort", format="parquet", chunk=sizes[(j + 1) % len(sizes)])]
        for q in range(2):
            p = (3 * j + 3 * q) % len(PATHS)
            runs.append(dict(impl="table", kind=("csv", "frame", "parquet")[(j + q) % 3], ascending=(j + q) % 2 == 1,
                             path=PATHS[p], reader_chunk=sizes[(j + p) % len(sizes)],
                             columns=colreqs[(j + p // 3) % len(colreqs)]))
        for n, run in enumerate(runs):
            inp = dict(run, header=[list(c) for c in spec], seqs=[list(s) for s in seqs])
            ev.case(("colnames", json.dumps(inp, sort_keys=True)), nontrivial=nt)
            bad = run_named(Path(d) / ("c%d_%d" % (j, n)), inp)
            if bad:
                if run["impl"] == "merge_sort":
                    ev.violation("odd-column-names-merge_sort-%s-%s" % (run["format"], bad[0]),
                                 "header %r: %s" % (names, bad[1]), inp)
                else:
                    ev.violation("odd-column-names-table-merger-%s-%s" % (run["kind"], bad[0]),
                                 "header %r, %s via %s: %s" % (names, run["kind"], run["path"], bad[1]), inp)
    return ev.events


def check_column_names(tier, seed):
    cases = column_name_cases(tier, seed)
    quick = tier == "quick"
    n_fixed = len(ODD_NAMES) + len(ODD_ID_NAMES) - 1 + len(ODD_SCORE_NAMES) - 1
    ck = Check("merge_rows_unmodified_odd_column_names",
               "mokapot.utils.merge_sort (csv_row_iterator, parquet_row_iterator), "
               "mokapot.streaming.MergedTabularDataReader / merge_readers",
               "%d headers: each of %d column names that are legal table headers but no plain Python identifiers (a "
               "space, a leading digit, slash, punctuation, a leading underscore, Python keywords, 'index') alone as "
               "a payload column (string / int / float / bool values rotating), %d such names for the id column and "
               "%d for the score column (score column first / in the middle / last); %d random "
               "(random.Random(%d)) headers of 1..4 such names plus 0..2 plain names plus id and score column (odd "
               "or plain name) in random order; each header with 1..3 (every 7th: 1..%d) inputs of 1..%d rows drawn "
               "from the non-increasing sequences over the 3 values %s; each case: merge_sort from tab-separated "
               "text and from Parquet (MERGE_SORT_CHUNK_SIZE rotating over {1, 2, longest input + 1}) and 2 of the 8 "
               "access paths of the table merger (frame / text / Parquet readers, direction, reader_chunk_size and "
               "column request rotating with the case number)"
               % (len(cases), len(ODD_NAMES), len(ODD_ID_NAMES) - 1, len(ODD_SCORE_NAMES) - 1,
                  len(cases) - n_fixed, seed + 2, 4 if quick else 8, 3 if quick else 5, VALS),
               "oracle: as in the other checks, with the column names part of the row: every output row must have "
               "exactly the column names of the header (or of the column request), in that order, the values of "
               "the input row with the same id, every id once, scores monotone; non-trivial = at least one column "
               "name that is no plain identifier and at least 2 distinct score values")
    with scratch("c14d_") as d:
        _run_tasks(ck, _column_name_task,
                   [(str(d), part) for part in _split([(j, s, q) for j, (s, q) in enumerate(cases)], 14)])
    return ck


# ------------------------------------------------------------------------------------------------ (e) missing values
# "Unmodified" covers the cells a row does NOT have as well: Parquet columns of every type may hold nulls, and text
# tables empty cells.  A reader that builds its rows through a typed table of the rows it happens to read together
# re-types a whole chunk as soon as one of its cells is missing (None -> NaN, every integer of the chunk -> float,
# integers above 2**53 rounded), and which rows are hit depends on the reader chunk size.
NULL_COLS = ["id", "score", "k", "t", "w", "x"]                 # payload: k int64, t bool, w string, x float64
NULL_PAYLOAD = ["k", "t", "w", "x"]
NULL_SCHEMA = [("id", pa.string()), ("score", pa.float64()), ("k", pa.int64()), ("t", pa.bool_()),
               ("w", pa.string()), ("x", pa.float64())]
BIG = 2 ** 53


def null_rows(slot, seq, code=""):
    """rows (best score first) of input `slot`; code: one 4-letter word per row, comma separated, one letter per
    payload column k / t / w / x: "." the plain value, "n" a null, "B" (column k) an integer above 2**53"""
    words = code.split(",") if code else []
    rows = []
    for j, v in enumerate(seq):
        row = {"id": "s%dr%d" % (slot, j), "score": VALS[v], "k": slot * 100 + j, "t": j % 2 == 0,
               "w": "w%d_%d" % (slot, j), "x": slot + 0.25 * j + 0.125}
        for c, what in zip(NULL_PAYLOAD, words[j] if j < len(words) else "...."):
            if what == "n":
                row[c] = None
            elif what == "B" and c == "k":
                row[c] = (BIG + 1 + 2 * (slot * 10 + j)) * (-1 if (slot + j) % 3 == 2 else 1)   # odd: no float64
        rows.append(row)
    return rows


def _cell_code(seq, cells):
    """cells: {row: {column: "null" | "big"}} -> the code string of null_rows"""
    return ",".join("".join({"null": "n", "big": "B"}.get(cells.get(j, {}).get(c), ".") for c in NULL_PAYLOAD)
                    for j in range(len(seq)))


def _missing(v):
    return v is None or v is pd.NA or (isinstance(v, (float, np.floating)) and math.isnan(v))


def _cell_strict(got, exp):
    """the cell as pyarrow's to_pylist() defines it: same Python type, same value, None for a null"""
    if exp is None:
        return got is None
    return type(got) is type(exp) and got == exp


def _cell_same(got, exp, text):
    """got is the cell exp in another representation of the same value: missing (None / NaN) for missing, a number
    of the same exact value for a number (14 or 14.0; an int above 2**53 is NOT equal to its rounded float), a bool
    for a bool, a string for a string; floats from text up to the tolerance of the text parser"""
    if _missing(exp):
        return _missing(got)
    if _missing(got):
        return False
    ke, kg = _kind(exp), _kind(got)
    if ke in "bs":
        return kg == ke and got == exp
    if kg not in "if":
        return False
    if text and ke == "f":
        return math.isclose(float(got), float(exp), rel_tol=1e-12, abs_tol=1e-12)
    a = int(got) if kg == "i" else float(got)
    b = int(exp) if ke == "i" else float(exp)
    return a == b                                   # Python compares int with float exactly


def _rounded_big(got, exp):
    """got is the float nearest to the integer exp, which no float64 holds exactly"""
    return (_kind(exp) == "i" and abs(int(exp)) > BIG and _kind(got) == "f" and not _missing(got)
            and float(got) == float(int(exp)) and int(got) != int(exp))


def _cell_whole(got, ref, text):
    """the cell as the whole read of the input delivers it: same kind (missing / bool / int / float / string), same
    value"""
    if _missing(ref) or _missing(got):
        return _missing(ref) and _missing(got)
    return _kind(got) == _kind(ref) and _cell_same(got, ref, text)


def judge_cells(out_rows, inputs, whole, ascending, cols, strict, text=False):
    """Every id once, scores monotone, every cell unmodified.  strict: the cell must be the to_pylist() cell of the
    input row (type and value).  Otherwise (rows delivered through pandas tables): the cell must be the cell of the
    input row in some representation of the same exact value, or the cell as the whole read of that input
    (whole: id -> row) delivers it."""
    by_id = {r["id"]: r for rows in inputs for r in rows}
    seen = {}
    for pos, r in enumerate(out_rows):
        if not isinstance(r, dict) or list(r.keys()) != list(cols):
            return "row-shape", "output row %d is %r, expected the columns %s" % (pos, r, cols)
        rid = r.get("id")
        if rid not in by_id:
            return "row-modified", "output row %d has id %r which is no input row" % (pos, rid)
        if rid in seen:
            return "row-duplicated", "input row %s emitted at positions %d and %d" % (rid, seen[rid], pos)
        seen[rid] = pos
        for c in cols:
            exp = by_id[rid][c]
            if strict:
                ok = _cell_strict(r[c], exp)
            else:
                ok = _cell_same(r[c], exp, text) or (whole is not None and _cell_whole(r[c], whole[rid][c], text))
            if not ok:
                return ("int-above-2^53-rounded-though-whole-read-exact" if not strict and _rounded_big(r[c], exp) else "row-modified",
                        "row %s column %s: %r (%s), input had %r" % (rid, c, r[c], type(r[c]).__name__, exp))
    if len(seen) != len(by_id):
        missing = sorted(set(by_id) - set(seen))
        return "row-lost", "%d of %d input rows missing from the output: %s" % (len(missing), len(by_id), missing[:6])
    sc = [float(r["score"]) for r in out_rows]
    for j in range(len(sc) - 1):
        if (sc[j] > sc[j + 1]) if ascending else (sc[j] < sc[j + 1]):
            return "not-sorted", "scores %s are not monotone as declared at position %d" % (sc, j)
    return None


def _text_cell(v):
    return "" if v is None else repr(v) if isinstance(v, float) else str(v)


def run_null_case(d, inp):
    """One evaluation of the missing-value check; inp is the recorded input of the case (files are written here).
    The merge is run once per chunk size of inp["chunks"]; every run is judged on its own, then the runs are
    compared with each other (the rows must not depend on the chunk size)."""
    import mokapot.utils as mu
    from mokapot.tabular_data import ParquetFileReader
    ascending = bool(inp.get("ascending", False))
    fmt = inp["format"]
    rows_desc = [null_rows(slot, tuple(seq), code) for slot, (seq, code) in enumerate(zip(inp["seqs"], inp["cells"]))]
    inputs = [list(reversed(rows)) if ascending else rows for rows in rows_desc]
    total = sum(len(r) for r in inputs)
    d = Path(d)
    d.mkdir(parents=True, exist_ok=True)
    paths, whole = [], {}
    for slot, rows in enumerate(inputs):
        path = d / ("in%d.%s" % (slot, fmt))
        if fmt == "parquet":
            pq.write_table(pa.Table.from_pylist(rows, schema=pa.schema(NULL_SCHEMA)), path, row_group_size=2)
            ref = pq.read_table(path).to_pandas()
        else:
            with open(path, "w") as f:
                f.write("\t".join(NULL_COLS) + "\n")
                for r in rows:
                    f.write("\t".join(_text_cell(r[c]) for c in NULL_COLS) + "\n")
            ref = pd.read_csv(path, sep="\t", index_col=False)
        for r in _frame_to_dicts(ref):
            whole[r["id"]] = r
        paths.append(path)
    cols = NULL_COLS if inp.get("columns") is None or inp.get("path") == "merge_readers" else inp["columns"]
    outs = {}
    for chunk in inp["chunks"]:
        try:
            if inp["impl"] == "merge_sort":
                old = mu.MERGE_SORT_CHUNK_SIZE
                mu.MERGE_SORT_CHUNK_SIZE = chunk
                try:
                    out = [dict(r) for r in itertools.islice(mu.merge_sort(paths, "score"), total + 3)]
                finally:
                    mu.MERGE_SORT_CHUNK_SIZE = old
            else:
                out = consume([ParquetFileReader(p) for p in paths], inp["path"], ascending, chunk,
                              inp.get("columns"), total)
        except Exception as e:                                        # noqa: BLE001
            return "raises-" + type(e).__name__, "chunk size %d: %s" % (chunk, str(e)[:200])
        strict = inp["impl"] == "merge_sort" and fmt == "parquet"
        bad = judge_cells(out, inputs, whole, ascending, cols, strict, text=fmt == "csv")
        if bad:
            return bad[0], "chunk size %d: %s" % (chunk, bad[1])
        outs[chunk] = {r["id"]: r for r in out}
    first = inp["chunks"][0]
    for chunk in inp["chunks"][1:]:
        for rid, r in outs[chunk].items():
            for c in cols:
                a, b = outs[first][rid][c], r[c]
                if not _cell_same(b, a, fmt == "csv"):
                    exp = next(x[c] for rows in inputs for x in rows if x["id"] == rid)
                    cls = ("int-above-2^53-exact-or-rounded-depending-on-chunk-size"
                           if {True} == {_cell_same(v, exp, False) or _rounded_big(v, exp) for v in (a, b)}
                           else "cell-value-depends-on-chunk-size")
                    return cls, "row %s column %s: %r with chunk size %d, %r with %d" % (rid, c, a, first, b, chunk)
    return None


def null_cases(tier, seed):
    """-> [(tuple of sequences, {slot: {row: {column: "null" | "big"}}})]"""
    rng = random.Random(seed + 3)
    quick = tier == "quick"
    cases = []
    # systematic: one null in one payload column of a 3- or 4-row input, at every row position, alone and next to a
    # second input without nulls; the integer cells of the neighbouring rows small / above 2**53
    for c in NULL_PAYLOAD:
        for seq in ((0, 1, 2), (0, 0, 1, 2)):
            for pos in range(len(seq)):
                for big in (False, True):
                    cells = {pos: {c: "null"}}
                    if big:
                        for j in range(len(seq)):
                            if j != pos or c != "k":
                                cells.setdefault(j, {})["k"] = "big"
                    cases.append(((seq,), {0: cells}))
                    cases.append((((1,), seq) if pos % 2 else (seq, (0, 2)), {(1 if pos % 2 else 0): cells}))
    # a whole column / a whole row of nulls, every row of a 1- and 2-row input
    for seq in ((1,), (0, 2)):
        cases.append(((seq, (0, 1)), {0: {j: {c: "null" for c in NULL_PAYLOAD} for j in range(len(seq))}}))
        for c in NULL_PAYLOAD:
            cases.append((((0, 1, 1), seq), {1: {j: {c: "null"} for j in range(len(seq))}}))
    # an input WITHOUT nulls whose integer cells are above 2**53, merged with an input that has a null in that column
    for q in range(8):
        a_seq, b_seq = ((0, 1, 2), (0, 1, 1, 2))[q % 2], ((0, 1), (1, 2), (0, 0, 2))[q % 3]
        a_spec = {j: {"k": "big"} for j in range(len(a_seq))}
        b_spec = {q % len(b_seq): {"k": "null"}}
        cases.append(((a_seq, b_seq), {0: a_spec, 1: b_spec}) if q % 4 < 2 else ((b_seq, a_seq), {0: b_spec, 1: a_spec}))
    full = sorted_seqs(4 if quick else 6)
    for q in range(60 if quick else 1500):
        k = 1 + q % (4 if quick else 8)
        seqs = tuple(rng.choice(full) for _ in range(k))
        p_null = (0.15, 0.35, 0.6)[q % 3]
        spec = {}
        for slot, seq in enumerate(seqs):
            for j in range(len(seq)):
                for c in NULL_PAYLOAD:
                    u = rng.random()
                    if u < p_null:
                        spec.setdefault(slot, {}).setdefault(j, {})[c] = "null"
                    elif c == "k" and u > 0.7:
                        spec.setdefault(slot, {}).setdefault(j, {})[c] = "big"
        cases.append((seqs, spec))
    return cases


def _null_nontrivial(rows_per_input):
    """some input has a non-float payload column with a null AND a non-null cell (a mixed reader chunk is possible)"""
    for rows in rows_per_input:
        for c in ("k", "t", "w"):
            vals = [r[c] is None for r in rows]
            if any(vals) and not all(vals):
                return True
    return False


def _null_task(task):
    d, items = task
    ev = _Events()
    for j, seqs, spec in items:
        codes = [_cell_code(seq, spec.get(slot, {})) for slot, seq in enumerate(seqs)]
        rows = [null_rows(slot, seq, code) for slot, (seq, code) in enumerate(zip(seqs, codes))]
        n = max(len(s) for s in seqs)
        nt = _null_nontrivial(rows)
        runs = [dict(impl="merge_sort", format="parquet", chunks=sorted({1, 2, 3, n + 1})),
                dict(impl="merge_sort", format="csv", chunks=sorted({1, 2, 3, n + 1}))]
        colreqs = [None, ["score", "id", "k"], list(reversed(NULL_COLS))]
        for q in range(2):
            p = (3 * j + 3 * q) % len(PATHS)
            runs.append(dict(impl="table", format="parquet", ascending=(j + q) % 2 == 1, path=PATHS[p],
                             columns=colreqs[(j + p // 3) % len(colreqs)], chunks=sorted({1, 2, n + 1})))
        for nrun, run in enumerate(runs):
            inp = dict(run, seqs=[list(q) for q in seqs], cells=codes)
            ev.case(("nulls", json.dumps(inp, sort_keys=True)), nontrivial=nt)
            bad = run_null_case(Path(d) / ("n%d_%d" % (j, nrun)), inp)
            if bad:
                who = "merge_sort" if run["impl"] == "merge_sort" else "table-merger"
                ev.violation("missing-values-%s-%s-%s" % (who, run["format"], bad[0]),
                             "%s%s: %s" % (who, " via " + run["path"] if "path" in run else "", bad[1]), inp)
    return ev.events


def check_missing_values(tier, seed):
    cases = null_cases(tier, seed)
    quick = tier == "quick"
    n_rnd = 60 if quick else 1500
    ck = Check("merge_rows_unmodified_missing_values",
               "mokapot.utils.merge_sort (parquet_row_iterator, csv_row_iterator), "
               "mokapot.streaming.MergedTabularDataReader / merge_readers over ParquetFileReader",
               "%d cases over the columns id (string) / score / k (int64) / t (bool) / w (string) / x (float64): %d "
               "systematic (one null in one payload column of a 3- or 4-row input at every row position, the other "
               "integer cells small or above 2**53 (odd, so that no float64 holds them), alone and next to a second "
               "input; a whole column / a whole row of nulls in a 1- and a 2-row input; 8 pairs of an input without nulls "
               "whose integers are above 2**53 and an input with a null in the integer column), %d random "
               "(random.Random(%d)): 1..%d inputs of 1..%d rows, every payload cell null with probability 0.15 / "
               "0.35 / 0.6 (rotating), integer cells above 2**53 with probability 0.3; scores over the 3 values %s; "
               "each case: merge_sort from Parquet (row groups of 2) and from tab-separated text (null = empty cell) "
               "at EVERY MERGE_SORT_CHUNK_SIZE of {1, 2, 3, longest input + 1}, and 2 of the 8 access paths of the "
               "table merger over Parquet readers at every reader_chunk_size of {1, 2, longest input + 1} "
               "(direction and column request rotating with the case number)"
               % (len(cases), len(cases) - n_rnd, n_rnd, seed + 3, 4 if quick else 8, 4 if quick else 6, VALS),
               "oracle: every id once, scores monotone, every cell unmodified. merge_sort from Parquet: the cell "
               "must be the cell of the written row as pyarrow's to_pylist() defines it (same Python type, same "
               "value, None for a null). Rows delivered through pandas tables (merge_sort from text, table merger): "
               "the cell must hold the exact value of the written cell in some representation (None / NaN for a "
               "null, int or float of exactly the same value for an integer, bool for bool, string for string) or be "
               "the cell as an independent whole read of that input (pyarrow's to_pandas / pandas.read_csv of the "
               "whole file) delivers it; in addition the values delivered with the different chunk sizes must be "
               "the same (an integer delivered exactly with one chunk size and rounded with another depends on the "
               "chunk size); non-trivial = some input has an int / bool / string column with a null and a non-null "
               "cell (a reader chunk can hold both)")
    with scratch("c14e_") as d:
        _run_tasks(ck, _null_task,
                   [(str(d), part) for part in _split([(j, s, q) for j, (s, q) in enumerate(cases)], 14)])
    return ck



# ------------------------------------------------------------------------------------------------ plumbing
class _Events:
    """Recorder with the interface of Check, so that worker processes can report back."""
    def __init__(self):
        self.events = []

    def case(self, key, nontrivial=True):
        self.events.append(("case", key, nontrivial))

    def violation(self, case, what, inputs):
        self.events.append(("violation", case, what, inputs))


def _split(items, parts):
    """contiguous, deterministic partition"""
    items = list(items)
    size = max(1, -(-len(items) // parts))
    return [items[k:k + size] for k in range(0, len(items), size)]


def _worker_init():
    pa.set_cpu_count(1)
    pa.set_io_thread_count(1)


def _run_tasks(ck, func, tasks):
    """Events are replayed in task order (not completion order): the result is deterministic."""
    import multiprocessing as mp
    import mokapot.utils, mokapot.streaming, mokapot.tabular_data   # noqa: E401,F401  imported once, inherited by the forked workers
    with mp.get_context("fork").Pool(min(14, max(1, len(tasks))), initializer=_worker_init) as pool:
        results = pool.map(func, tasks, chunksize=1)
    viol, seen, first, rest = [], set(), [], []
    for events in results:
        for e in events:
            if e[0] == "case":
                ck.case(e[1], nontrivial=e[2])
            else:
                viol.append(e)
    for e in viol:                                  # one violation of every distinct case id first
        (rest if e[1] in seen else first).append(e)
        seen.add(e[1])
    for e in first + rest:
        ck.violation(e[1], e[2], e[3])


def REPLAY(check_name, violation):
    inp = violation["input"]
    if isinstance(inp, str):
        inp = json.loads(inp)
    impl = inp.get("impl")
    if impl == "reject":
        bad = run_rejection(tuple(inp["seq"]), tuple(tuple(o) for o in inp["others"]), inp["position"],
                            inp["ascending"], inp["path"], inp["reader_chunk"])
        return {"violated": bool(bad), "detail": bad}
    if "cells" in inp:                                     # missing-value check: the null pattern travels with the case
        with scratch("c14p_") as d:
            bad = run_null_case(d, inp)
        return {"violated": bool(bad), "detail": bad}
    if "header" in inp:                                    # column-name check: the header travels with the case
        with scratch("c14p_") as d:
            bad = run_named(d, inp)
        return {"violated": bool(bad), "detail": bad}
    seqs = tuple(tuple(s) for s in inp["seqs"])
    if "vals_hex" in inp:                                  # near-tie check: the ladder travels with the case
        vals = tuple(float.fromhex(h) for h in inp["vals_hex"])
        with scratch("c14p_") as d:
            write_inputs(d, len(seqs), sorted(set(seqs)), ascending_slots=len(seqs), vals=vals)
            bad = run_near_tie(d, inp, vals)
        return {"violated": bool(bad), "detail": bad}
    with scratch("c14p_") as d:
        write_inputs(d, len(seqs), sorted(set(seqs)), ascending_slots=len(seqs))
        if impl == "merge_sort":
            bad = run_merge_sort(d, seqs, inp["format"], inp["chunk"])
        elif impl == "table":
            bad = run_table_merge(d, seqs, inp["ascending"], inp["kind"], inp["path"], inp["reader_chunk"],
                                  inp["columns"])
        else:
            return {"violated": None, "note": "no replay for %s" % check_name}
    return {"violated": bool(bad), "detail": bad}


def _timed(checks):
    """Check.wall_s counts from the creation of the Check to emit(): shift t0 so that it reports the check's own time."""
    import time
    done = []
    for fn, tier, seed in checks:
        t = time.time()
        ck = fn(tier, seed)
        done.append((ck, time.time() - t))
    for ck, elapsed in done:
        ck.t0 = time.time() - elapsed
    return [ck for ck, _ in done]


if __name__ == "__main__":
    a = args()
    np.random.seed(a.seed)
    emit(_timed([(check_merge_sort, a.tier, a.seed), (check_table_merger, a.tier, a.seed),
                 (check_rejection, a.tier, a.seed), (check_near_ties, a.tier, a.seed),
                 (check_column_names, a.tier, a.seed), (check_missing_values, a.tier, a.seed)]),
         ["inputs are non-empty, finite scores, sorted as declared (except in the rejection check); three score "
          "values generate every tie pattern but not every spacing of scores (the near-tie check adds ladders of "
          "3 nearly equal values: spacings from 1 ulp to 2**-20 relative, not every spacing)",
          "near-tie ladders go through text files only when neighbouring values differ by at least 2**-44 relative "
          "and are not of a magnitude in [1e-5, 0.1): the pandas text parser used by the readers is not round-trip "
          "exact in this environment (up to 3 ulp; about 1e-12 relative for values written with leading zeros "
          "after the decimal point), so closer values could change their order by parsing alone; for text inputs rows are compared with relative tolerance 1e-12 and the "
          "order is judged on the emitted values",
          "column names: the main checks use the identifier-like names id / score / k / t; the column-name check adds "
          "a fixed list of 25 + 4 + 6 names that are no plain Python identifiers (space, leading digit, slash, "
          "punctuation, leading underscore, keyword, 'index'); names are unique within a header, non-empty, without "
          "tab / quote / newline / '#' / leading or trailing blank (the quoting rules of the text format are not the "
          "subject here), and the row id is always a string column",
          "missing values: only the missing-value check holds nulls / empty cells, only in the payload columns (id and "
          "score are always present), over one fixed header of an int64, a bool, a string and a float64 column; "
          "Parquet files carry their types, so merge_sort from Parquet is judged strictly on type and value; rows "
          "that the code under test delivers through pandas tables (text inputs, the table merger) are not required "
          "to keep the representation of a cell (None or NaN, 14 or 14.0, also when this changes with the chunk "
          "size), only its exact value, and a cell equal to what a whole read of the input delivers is accepted "
          "too; the table merger sees nulls through Parquet readers only (frame and text readers: no nulls)",
          "merge_sort is only specified for descending order; the rejection clause concerns the table merger only",
          "the numbers of inputs above 2 (quick) are covered exhaustively only for short inputs, otherwise by "
          "seeded random sampling (see the bound of each check)"])
