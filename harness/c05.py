"""C05 bounded stand-in: results do not depend on chunk sizes, worker count, thread timing or file format.

Every check runs the real mokapot functions on one seeded random dataset under a reference configuration
(tab-delimited text, one worker, default chunk constants, no artificial delays) and under varied configurations,
and demands equal scores (1e-9) and equal result files (same files, same rows in the same order, numeric columns
up to 1e-9).  The oracle is the property itself (equality between configurations); no mokapot code is re-used.

Scores with exact ties are part of the domain (brew returns one 0.0 per fold, see check tied_scores_chunks): files
that differ only in the order / choice of rows with exactly equal scores get the case ids in TIE_CASE.

NB: `import mokapot.brew as m` yields the *function* brew (mokapot/__init__ shadows the sub-module); the chunk
constants must be patched in `importlib.import_module("mokapot.brew")`."""
import importlib
import json
import logging
import os
import random
import threading
import time
import warnings
from contextlib import contextmanager
from pathlib import Path

for _v in ("OMP_NUM_THREADS", "OPENBLAS_NUM_THREADS", "MKL_NUM_THREADS", "NUMBA_NUM_THREADS"):
    os.environ.setdefault(_v, "1")      # cases run in a process pool; BLAS threads would only add noise

import numpy as np
import pandas as pd

from harness.common import Check, args, emit
from harness.datasets import scratch, small_df, make_ds

logging.disable(logging.CRITICAL)
warnings.filterwarnings("ignore")

TOL = 1e-9
WORKERS = 8
KNOWN_EMPTY_FOLD = "empty-fold-slice-in-chunk"
BREW_N = 200      # rows of brew_table

CONSTS = {
    "conf": ("mokapot.confidence", "CONFIDENCE_CHUNK_SIZE"),
    "merge": ("mokapot.utils", "MERGE_SORT_CHUNK_SIZE"),
    "pred": ("mokapot.brew", "CHUNK_SIZE_ROWS_PREDICTION"),
    "read": ("mokapot.brew", "CHUNK_SIZE_READ_ALL_DATA"),
    "rows": ("mokapot.parsers.pin", "CHUNK_SIZE_ROWS_FOR_DROP_COLUMNS"),
    "cols": ("mokapot.parsers.pin", "CHUNK_SIZE_COLUMNS_FOR_DROP_COLUMNS"),
}
FORMATS = ("csv", "pq1", "pq3", "pqn")      # Parquet with row groups of 1, 3 and n rows


@contextmanager
def constants(values):
    """set the chunk constants in the modules that imported them; restore afterwards"""
    saved = []
    try:
        for key, val in (values or {}).items():
            mod = importlib.import_module(CONSTS[key][0])
            saved.append((mod, CONSTS[key][1], getattr(mod, CONSTS[key][1])))
            setattr(mod, CONSTS[key][1], int(val))
        yield
    finally:
        for mod, name, val in saved:
            setattr(mod, name, val)


def write_input(df, d, fmt, **kw):
    """write the table in the requested format and describe it (OnDiskPsmDataset)"""
    import pyarrow as pa
    import pyarrow.parquet as pq
    if fmt == "csv":
        return make_ds(df, Path(d) / "in.pin", **kw)
    path = Path(d) / "in.parquet"
    ds = make_ds(df, path, **kw)
    rg = {"pq1": 1, "pq3": 3, "pqn": len(df)}[fmt]
    pq.write_table(pa.Table.from_pandas(df, preserve_index=False), path, row_group_size=rg)
    assert pq.ParquetFile(path).num_row_groups == -(-len(df) // rg)
    return ds


def sizes(n):
    return [1, 2, 3, n - 1, n, n + 1]


# ------------------------------------------------------------------------------------------ file comparison
def read_results(out):
    """result directory -> {file name: {column: list}} (text files read as tab-delimited tables)"""
    res = {}
    for name in sorted(os.listdir(out)):
        try:
            res[name] = pd.read_csv(Path(out) / name, sep="\t").to_dict("list")
        except Exception as e:
            res[name] = {"__unreadable__": [repr(e)]}
    return res


PEP_COLUMN = "posterior_error_prob"
TOL_PEP_NOISY = 1e-4
# PEPs of runs whose score columns are bitwise equal: the rows of exactly tied scores may still come in another
# order (recorded finding tied-scores-row-order-differs), and triqler's iterative fit turns that into differences
# of ~1e-9 (1.3e-9 measured with seed 4) - floating-point noise of the estimator, not of mokapot's streaming
TOL_PEP_SAME_SCORES = 1e-7
PEP_ULP_NOISE_CAP = 2e-2
PEP_NOISE = {"max": 0.0}      # largest PEP difference seen between runs whose scores differ in the last bits


def _cells_equal(x, y, tol):
    """index of the first differing cell of two columns, or None"""
    if len(x) != len(y):
        return 0
    try:
        xa, ya = np.asarray(x, float), np.asarray(y, float)
    except (TypeError, ValueError):
        xs, ys = [str(v) for v in x], [str(v) for v in y]
        return next((k for k in range(len(xs)) if xs[k] != ys[k]), None)
    ok = (np.abs(xa - ya) <= tol) | (np.isnan(xa) & np.isnan(ya))
    return None if np.all(ok) else int(np.argmax(~ok))


def _diff_table(name, a, b, all_scores, same_scores):
    """compare two result tables (dict column -> list); returns None or (kind, message); kind 'ties' = the tables
    differ only in rows whose score is exactly tied with another row"""
    if list(a) != list(b):
        return "diff", "%s: columns differ: %s vs %s" % (name, list(a), list(b))
    n = len(next(iter(a.values()))) if a else 0
    if any(len(v) != n for v in b.values()):
        return "diff", "%s: %d rows vs %d rows" % (name, n, len(next(iter(b.values()))))
    first = None
    for col in a:
        tol = (TOL_PEP_SAME_SCORES if same_scores else TOL_PEP_NOISY) if col == PEP_COLUMN else TOL
        i = _cells_equal(a[col], b[col], tol)
        if i is not None:
            first = first or (col, i)
        elif col == PEP_COLUMN and not same_scores and n:
            d = np.abs(np.asarray(a[col], float) - np.asarray(b[col], float))
            PEP_NOISE["max"] = max(PEP_NOISE["max"], float(np.nanmax(d)))
    if first is None:
        return None
    col, i = first
    msg = "%s: column %s differs at row %d: %r vs %r" % (name, col, i, a[col][i], b[col][i])
    # only the PEP column differs, by a small amount, while every other column (scores as written included) agrees:
    # the external estimator (triqler's iterative spline fit on these ~90-row tables) amplifies last-bit differences
    # of the scores it is handed (text vs binary intermediate files) - measured up to 1.2e-3 (seed 7).  A class of
    # its own (recorded finding), so that a larger PEP difference or any other column is still reported under the
    # generic ids.
    if col == PEP_COLUMN and n:
        others_equal = all(_cells_equal(a[c], b[c], TOL) is None for c in a if c != PEP_COLUMN)
        d = np.abs(np.asarray(a[col], float) - np.asarray(b[col], float))
        if others_equal and np.all(np.isfinite(d)) and float(np.max(d)) <= PEP_ULP_NOISE_CAP:
            return "pepnoise", ("only the PEP column differs, by up to %.3g (all other columns equal); "
                                % float(np.max(d))) + msg
    # only a permutation / exchange of rows with exactly tied scores?
    if "score" in a and "PSMId" in a and _cells_equal(a["score"], b["score"], TOL) is None:
        rows_differ = [k for k in range(n) if a["PSMId"][k] != b["PSMId"][k]]
        tied = all(all_scores.count(a["score"][k]) >= 2 for k in rows_differ)
        if rows_differ and tied:
            if sorted(map(str, a["PSMId"])) == sorted(map(str, b["PSMId"])):
                pos = {str(v): k for k, v in enumerate(b["PSMId"])}
                order = [pos[str(v)] for v in a["PSMId"]]
                b2 = {c: [b[c][k] for k in order] for c in b}
                if all(_cells_equal(a[c], b2[c], TOL_PEP_NOISY if c == PEP_COLUMN else TOL) is None for c in a):
                    return "ties", "rows with exactly equal scores come in a different order; " + msg
            else:
                return "tie-winner", "another PSM with an exactly equal score is retained; " + msg
    return "diff", msg


def diff_results(ref, got):
    """None if equal (same files, same columns, same rows in the same order, numbers up to TOL), else
    (kind, message).  PEPs come from an iterative spline fit (triqler qvality) that turns 1-ulp score differences
    (text vs binary feature values, BLAS block sizes) into PEP differences of 1e-8..1e-6 (measured on the
    estimator alone): the PEP column is compared with TOL where the score columns of the two runs are bitwise
    equal (in all files) and with TOL_PEP_NOISY where they are not."""
    if sorted(ref) != sorted(got):
        return "diff", "file listing differs: %s vs %s" % (sorted(ref), sorted(got))
    all_scores = [v for t in ref.values() for v in t.get("score", [])]
    # PEPs of a level are estimated from targets and decoys together: bitwise equality over all files
    same_scores = all(ref[name].get("score") == got[name].get("score") for name in ref)
    worst = None
    for name in sorted(ref):
        d = _diff_table(name, ref[name], got[name], all_scores, same_scores)
        if d and d[0] == "diff":
            return d
        worst = worst or d
    return worst


TIE_CASE = {"ties": "tied-scores-row-order-differs", "tie-winner": "tied-scores-winner-differs",
            "pepnoise": "only-pep-column-differs-by-less-than-2e-2"}


class ClassCheck(Check):
    """Check that keeps one violation per case id (the first = smallest input met) with the number of runs in
    that class, so that frequent classes (the known one) cannot crowd out a new one."""
    def __init__(self, *a):
        super().__init__(*a)
        self.classes = {}

    def violation(self, case, what, inputs):
        if case not in self.classes:
            self.classes[case] = [0, what, inputs]
        self.classes[case][0] += 1

    def result(self):
        self.violations = []
        for case, (cnt, what, inputs) in self.classes.items():
            Check.violation(self, case, "%s  [%d run(s) in this class]" % (what, cnt), inputs)
        return super().result()


def diff_scores(ref, got):
    a, b = np.asarray(ref, float), np.asarray(got, float)
    if a.shape != b.shape:
        return "score shape %s vs %s" % (a.shape, b.shape)
    if not np.all(np.abs(a - b) <= TOL):
        i = int(np.argmax(np.abs(a - b)))
        return "scores differ by %.3g at row %d" % (float(np.max(np.abs(a - b))), i)
    return None


def classify(exc, cfg):
    """stable case id for a run that raised"""
    msg = str(exc)
    if isinstance(exc, ValueError) and "No PSMs were detected" in msg \
            and 0 < cfg.get("consts", {}).get("pred", 0) < BREW_N:
        return KNOWN_EMPTY_FOLD
    return "run-failed-%s" % type(exc).__name__


_WARM = []


def _warm_up():
    """numba compiles mokapot.qvalues._fdr2qvalue at its first call (~3 s): do it once, before forking"""
    if not _WARM:
        from mokapot.qvalues import tdc
        tdc(np.array([3.0, 2.0, 1.0]), np.array([True, False, True]))
        _WARM.append(1)


def _pool_map(fn, items):
    import multiprocessing as mp
    _warm_up()
    if WORKERS <= 1 or len(items) < 4:
        return [fn(c) for c in items]
    with mp.get_context("fork").Pool(WORKERS) as pool:
        return pool.map(fn, items, chunksize=1)


# ------------------------------------------------------------------------------------------ (1) confidence sweeps
def conf_table(seed, ties=False):
    """90 PSMs: 30 spectra x 3 PSMs (adjacent in the file), tie-free scores.
    ties=True: the best PSMs of three different spectra (rows 10, 40, 70 +-) get the score exactly 0.0, which is
    what brew returns (calibrate_scores maps the threshold PSM of every fold to 0.0)"""
    df = small_df(n_spec=30, dup=3, seed=seed, n_pep=25)
    rng = np.random.default_rng(seed + 1)
    sc = df["f0"].values + rng.normal(0, 0.5, len(df))
    assert len(np.unique(sc)) == len(sc)
    if ties:
        for s0 in (3, 13, 23):
            rows = [3 * s0, 3 * s0 + 1, 3 * s0 + 2]
            best = max(rows, key=lambda k: sc[k])
            shift = sc[best]
            for k in rows:
                sc[k] -= shift            # the best PSM of the spectrum has score 0.0, the others are below
        assert np.sum(sc == 0.0) == 3
    return df, sc


def run_confidence(cfg):
    """cfg: seed, dedup, rollup, consts{conf,merge}, workers, fmt, [sleep] -> result tables or error"""
    import mokapot.confidence as conf
    df, sc = conf_table(cfg["seed"], ties=cfg.get("ties", False))
    saved = conf._save_sorted_metadata_chunks
    if cfg.get("sleep") is not None:
        rnd = random.Random(cfg["sleep"])
        lock = threading.Lock()

        def slow(*a, **k):
            with lock:
                t = rnd.uniform(0, 0.02)
            time.sleep(t)
            return saved(*a, **k)
        conf._save_sorted_metadata_chunks = slow
    try:
        with scratch("c05_") as d:
            ds = write_input(df, d, cfg["fmt"])
            out = Path(d) / "out"
            out.mkdir()
            with constants(cfg.get("consts")):
                conf.assign_confidence(psms=[ds], max_workers=cfg["workers"], scores=[np.array(sc, dtype=float)],
                                       descs=[True], eval_fdr=0.2, dest_dir=out, prefixes=[None], decoys=True,
                                       deduplication=cfg["dedup"], do_rollup=cfg["rollup"], rng=cfg["seed"])
            return {"files": read_results(out)}
    except BaseException as e:
        return {"error": e if isinstance(e, Exception) else RuntimeError(repr(e))}
    finally:
        conf._save_sorted_metadata_chunks = saved


def split_spectra(n_spec, dup, chunk):
    """number of spectra whose (adjacent) PSMs do not all lie in one chunk of `chunk` rows"""
    return sum(1 for s in range(n_spec) if (s * dup) // chunk != (s * dup + dup - 1) // chunk)


def check_confidence_chunks(tier, seed):
    df, _ = conf_table(seed)
    n = len(df)
    S = sizes(n)
    modes = [(True, True), (False, True), (False, False), (True, False)]
    rng = random.Random(seed)
    pool_sizes = S + [4, 5, 7, n // 2, n // 3]
    grid = []
    for dedup, rollup in modes:
        variations = [{"conf": c} for c in S] + [{"merge": c} for c in S] + \
                     [{"conf": rng.choice(pool_sizes), "merge": rng.choice(pool_sizes)} for _ in range(6)] + [{}]
        for consts in variations:
            for fmt in FORMATS:
                for w in (1, 2, 4):
                    grid.append(dict(seed=seed, dedup=dedup, rollup=rollup, consts=consts, workers=w, fmt=fmt))
    base = [c for c in grid if not c["consts"] and c["fmt"] == "csv" and c["workers"] == 1]
    rest = [c for c in grid if c not in base]
    if tier == "quick":
        must = [c for c in rest if c["fmt"] == "csv" and c["workers"] == 1 and len(c["consts"]) == 1]
        other = [c for c in rest if c not in must]
        rest = must + rng.sample(other, 30)
    ck = ClassCheck("confidence_chunks", "mokapot.confidence.assign_confidence, mokapot.utils.merge_sort",
               "%d runs on one table of %d PSMs (30 spectra x 3 adjacent PSMs, seed %d, fixed tie-free scores): "
               "CONFIDENCE_CHUNK_SIZE and MERGE_SORT_CHUNK_SIZE one at a time over {1,2,3,n-1,n,n+1} plus 6 random "
               "pairs, max_workers {1,2,4}, text / Parquet row groups {1,3,n}, de-duplication and rollup on/off "
               "(%s); each compared with text/1 worker/default constants"
               % (len(rest), n, seed, "full grid" if tier != "quick" else
                  "quick: all one-at-a-time sweeps for text/1 worker + 30 sampled grid points"),
               "equality of all result files with the reference run; non-trivial = several chunks, or another "
               "format / worker count than the reference")
    refs = {}
    for cfg, r in zip(base, _pool_map(run_confidence, base)):
        if "error" in r:
            ck.violation("reference-run-failed", repr(r["error"]), cfg)
            return ck
        refs[(cfg["dedup"], cfg["rollup"])] = r["files"]
    for cfg, r in zip(rest, _pool_map(run_confidence, rest)):
        k = cfg["consts"]
        ck.case(cfg, nontrivial=any(v < n for v in k.values()) or cfg["fmt"] != "csv" or cfg["workers"] > 1)
        _judge_files(ck, cfg, r, refs[(cfg["dedup"], cfg["rollup"])], "confidence")
    return ck


def _tag(cfg):
    """what differs from the reference run"""
    tag = "+".join(sorted(cfg.get("consts", {})) or ["none"])
    if cfg.get("fmt", "csv") != "csv":
        tag += "+format"
    if cfg.get("workers", 1) > 1:
        tag += "+workers"
    if cfg.get("sleep") is not None:
        tag += "+timing"
    return tag


def _judge_files(ck, cfg, r, ref, what):
    if "error" in r:
        ck.violation(classify(r["error"], cfg), "%s run raised %r" % (what, r["error"]), cfg)
        return
    d = diff_results(ref, r["files"])
    if d:
        ck.violation(TIE_CASE.get(d[0], "result-files-depend-on-%s" % _tag(cfg)), d[1], cfg)


def check_duplicates_across_chunks(tier, seed):
    """explicit form of the last sentence of the property: the PSMs of one spectrum in one chunk vs in several"""
    df, _ = conf_table(seed)
    n, dup, n_spec = len(df), 3, 30
    top = 6 if tier == "quick" else 24
    ck = ClassCheck("duplicates_same_vs_different_chunk", "mokapot.confidence.assign_confidence",
               "exhaustive: CONFIDENCE_CHUNK_SIZE in 1..%d and {n-1,n} x de-duplication on/off x rollup on/off x "
               "text/Parquet, 1 worker, one table of %d PSMs (30 spectra x 3 adjacent PSMs, seed %d); reference: "
               "chunk size %d (every spectrum inside one chunk)" % (top, n, seed, n),
               "multiples of 3 keep every spectrum inside one chunk, the other sizes split up to 30 of the 30 spectra "
               "over two or three chunks; non-trivial = at least one spectrum is split")
    cfgs = []
    for dedup in (True, False):
        for rollup in (True, False):
            for fmt in ("csv", "pq3"):
                for c in list(range(1, top + 1)) + [n - 1, n]:
                    cfgs.append(dict(seed=seed, dedup=dedup, rollup=rollup, consts={"conf": c}, workers=1, fmt=fmt))
    res = _pool_map(run_confidence, cfgs)
    refs = {}
    for cfg, r in zip(cfgs, res):
        if cfg["consts"]["conf"] == n and cfg["fmt"] == "csv":
            if "error" in r:
                ck.violation("reference-run-failed", repr(r["error"]), cfg)
                return ck
            refs[(cfg["dedup"], cfg["rollup"])] = r["files"]
    for cfg, r in zip(cfgs, res):
        split = split_spectra(n_spec, dup, cfg["consts"]["conf"])
        ck.case(cfg, nontrivial=split > 0)
        if "error" in r:
            ck.violation(classify(r["error"], cfg), "run raised %r" % r["error"], cfg)
            continue
        d = diff_results(refs[(cfg["dedup"], cfg["rollup"])], r["files"])
        if d:
            ck.violation(TIE_CASE.get(d[0], "duplicates-split-over-chunks-dedup-%s"
                                      % ("on" if cfg["dedup"] else "off")),
                         "%d spectra split over chunks: %s" % (split, d[1]), cfg)
    return ck


def check_tied_scores(tier, seed):
    """brew returns exactly tied scores by construction (one 0.0 per fold); the property does not exclude ties"""
    df, _ = conf_table(seed, ties=True)
    n = len(df)
    ck = ClassCheck("tied_scores_chunks", "mokapot.confidence.assign_confidence, mokapot.utils.merge_sort",
                    "exhaustive: CONFIDENCE_CHUNK_SIZE in {1,2,3,7,30,n} x text/Parquet(3) x de-duplication "
                    "on/off, 1 worker, on the %d-PSM table of confidence_chunks (seed %d) in which the best PSMs of "
                    "three different spectra score exactly 0.0; reference: text, default constants" % (n, seed),
                    "equality of all result files; non-trivial = the three tied PSMs lie in different chunks "
                    "(every size below 31)")
    cfgs = [dict(seed=seed, dedup=dd, rollup=True, consts={"conf": c}, workers=1, fmt=fmt, ties=True)
            for dd in (True, False) for fmt in ("csv", "pq3") for c in (1, 2, 3, 7, 30, n)]
    refs = {dd: run_confidence(dict(seed=seed, dedup=dd, rollup=True, consts={}, workers=1, fmt="csv", ties=True))
            for dd in (True, False)}
    for cfg, r in zip(cfgs, _pool_map(run_confidence, cfgs)):
        ck.case(cfg, nontrivial=cfg["consts"]["conf"] < 31)
        if "error" in refs[cfg["dedup"]]:
            ck.violation("reference-run-failed", repr(refs[cfg["dedup"]]["error"]), cfg)
            continue
        _judge_files(ck, cfg, r, refs[cfg["dedup"]]["files"], "confidence")
    return ck


# ------------------------------------------------------------------------------------------ (2) brew sweeps
def brew_table(seed):
    """200 PSMs (100 spectra x 2) with 3 features; the first of seeds seed*100, seed*100+1, ... for which the
    reference brew keeps the learned model (1-D scores), so that the prediction path decides the scores"""
    return small_df(n_spec=100, dup=2, seed=_brew_seed(seed), n_feat=3)


_BREW_SEED = {}


def _brew_seed(seed):
    if seed not in _BREW_SEED:
        for s in range(seed * 100, seed * 100 + 100):
            df = small_df(n_spec=100, dup=2, seed=s, n_feat=3)
            ok = True
            for est in ("perc", "lr"):
                r = _brew_once(df, dict(seed=seed, est=est, fmt="csv", workers=1), with_files=False)
                if "error" in r or np.ndim(r["scores"]) != 1 or len(np.unique(r["scores"])) < len(df) - 5:
                    ok = False
            if ok:
                break
        _BREW_SEED[seed] = s
    return _BREW_SEED[seed]


class _Sleeper:
    def __init__(self, seed):
        self.rnd = random.Random(seed)
        self.lock = threading.Lock()

    def nap(self):
        with self.lock:
            t = self.rnd.uniform(0, 0.03)
        time.sleep(t)


_SLEEPER = None


def make_model(est, seed, sleepy):
    """est: 'perc' = PercolatorModel (linear SVM + grid search), 'lr' = cheaper logistic regression.
    sleepy: fit / decision_function (estimator level) resp. fit / predict (model level) sleep a random time."""
    from mokapot.model import Model, PercolatorModel
    from sklearn.linear_model import LogisticRegression

    if est == "perc":
        if not sleepy:
            return PercolatorModel(train_fdr=0.2, rng=seed)

        class SleepyPercolator(PercolatorModel):
            def fit(self, psms):
                _SLEEPER.nap()
                return super().fit(psms)

            def predict(self, psms):
                _SLEEPER.nap()
                return super().predict(psms)
        return SleepyPercolator(train_fdr=0.2, rng=seed)
    if not sleepy:
        return Model(LogisticRegression(), train_fdr=0.2, max_iter=3, rng=seed)
    return Model(SleepyLR(), train_fdr=0.2, max_iter=3, rng=seed)


def _sleepy_lr():
    from sklearn.linear_model import LogisticRegression

    class SleepyLR(LogisticRegression):
        def fit(self, X, y, sample_weight=None):
            _SLEEPER.nap()
            return super().fit(X, y, sample_weight)

        def decision_function(self, X):
            _SLEEPER.nap()
            return super().decision_function(X)
    return SleepyLR


SleepyLR = _sleepy_lr()


def _brew_once(df, cfg, with_files=True):
    global _SLEEPER
    brew_mod = importlib.import_module("mokapot.brew")
    import mokapot.confidence as conf
    pin_mod = importlib.import_module("mokapot.parsers.pin")
    saved_rows = pin_mod.get_rows_from_dataframe
    if cfg.get("sleep") is not None:
        _SLEEPER = _Sleeper(cfg["sleep"])

        def slow_rows(*a, **k):           # the chunk-reading tasks of parse_in_chunks finish in perturbed order too
            _SLEEPER.nap()
            return saved_rows(*a, **k)
        pin_mod.get_rows_from_dataframe = slow_rows
    try:
        with scratch("c05b_") as d:
            ds = write_input(df, d, cfg["fmt"])
            with constants(cfg.get("consts")):
                _, models, scores, descs = brew_mod.brew([ds], make_model(cfg["est"], cfg["seed"],
                                                                         cfg.get("sleep") is not None),
                                                        test_fdr=0.2, folds=3, max_workers=cfg["workers"],
                                                        rng=cfg["seed"])
            res = {"scores": np.asarray(scores[0]), "descs": list(descs)}
            if with_files:
                out = Path(d) / "out"
                out.mkdir()
                ds = write_input(df, d, cfg["fmt"])
                with constants(cfg.get("consts")):
                    conf.assign_confidence(psms=[ds], max_workers=cfg["workers"], scores=[np.asarray(scores[0])],
                                           descs=list(descs), eval_fdr=0.2, dest_dir=out, prefixes=[None],
                                           decoys=True, rng=cfg["seed"])
                res["files"] = read_results(out)
            return res
    except BaseException as e:
        return {"error": e if isinstance(e, Exception) else RuntimeError(repr(e))}
    finally:
        pin_mod.get_rows_from_dataframe = saved_rows


def run_brew(cfg):
    return _brew_once(brew_table(cfg["seed"]), cfg)


def _judge_brew(ck, cfg, r, ref, tag=None):
    if "error" in r:
        ck.violation(classify(r["error"], cfg), "brew/assign_confidence raised %r" % r["error"], cfg)
        return
    tag = tag or _tag(cfg)
    if r["descs"] != ref["descs"]:
        ck.violation("scores-depend-on-%s" % tag, "score direction %s vs %s" % (r["descs"], ref["descs"]), cfg)
        return
    d = diff_scores(ref["scores"], r["scores"])
    if d:
        ck.violation("scores-depend-on-%s" % tag, d, cfg)
        return
    d = diff_results(ref["files"], r["files"])
    if d:
        ck.violation(TIE_CASE.get(d[0], "result-files-depend-on-%s" % tag), d[1], cfg)


def check_brew(tier, seed):
    df = brew_table(seed)
    n = len(df)
    S = sizes(n)
    rng = random.Random(seed + 1)
    cfgs = []
    # (i) the Percolator model: format x workers with default constants
    for fmt in FORMATS:
        for w in (1, 2, 4):
            cfgs.append(dict(seed=seed, est="perc", fmt=fmt, workers=w, consts={}))
    # (ii) cheaper estimator: the two brew constants one at a time and in random combination with the
    #      confidence constants; prediction chunks that hold all folds (n//2, n//4) are included
    # ... and sizes that leave a PARTIAL last chunk which still holds every fold (n//2+7, n//3+5)
    pred_sizes = S + [n // 2, n // 4, n // 2 + 7, n // 3 + 5]
    sweeps = [{"pred": c} for c in pred_sizes] + [{"read": c} for c in S]
    pool_all = S + [5, 7, n // 2, n // 3]
    for _ in range(6 if tier == "quick" else 40):
        sweeps.append({"pred": rng.choice([n // 2, n // 4, n, n + 1]), "read": rng.choice(pool_all),
                       "conf": rng.choice(pool_all), "merge": rng.choice(pool_all)})
    for consts in sweeps:
        for fmt, w in ([("csv", 1), ("pq3", 4)] if tier == "quick" else [(f, w) for f in FORMATS for w in (1, 2, 4)]):
            cfgs.append(dict(seed=seed, est="lr", fmt=fmt, workers=w, consts=consts))
    for fmt in FORMATS:
        for w in (1, 2, 4):
            cfgs.append(dict(seed=seed, est="lr", fmt=fmt, workers=w, consts={}))
    # (iii) the Percolator model with the brew constants, text, one worker
    for consts in [{"pred": n // 2}, {"pred": n - 1}, {"pred": 3}, {"read": 1}, {"read": 3}, {"read": n - 1},
                   {"pred": n // 4, "read": 7}]:
        cfgs.append(dict(seed=seed, est="perc", fmt="csv", workers=1, consts=consts))
    ck = ClassCheck("brew_chunks_workers_format", "mokapot.brew.brew, mokapot.confidence.assign_confidence",
               "%d runs of brew (3 folds, test_fdr 0.2) + assign_confidence on one table of %d PSMs (100 spectra x 2, "
               "3 features, data seed %d): PercolatorModel(train_fdr=0.2) over text / Parquet row groups {1,3,n} x "
               "max_workers {1,2,4} and 7 settings of the brew constants; logistic-regression Model over "
               "CHUNK_SIZE_ROWS_PREDICTION in {1,2,3,n-1,n,n+1,n/2,n/4} and {n/2+7,n/3+5} (partial last chunk that "
               "holds every fold), CHUNK_SIZE_READ_ALL_DATA in "
               "{1,2,3,n-1,n,n+1}, random combinations of all four row constants, %s; reference per estimator: text, "
               "1 worker, default constants"
               % (len(cfgs), n, _brew_seed(seed),
                  "text/1 worker and Parquet(3)/4 workers" if tier == "quick" else "all formats x workers"),
               "scores within 1e-9 and equal result files; non-trivial = some constant below n, another format or "
               "more than one worker")
    refs = {}
    for est in ("perc", "lr"):
        cfg = dict(seed=seed, est=est, fmt="csv", workers=1, consts={})
        r = run_brew(cfg)
        if "error" in r:
            ck.violation("reference-run-failed", repr(r["error"]), cfg)
            return ck
        refs[est] = r
    for cfg, r in zip(cfgs, _pool_map(run_brew, cfgs)):
        ck.case(cfg, nontrivial=any(v < n for v in cfg["consts"].values()) or cfg["fmt"] != "csv"
                or cfg["workers"] > 1)
        _judge_brew(ck, cfg, r, refs[cfg["est"]])
    return ck


# ------------------------------------------------------------------------------------------ (3) thread timing
def check_thread_timing(tier, seed):
    reps = 4 if tier == "quick" else 30
    df = brew_table(seed)
    n = len(df)
    cfgs = []
    for k in range(reps):
        for est in ("lr", "perc"):
            for w in (4, 2):
                cfgs.append(dict(seed=seed, est=est, fmt="csv" if k % 2 == 0 else "pq3", workers=w,
                                 consts={"read": 40, "conf": 25} if k % 2 else {}, sleep=1000 * seed + k))
    ck = ClassCheck("thread_timing",
                    "mokapot.brew.brew (joblib threads), mokapot.confidence.create_sorted_file_iterator",
               "%d runs: brew + assign_confidence with max_workers 4 and 2 on %d PSMs where every estimator fit / "
               "decision_function (logistic regression) resp. Model.fit / Model.predict (PercolatorModel) sleeps "
               "U(0,30ms), as do the chunk-reading tasks of parse_in_chunks, drawn from %d delay seeds; plus %d "
               "assign_confidence runs (chunk 7, 4 workers) whose "
               "chunk-writer tasks sleep U(0,20ms); reference of each run: same format and constants, 1 worker, no "
               "delays"
               % (len(cfgs), n, reps, 2 * reps),
               "scores within 1e-9 and equal result files; every run is non-trivial (several threads with "
               "perturbed finishing order)")
    # reference of a run: the same input format and constants, one worker, no delays (only the schedule differs)
    def ref_of(c):
        return dict(c, workers=1, sleep=None)
    rcfgs = []
    for c in cfgs:
        if ref_of(c) not in rcfgs:
            rcfgs.append(ref_of(c))
    refs = dict(zip([json.dumps(c, sort_keys=True) for c in rcfgs], _pool_map(run_brew, rcfgs)))
    for cfg, r in zip(cfgs, _pool_map(run_brew, cfgs)):
        ck.case(cfg, nontrivial=True)
        ref = refs[json.dumps(ref_of(cfg), sort_keys=True)]
        if "error" in ref:
            ck.violation("reference-run-failed", repr(ref["error"]), ref_of(cfg))
            continue
        _judge_brew(ck, cfg, r, ref, tag="thread-timing")
    # chunk writer tasks of assign_confidence
    ccfgs = [dict(seed=seed, dedup=bool(k % 2), rollup=True, consts={"conf": 7}, workers=4, fmt="csv", sleep=k)
             for k in range(2 * reps)]
    cref = {}
    for dedup in (True, False):
        cref[dedup] = run_confidence(dict(seed=seed, dedup=dedup, rollup=True, consts={"conf": 7}, workers=1,
                                          fmt="csv"))
    for cfg, r in zip(ccfgs, _pool_map(run_confidence, ccfgs)):
        ck.case(cfg, nontrivial=True)
        if "error" in cref[cfg["dedup"]]:
            ck.violation("reference-run-failed", repr(cref[cfg["dedup"]]["error"]), cfg)
            continue
        if "error" in r:
            ck.violation(classify(r["error"], cfg), "run raised %r" % r["error"], cfg)
        else:
            d = diff_results(cref[cfg["dedup"]]["files"], r["files"])
            if d:
                ck.violation(TIE_CASE.get(d[0], "result-files-depend-on-thread-timing"), d[1], cfg)
    return ck


# ------------------------------------------------------------------------------------------ (3b) several files
MULTI_SPECTRA = (100, 70, 45)     # spectra (x 2 PSMs) of the jointly analysed files: 200, 140 and 90 rows
MULTI_ID = 100000                 # SpecId = MULTI_ID * file number + row number (tells the wrappers which file)
ORDER_CASE = "multi-file-order-depends-on-thread-timing"
ROWS_CASE = "multi-file-rows-depend-on-thread-timing"
MULTI_SCORE_CASE = "multi-file-scores-depend-on-thread-timing"


def multi_tables(seed, n_files, data=0):
    """the table of brew_table plus one or two smaller ones (data seeds _brew_seed + (1000 + data) * file number);
    SpecIds are disjoint"""
    tabs = []
    for k in range(n_files):
        df = small_df(n_spec=MULTI_SPECTRA[k], dup=2, seed=_brew_seed(seed) + (1000 + data) * k, n_feat=3)
        df["SpecId"] = df["SpecId"] + MULTI_ID * k
        tabs.append(df)
    return tabs


MULTI_REFS = ((2, "lr", {}), (2, "perc", {}), (3, "lr", {"read": 40}), (3, "perc", {"read": 40}))
_MULTI_DATA = {}


def _learned(r):
    """the reference brew succeeded and kept the learned model (1-D, almost tie-free scores)"""
    return "scores" in r and all(np.ndim(s) == 1 and len(np.unique(s)) >= len(s) - 5 for s in r["scores"])


def _multi_candidate(a):
    seed, data = a
    return all(_learned(run_multi(dict(seed=seed, data=data, mode="brew", files=files, fmt="csv", workers=1,
                                       sleep=None, est=est, consts=consts))) for files, est, consts in MULTI_REFS)


def _multi_data(seed):
    """the first data offset 0, 1, ... for which the four reference brew runs (2 / 3 files x both estimators) keep
    the learned model, so that the training sets decide the scores (on these small tables brew often falls back to
    the best feature); candidates are tried 8 at a time in the pool, the first good one in order is taken"""
    if seed not in _MULTI_DATA:
        _brew_seed(seed)
        _MULTI_DATA[seed] = 0
        for start in range(0, 64, 8):
            ok = _pool_map(_multi_candidate, [(seed, j) for j in range(start, start + 8)])
            if any(ok):
                _MULTI_DATA[seed] = start + ok.index(True)
                break
    return _MULTI_DATA[seed]


def multi_train_idx(seed, lengths, folds=3):
    """[fold][file] -> row numbers: a seeded random 60 % subset of every file in random order"""
    rng = np.random.default_rng(seed + 77)
    return [[[int(i) for i in rng.choice(n, (3 * n) // 5, replace=False)] for n in lengths] for _ in range(folds)]


def _file_of(frames):
    """file number of the per-fold lists of chunk frames handed to concat_and_reindex_chunks"""
    for fold in frames:
        for fr in fold:
            if len(fr):
                return int(fr["SpecId"].iloc[0]) // MULTI_ID
    return 0


@contextmanager
def perturbed_tasks(sleep, n_files):
    """wrap the two task functions of parse_in_chunks with sleeps (the functions themselves are untouched; they are
    looked up in mokapot.parsers.pin at call time, also when brew calls the parse_in_chunks it imported by name).
    sleep None: no wrappers.  'later-first': the concat/reindex task of file k sleeps 80 ms x (files - 1 - k), so
    the tasks of later files finish before those of earlier files.  An int: seeded random U(0,120ms) per file.
    The chunk-reading tasks sleep a seeded U(0,8ms) that depends on (file, first row of the chunk) only, so the
    delays do not depend on the order in which the threads reach the wrappers."""
    pin_mod = importlib.import_module("mokapot.parsers.pin")
    saved = (pin_mod.concat_and_reindex_chunks, pin_mod.get_rows_from_dataframe)
    if sleep is not None:
        salt = 0 if sleep == "later-first" else int(sleep) + 1

        def slow_concat(df, orig_idx):
            k = _file_of(df)
            if sleep == "later-first":
                time.sleep(0.08 * (n_files - 1 - k))
            else:
                time.sleep(random.Random(7919 * salt + k).uniform(0, 0.12))
            return saved[0](df=df, orig_idx=orig_idx)

        def slow_rows(idx, chunk, train_psms, psms, file_idx):
            first = int(chunk.index[0]) if len(chunk) else 0
            time.sleep(random.Random(1000003 * salt + 10007 * file_idx + first).uniform(0, 0.008))
            return saved[1](idx, chunk, train_psms, psms, file_idx)
        pin_mod.concat_and_reindex_chunks = slow_concat
        pin_mod.get_rows_from_dataframe = slow_rows
    try:
        yield pin_mod
    finally:
        pin_mod.concat_and_reindex_chunks, pin_mod.get_rows_from_dataframe = saved


def run_multi(cfg):
    """cfg: seed, data (offset of the data seeds), mode 'parse'|'brew', files 2|3, fmt 'csv'|'pq', workers,
    sleep None|'later-first'|int, parse: chunk (rows per reading task); brew: est, consts"""
    brew_mod = importlib.import_module("mokapot.brew")
    tabs = multi_tables(cfg["seed"], cfg["files"], cfg.get("data", 0))
    try:
        with scratch("c05m_") as d:
            dss = [make_ds(df, Path(d) / ("in%d.%s" % (k, "parquet" if cfg["fmt"] == "pq" else "pin")))
                   for k, df in enumerate(tabs)]
            with perturbed_tasks(cfg.get("sleep"), len(tabs)) as pin_mod:
                if cfg["mode"] == "parse":
                    idx = multi_train_idx(cfg["seed"], [len(t) for t in tabs])
                    frames = pin_mod.parse_in_chunks(psms=dss, train_idx=idx, chunk_size=cfg["chunk"],
                                                     max_workers=cfg["workers"])
                    return {"frames": [f.copy() for f in frames]}
                with constants(cfg.get("consts")):
                    _, _, scores, descs = brew_mod.brew(dss, make_model(cfg["est"], cfg["seed"], False), test_fdr=0.2,
                                                        folds=3, max_workers=cfg["workers"], rng=cfg["seed"])
                return {"scores": [np.asarray(s) for s in scores], "descs": list(descs)}
    except BaseException as e:
        return {"error": e if isinstance(e, Exception) else RuntimeError(repr(e))}


def diff_frames(ref, got):
    """None if the two lists of training frames are identical (same rows in the same order, same index, same
    columns and values), else (case id, message)"""
    if len(ref) != len(got):
        return ROWS_CASE, "%d training frames vs %d" % (len(ref), len(got))
    for f, (a, b) in enumerate(zip(ref, got)):
        ia, ib = [int(v) for v in a["SpecId"]], [int(v) for v in b["SpecId"]]
        if ia != ib:
            if sorted(ia) == sorted(ib):
                k = next(j for j in range(len(ia)) if ia[j] != ib[j])
                return ORDER_CASE, "training frame of fold %d: same rows in another order (position %d: SpecId %d " \
                    "(file %d) vs %d (file %d))" % (f + 1, k, ia[k], ia[k] // MULTI_ID + 1, ib[k], ib[k] // MULTI_ID + 1)
            return ROWS_CASE, "training frame of fold %d holds other rows (%d vs %d rows)" % (f + 1, len(ia), len(ib))
        if list(a.columns) != list(b.columns) or list(a.index) != list(b.index) or not a.equals(b):
            return "multi-file-values-depend-on-thread-timing", "training frame of fold %d: same SpecIds in the " \
                "same order but other columns / index / values" % (f + 1)
    return None


def _multi_ref(c):
    """reference of a run: the same files, format and constants, one worker, no delays"""
    return dict(c, workers=1, sleep=None)


def _judge_multi(ck, cfg, r, ref):
    if "error" in ref:
        ck.violation("reference-run-failed", repr(ref["error"]), _multi_ref(cfg))
    elif "error" in r:
        ck.violation("run-failed-%s" % type(r["error"]).__name__, "%s on %d files raised %r"
                     % (cfg["mode"], cfg["files"], r["error"]), cfg)
    elif cfg["mode"] == "parse":
        d = diff_frames(ref["frames"], r["frames"])
        if d:
            ck.violation(d[0], d[1], cfg)
    else:
        if r["descs"] != ref["descs"] or len(r["scores"]) != len(ref["scores"]):
            ck.violation(MULTI_SCORE_CASE, "score direction / number of score vectors %s, %d vs %s, %d"
                         % (r["descs"], len(r["scores"]), ref["descs"], len(ref["scores"])), cfg)
            return
        for k, (a, b) in enumerate(zip(ref["scores"], r["scores"])):
            d = diff_scores(a, b)
            if d:
                ck.violation(MULTI_SCORE_CASE, "file %d of %d: %s" % (k + 1, cfg["files"], d), cfg)
                return


def check_multi_file_timing(tier, seed):
    """two or three jointly analysed files: the training set of a fold is file1[idx1] + file2[idx2] (+ file3[idx3])
    whatever the order in which the per-file tasks of parse_in_chunks finish"""
    delays = ["later-first", None] + [1000 * seed + k for k in range(1 if tier == "quick" else 6)]
    data = _multi_data(seed)
    cfgs = []
    for files in (2, 3):
        fmts = ("csv",) if files == 2 else ("pq",)
        if tier != "quick":
            fmts = ("csv", "pq")
        for fmt in fmts:
            for w in (2, 4):
                for sleep in delays:
                    for chunk in (7, 64, 1000):
                        if tier == "quick" and chunk == 64 and sleep != "later-first":
                            continue
                        cfgs.append(dict(seed=seed, data=data, mode="parse", files=files, fmt=fmt, workers=w, sleep=sleep,
                                         chunk=chunk))
                    for est in ("lr", "perc"):
                        # the logistic regression is blind to the row order of its training set (differences of
                        # 1e-15 measured); PercolatorModel's cross-validation split is positional and is not
                        if sleep is None or (tier == "quick" and est == "lr" and (sleep != "later-first" or w == 4)):
                            continue
                        cfgs.append(dict(seed=seed, data=data, mode="brew", files=files, fmt=fmt, workers=w, sleep=sleep,
                                         est=est, consts={"read": 40} if files == 3 else {}))
    n_parse = sum(1 for c in cfgs if c["mode"] == "parse")
    ck = ClassCheck("multi_file_thread_timing", "mokapot.parsers.pin.parse_in_chunks, mokapot.brew.brew",
                    "%d runs of parse_in_chunks (3 training sets = seeded random 60 %% of every file in random order; "
                    "reading tasks of 7, 64 or 1000 rows) and %d runs of brew (3 folds, test_fdr 0.2, logistic-"
                    "regression Model and PercolatorModel(train_fdr=0.2); CHUNK_SIZE_READ_ALL_DATA 40 for 3 files) "
                    "on 2 files (200 + 140 PSMs%s) and 3 files (200 + 140 + 90 PSMs%s) analysed jointly, data seeds "
                    "%d + (1000 + %d) x file number, max_workers {2,4}; the per-file concat/reindex tasks sleep 80 ms x (files - 1 - file number) "
                    "(later files finish first) or a seeded U(0,120ms) (%d delay seed(s)), the chunk-reading tasks a "
                    "seeded U(0,8ms); parse_in_chunks also without delays; reference of each run: same files, format "
                    "and constants, 1 worker, no delays"
                    % (n_parse, len(cfgs) - n_parse, ", text" if tier == "quick" else ", text and Parquet",
                       ", Parquet" if tier == "quick" else ", text and Parquet", _brew_seed(seed), data, len(delays) - 2),
                    "parse_in_chunks: the returned frames are identical to the reference (same rows, same order, same "
                    "index and values); brew: the scores of every file within 1e-9; non-trivial = several threads "
                    "and the per-file tasks are delayed (for brew also: the reference keeps the learned model, so "
                    "that the training sets decide the scores; the scores of the logistic regression react to the "
                    "row order of a training set by 1e-15 only, those of PercolatorModel (positional cross-validation "
                    "split) by 0.1 and more)")
    rcfgs = []
    for c in cfgs:
        if _multi_ref(c) not in rcfgs:
            rcfgs.append(_multi_ref(c))
    refs = dict(zip([json.dumps(c, sort_keys=True) for c in rcfgs], _pool_map(run_multi, rcfgs)))
    # the reference itself must not depend on the size of the reading tasks
    for c in rcfgs:
        if c["mode"] == "parse" and c["chunk"] != 1000:
            a, b = refs[json.dumps(dict(c, chunk=1000), sort_keys=True)], refs[json.dumps(c, sort_keys=True)]
            ck.case(c, nontrivial=True)
            if "error" in a or "error" in b:
                ck.violation("reference-run-failed", repr(a.get("error", b.get("error"))), c)
            elif diff_frames(a["frames"], b["frames"]):
                ck.violation("multi-file-frames-depend-on-read", diff_frames(a["frames"], b["frames"])[1], c)
    for cfg, r in zip(cfgs, _pool_map(run_multi, cfgs)):
        ref = refs[json.dumps(_multi_ref(cfg), sort_keys=True)]
        ck.case(cfg, nontrivial=cfg["sleep"] is not None and (cfg["mode"] == "parse" or _learned(ref)))
        _judge_multi(ck, cfg, r, ref)
    return ck


# ------------------------------------------------------------------------------------------ (4) read_pin
def pin_table(seed):
    """60 PSMs, 5 features, an extra level column; two features have a missing value (first / last row)"""
    df = small_df(n_spec=30, dup=2, seed=seed, n_feat=5)
    df["ModifiedPeptide"] = ["m" + p for p in df["Peptide"]]
    df.loc[0, "f1"] = np.nan
    df.loc[len(df) - 1, "f3"] = np.nan
    return df


def describe(ds):
    sp = ds.spectra_dataframe
    return {"columns": list(ds.columns), "features": list(ds.feature_columns), "metadata": list(ds.metadata_columns),
            "levels": list(ds.level_columns), "spectrum": list(ds.spectrum_columns), "target": ds.target_column,
            "spectra_columns": list(sp.columns), "spectra_index": [int(i) for i in sp.index],
            "spectra_values": [[float(v) for v in row] for row in sp.values.tolist()]}


def run_read_pin(cfg):
    import pyarrow as pa
    import pyarrow.parquet as pq
    from mokapot.parsers.pin import read_pin
    df = pin_table(cfg["seed"])
    try:
        with scratch("c05p_") as d:
            if cfg["fmt"] == "csv":
                path = Path(d) / "in.pin"
                df.to_csv(path, sep="\t", index=False)
            else:
                path = Path(d) / "in.parquet"
                rg = {"pq1": 1, "pq3": 3, "pqn": len(df)}[cfg["fmt"]]
                pq.write_table(pa.Table.from_pandas(df, preserve_index=False), path, row_group_size=rg)
            with constants(cfg["consts"]):
                ds = read_pin([path], max_workers=cfg["workers"])[0]
            return {"desc": describe(ds)}
    except BaseException as e:
        return {"error": e if isinstance(e, Exception) else RuntimeError(repr(e))}


def check_read_pin(tier, seed):
    n = len(pin_table(seed))
    S = sizes(n)
    cfgs = []
    for fmt in FORMATS:
        for w in (1, 2, 4):
            for consts in [{}] + [{"rows": c} for c in S] + [{"cols": c} for c in (1, 2, 3, 4, 5, 7, 8, 9)] + \
                    [{"rows": r, "cols": c} for r, c in ((1, 1), (3, 2), (n - 1, 3), (2, 4), (n + 1, 4), (7, 1))]:
                if tier == "quick" and (w == 2 or fmt == "pqn") and fmt != "csv":
                    continue
                cfgs.append(dict(seed=seed, fmt=fmt, workers=w, consts=consts))
    ck = ClassCheck("read_pin_chunks", "mokapot.parsers.pin.read_pin",
               "%d runs on one table of %d PSMs x 5 features (2 with a missing value in the first / last row, seed "
               "%d): CHUNK_SIZE_ROWS_FOR_DROP_COLUMNS in {1,2,3,n-1,n,n+1}, CHUNK_SIZE_COLUMNS_FOR_DROP_COLUMNS in "
               "{1,2,3,4,5,7,8,9}, 6 pairs, max_workers {1,2,4}, text / Parquet row groups {1,3,n}; reference: "
               "text, 1 worker, default constants" % (len(cfgs), n, seed),
               "equal dataset description (columns, feature columns after dropping those with missing values, "
               "metadata/level/spectrum columns, spectra table incl. index); non-trivial = a constant below the "
               "table size (rows < n or cols < 8), another format or several workers")
    ref = run_read_pin(dict(seed=seed, fmt="csv", workers=1, consts={}))
    if "error" in ref:
        ck.violation("reference-run-failed", repr(ref["error"]), {})
        return ck
    if set(ref["desc"]["features"]) != {"f0", "f2", "f4"}:
        ck.violation("reference-run-unexpected", "features %s" % ref["desc"]["features"], {})
    for cfg, r in zip(cfgs, _pool_map(run_read_pin, cfgs)):
        k = cfg["consts"]
        ck.case(cfg, nontrivial=k.get("rows", n) < n or k.get("cols", 19) < 8 or cfg["fmt"] != "csv"
                or cfg["workers"] > 1)
        if "error" in r:
            ck.violation("read-pin-failed-%s" % type(r["error"]).__name__, repr(r["error"]), cfg)
            continue
        bad = [key for key in ref["desc"] if ref["desc"][key] != r["desc"][key]]
        if bad:
            tag = "+".join(sorted(k) or ["none"]) + ("+format" if cfg["fmt"] != "csv" else "") \
                + ("+workers" if cfg["workers"] > 1 else "")
            ck.violation("parsed-dataset-depends-on-%s" % tag, "differs in %s: %s vs %s"
                         % (bad, str(ref["desc"][bad[0]])[:120], str(r["desc"][bad[0]])[:120]), cfg)
    return ck


# ------------------------------------------------------------------------------------------ replay
def REPLAY(check_name, violation):
    inp = violation["input"]
    if isinstance(inp, str):
        inp = json.loads(inp)
    ck = ClassCheck(check_name, "", "", "")
    if check_name in ("confidence_chunks", "duplicates_same_vs_different_chunk", "tied_scores_chunks") or \
            (check_name == "thread_timing" and "est" not in inp):
        ref = run_confidence(dict(inp, consts={}, workers=1, fmt="csv", sleep=None))
        _judge_files(ck, inp, run_confidence(inp), ref.get("files", {}), "confidence")
    elif check_name in ("brew_chunks_workers_format", "thread_timing"):
        ref = run_brew(dict(inp, consts={}, workers=1, fmt="csv", sleep=None))
        _judge_brew(ck, inp, run_brew(inp), ref)
    elif check_name == "multi_file_thread_timing":
        ref = run_multi(dict(_multi_ref(inp), chunk=1000) if inp["mode"] == "parse" else _multi_ref(inp))
        _judge_multi(ck, inp, run_multi(inp), ref)
    elif check_name == "read_pin_chunks":
        ref = run_read_pin(dict(inp, consts={}, workers=1, fmt="csv"))
        r = run_read_pin(inp)
        if "error" in r or any(ref["desc"][k] != r["desc"][k] for k in ref["desc"]):
            ck.violation("differs", repr(r.get("error", "description differs")), inp)
    else:
        return {"violated": None, "note": "no replay for %s" % check_name}
    found = ck.result()["violations"]
    return {"violated": bool(found), "detail": found[:3]}


if __name__ == "__main__":
    a = args()
    np.random.seed(a.seed)
    emit([check_confidence_chunks(a.tier, a.seed), check_duplicates_across_chunks(a.tier, a.seed),
          check_tied_scores(a.tier, a.seed),
          check_brew(a.tier, a.seed), check_thread_timing(a.tier, a.seed),
          check_multi_file_timing(a.tier, a.seed), check_read_pin(a.tier, a.seed)],
         ["datasets are built without the PIN parser (harness.datasets.make_ds) except in read_pin_chunks",
          "max_workers is limited to {1,2,4}; thread schedules are perturbed by sleeps, not enumerated",
          "joint analysis of several files is exercised in multi_file_thread_timing only (2 and 3 files of different "
          "sizes); all other checks use one file",
          "the sweep of the brew constants uses a logistic-regression Model (3 iterations) for speed; the "
          "Percolator model is run over formats x workers and 7 settings of the brew constants",
          "prediction chunks smaller than the table are expected to fail with the known defect "
          "'%s' whenever a chunk lacks a fold" % KNOWN_EMPTY_FOLD,
          "posterior_error_prob: compared at 1e-7 where the score columns of the two runs are bitwise equal, at "
          "1e-4 where the scores differ in the last bits (text vs binary feature values, BLAS block sizes), because "
          "triqler's qvality fit amplifies 1-ulp score noise to 1e-8..1e-6; largest such PEP difference observed in "
          "this run: %.3g" % PEP_NOISE["max"]])
