"""C20 bounded stand-in: generated PepXML documents through mokapot.read_pepxml(..., to_df=True).

A document is described by a small JSON-able *spec* (files -> runs -> spectra -> hits); `render` turns it into
PepXML text, `expected` derives from the same spec - without looking at the parser - what the property statement
promises for every search hit.  Rows are matched to hits through the hit's calc_neutral_pep_mass, which the
generator makes unique inside a document (so no row order is demanded beyond what the statement says).
"""
import itertools
import json
import logging
import random
import re
import warnings

from harness.common import Check, args, emit
from harness.datasets import scratch

logging.disable(logging.CRITICAL)
warnings.filterwarnings("ignore")

PREFIX = "decoy_"
NS = "http://regis-web.systemsbiology.net/pepXML"
AA = "ACDEFGHIKLMNPQRSTVWY"
TARGET_ACC = ["sp|P1|A_HUMAN", "sp|Q9|B_HUMAN", "tr|A0|C_MOUSE", "xdecoy_1", "sp|decoy_|D", "Decoy_up", "T7"]
DECOY_ACC = ["decoy_sp|P1|A_HUMAN", "decoy_sp|Q9|B_HUMAN", "decoy_tr|A0|C_MOUSE", "decoy_", "decoy_decoy_9"]
SCORE_NAMES = ["hyperscore", "nextscore", "expect", "xcorr", "deltacn", "spscore", "pvalue", "ionscount"]
PERCOLATOR_NAMES = ["Percolator q-Value", "Percolator PEP", "Percolator SVMScore"]


# ----------------------------------------------------------------------------------------------- generator
def _score_value(rnd, kind):
    if kind == "plain":
        return "%.3f" % rnd.uniform(-20, 60)
    if kind == "pos":
        return "%.4f" % rnd.uniform(0.5, 90)
    if kind == "sci":
        return "%.3e" % rnd.uniform(0.5, 90)
    if kind == "pval":
        return "%.3e" % (10 ** rnd.uniform(-12, 0))
    if kind == "mixed":
        return ("%.3e" if rnd.random() < 0.5 else "%.6f") % (10 ** rnd.uniform(-5, 1))
    if kind == "count":
        return str(rnd.choice([0, 0, 1, 3, 17, 250, 40000, 900000]))
    if kind == "binary":
        return str(rnd.choice([0, 1]))
    raise ValueError(kind)


SCORE_KINDS = ["plain", "pos", "sci", "pval", "mixed", "count", "binary"]


def _hit(rnd, uid, opt, scores, n_mods=None, alts=None, prot=None, pep=None):
    pep = pep or "".join(rnd.choice(AA) for _ in range(rnd.randint(3, 9) if rnd.random() < 0.5
                                                       else rnd.randint(10, 25)))
    if n_mods is None:
        n_mods = rnd.randint(0, min(4, len(pep)))
    pos = sorted(rnd.sample(range(1, len(pep) + 1), n_mods))
    mods = [[p, rnd.choice(["357.2579", "160.0307", "147.0354", "15.99", "115", "1045.123456", "0.984"])]
            for p in pos]
    if prot is None:
        prot = rnd.choice(TARGET_ACC + DECOY_ACC)
    if alts is None:
        alts = [rnd.choice(TARGET_ACC + DECOY_ACC) for _ in range(rnd.randint(0, 2))]
    h = {"pep": pep, "prot": prot, "alts": list(alts), "mods": mods,
         "calc": "%.4f" % (400 + 7.25 * uid + rnd.randint(0, 7000) / 1000.0),
         "scores": {n: _score_value(rnd, k) for n, k in scores}}
    if opt.get("descr"):
        h["descr"] = rnd.choice(["Placenta-specific protein 1 OS=Homo sapiens", "decoy_ of something", "x"])
    if opt.get("nmc"):
        h["nmc"] = rnd.randint(0, 2)
    if opt.get("ntt"):
        h["ntt"] = rnd.randint(0, 2)
    if opt.get("nmp"):
        h["nmp"] = rnd.choice([1, 7, 120, 3000, 250000])
    return h


def random_spec(seed, i, percolator=False):
    rnd = random.Random("c20-%d-%d" % (seed, i))
    opt = {k: rnd.random() < 0.5 for k in ("ns", "descr", "nmc", "ntt", "nmp", "modpep", "extras", "split")}
    names = rnd.sample(SCORE_NAMES, rnd.randint(0, 4))
    scores = [(n, rnd.choice(SCORE_KINDS)) for n in names]
    if percolator:
        scores.insert(rnd.randint(0, len(scores)), (rnd.choice(PERCOLATOR_NAMES), "pos"))
    uid = itertools.count()
    files = []
    n_files = rnd.choice([1, 1, 2])
    run_no = 0
    for _f in range(n_files):
        runs = []
        for _r in range(rnd.randint(1, 2)):
            run_no += 1
            ext = rnd.choice([".mzML", ".mzXML", ".raw"])
            run = {"file": "run%d_%s%s" % (run_no, rnd.choice("abc"), ext), "ext": ext,
                   "base_has_ext": rnd.random() < 0.3, "spectra": []}
            scans = rnd.sample(range(1, 5000), 3)
            for s in range(rnd.randint(1, 3)):
                sp = {"scan": scans[s], "z": rnd.randint(1, 5),
                      "rt": rnd.choice(["%.3f" % rnd.uniform(0, 7000), str(rnd.randint(0, 7000))]),
                      "mass": "%.4f" % rnd.uniform(400, 4000), "hits": []}
                for _h in range(rnd.randint(1, 3)):
                    sp["hits"].append(_hit(rnd, next(uid), opt, scores))
                run["spectra"].append(sp)
            runs.append(run)
        files.append(runs)
    return {"opt": opt, "files": files}


def multi_spec(seed, i, percolator_at=None):
    """2..3 files for ONE read_pepxml call whose search-score sets differ between the files (uniform inside a file):
    at least one score name is reported by only some of the files.  percolator_at in {first, middle, last} makes the
    file at that list position a Percolator product (1..3 of the Percolator score names next to its own scores);
    "middle" forces 3 files."""
    rnd = random.Random("c20multi-%d-%d-%s" % (seed, i, percolator_at))
    opt = {k: rnd.random() < 0.5 for k in ("ns", "descr", "nmc", "ntt", "nmp", "modpep", "extras", "split")}
    n_files = 3 if percolator_at == "middle" else rnd.choice([2, 2, 3])
    pool = rnd.sample(SCORE_NAMES, rnd.randint(1, 5))
    kind = {n: rnd.choice(SCORE_KINDS) for n in pool}
    sets = [[n for n in pool if rnd.random() < 0.6] for _f in range(n_files)]
    if percolator_at is None and all(set(s) == set(sets[0]) for s in sets):
        # make them differ: one score of the pool reported by exactly one file
        n = rnd.choice(pool)
        only = rnd.randrange(n_files)
        sets = [[m for m in s if m != n] + ([n] if f == only else []) for f, s in enumerate(sets)]
    for s in sets:
        rnd.shuffle(s)
    perc_file = {None: None, "first": 0, "middle": 1, "last": n_files - 1}[percolator_at]
    uid = itertools.count()
    files = []
    run_no = 0
    for f in range(n_files):
        scores = [(n, kind[n]) for n in sets[f]]
        if f == perc_file:
            for n in rnd.sample(PERCOLATOR_NAMES, rnd.randint(1, 3)):
                scores.insert(rnd.randint(0, len(scores)), (n, "pos"))
        runs = []
        for _r in range(rnd.choice([1, 1, 2])):
            run_no += 1
            ext = rnd.choice([".mzML", ".mzXML", ".raw"])
            run = {"file": "run%d_%s%s" % (run_no, rnd.choice("abc"), ext), "ext": ext,
                   "base_has_ext": rnd.random() < 0.3, "spectra": []}
            scans = rnd.sample(range(1, 5000), 3)
            for s in range(rnd.randint(1, 3)):
                sp = {"scan": scans[s], "z": rnd.randint(1, 5),
                      "rt": rnd.choice(["%.3f" % rnd.uniform(0, 7000), str(rnd.randint(0, 7000))]),
                      "mass": "%.4f" % rnd.uniform(400, 4000), "hits": []}
                for _h in range(rnd.randint(1, 3)):
                    sp["hits"].append(_hit(rnd, next(uid), opt, scores))
                run["spectra"].append(sp)
            runs.append(run)
        files.append(runs)
    return {"opt": opt, "files": files}


def _file_score_sets(spec):
    """per file: the set of search-score names its hits report"""
    return [{n for run in runs for sp in run["spectra"] for h in sp["hits"] for n in h["scores"]}
            for runs in spec["files"]]


def grid_specs():
    """Exhaustive single-hit documents: every target/decoy pattern over the primary and 0..2 alternative proteins
    x every set of 0..3 modified positions of a 4-residue peptide."""
    pep = "MKCR"
    for n_alt in range(3):
        for pat in itertools.product("TD", repeat=1 + n_alt):
            for k in range(4):
                for pos in itertools.combinations(range(1, 5), k):
                    accs = [(TARGET_ACC if c == "T" else DECOY_ACC)[j] for j, c in enumerate(pat)]
                    masses = ["147.0354", "357.2579", "160.03", "9"]
                    hit = {"pep": pep, "prot": accs[0], "alts": accs[1:], "calc": "500.1234",
                           "mods": [[p, masses[j]] for j, p in enumerate(pos)],
                           "scores": {"hyperscore": "14.534", "expect": "1.768e+00"}, "nmc": 1}
                    sp = {"scan": 8, "z": 2, "rt": "123.372", "mass": "989.6051", "hits": [hit]}
                    run = {"file": "grid.mzXML", "ext": ".mzXML", "base_has_ext": False, "spectra": [sp]}
                    yield {"opt": {"ns": True, "nmc": True}, "files": [[run]]}
    # every pair and a spread of triples of modified positions of a 12-residue peptide (multi-digit positions)
    pep = "ACDEFGHIKLMN"
    combos = list(itertools.combinations(range(1, 13), 2)) + \
        [c for c in itertools.combinations(range(1, 13), 3) if c[0] in (1, 2, 9) and c[2] >= 10]
    for pos in combos:
        masses = ["147.0354", "357.2579", "9"]
        hit = {"pep": pep, "prot": TARGET_ACC[0], "alts": [], "calc": "1500.1234",
               "mods": [[p, masses[j]] for j, p in enumerate(pos)],
               "scores": {"hyperscore": "14.534", "expect": "1.768e+00"}, "nmc": 1}
        sp = {"scan": 9, "z": 2, "rt": "123.372", "mass": "1989.6051", "hits": [hit]}
        run = {"file": "grid.mzXML", "ext": ".mzXML", "base_has_ext": False, "spectra": [sp]}
        yield {"opt": {"ns": True, "nmc": True}, "files": [[run]]}


# ------------------------------------------------------------------------------- run data-file names
# A run states its data file in two attributes: base_name (the file name minus the extension) and raw_data (the
# extension).  "The run's data-file name" is base_name followed by raw_data, unless base_name already ends with
# raw_data (then it is base_name itself).  Runs of the specs below carry explicit "base"/"raw" keys.
NAME_DIRS = ["", "/data/", "/data.v2/x.y/", "../raw.files/", "D:\\data.dir\\", "C:\\proj\\"]
NAME_PLAIN = ["run1", "sample_A", "QEx-2019"]
NAME_DOTTED = ["sample.rep2", "20190420_v1.5_frac3", "a.b.c", "run.1", ".hidden", "frac3.raw.orig"]
NAME_EXT_DOT = [".mzML", ".mzXML", ".raw", ".RAW", ".mzml", ".d", ".wiff"]
NAME_EXT_BARE = ["mzML", "raw", "MGF"]
NAME_FORMS = ["bare", "with-ext", "with-ext-other-case", "with-other-ext"]


def _swapcase_ext(ext):
    return ext.upper() if ext != ext.upper() else ext.lower()


def name_base(dir_, stem, form, ext):
    """base_name of a run: dir + stem (+ a trailing extension, depending on form)."""
    dotted = ext if ext.startswith(".") else "." + ext
    if form == "with-ext":
        return dir_ + stem + dotted
    if form == "with-ext-other-case":
        return dir_ + stem + _swapcase_ext(dotted)
    if form == "with-other-ext":
        return dir_ + stem + (".mgf" if dotted.lower() != ".mgf" else ".ms2")
    return dir_ + stem


def data_file_names(base, raw):
    """(the data-file name by the rule above, the set of names accepted).  The set is larger than one name only
    where the statement leaves room: raw_data written without its leading dot (the name with the dot put in is
    accepted as well) and a base_name that ends with raw_data up to letter case (base_name itself is accepted)."""
    strict = base if base.endswith(raw) else base + raw
    ok = {strict}
    if not raw.startswith("."):
        ok.add(base if base.endswith("." + raw) else base + "." + raw)
    if base.lower().endswith(raw.lower()):
        ok.add(base)
    return strict, ok


def name_class(base, raw):
    """stable class id of a base_name / raw_data combination (used in violation case ids)."""
    last = re.split(r"[/\\]", base)[-1]
    dirs = base[: len(base) - len(last)]
    if base.endswith(raw):
        cls = "base-ends-with-raw-data"
    elif base.lower().endswith(raw.lower()):
        cls = "base-ends-with-raw-data-other-case"
    elif "." in last:
        cls = "dot-in-last-component"
    elif "." in dirs.replace("../", "").replace("./", ""):
        cls = "dot-in-directory-only"
    else:
        cls = "plain-base"
    return cls + ("" if raw.startswith(".") else ":raw-data-without-dot")


def _name_run(base, raw, uid, rnd=None, opt=None, scores=None):
    """a run with explicit base_name/raw_data; 1 spectrum x 1 hit (grid) or 1..2 x 1..2 (random)."""
    run = {"base": base, "raw": raw, "spectra": []}
    if rnd is None:
        k = next(uid)
        hit = {"pep": "MKCR", "prot": TARGET_ACC[k % 3], "alts": [], "calc": "%.4f" % (500.1234 + 3.5 * k),
               "mods": [], "scores": {"hyperscore": "%.3f" % (14.5 + k), "expect": "1.768e+00"}, "nmc": 1}
        run["spectra"].append({"scan": 8 + k, "z": 2 + k % 2, "rt": "%.3f" % (123.372 + k),
                               "mass": "%.4f" % (989.6051 + k), "hits": [hit]})
        return run
    scans = rnd.sample(range(1, 5000), 2)
    for s in range(rnd.randint(1, 2)):
        sp = {"scan": scans[s], "z": rnd.randint(1, 4), "rt": "%.3f" % rnd.uniform(0, 7000),
              "mass": "%.4f" % rnd.uniform(400, 4000), "hits": []}
        for _h in range(rnd.randint(1, 2)):
            sp["hits"].append(_hit(rnd, next(uid), opt, scores))
        run["spectra"].append(sp)
    return run


def name_grid_specs(per_doc=8):
    """Exhaustive: every directory x stem x base form x raw_data value of the NAME_* tables, one run each, packed
    per_doc runs to a document in a fixed shuffled order."""
    combos = [(dr, st, fm, ex) for ex in NAME_EXT_DOT + NAME_EXT_BARE for fm in NAME_FORMS
              for st in NAME_PLAIN + NAME_DOTTED for dr in NAME_DIRS]
    # fixed shuffle, so that one document mixes extensions, forms, stems and directories
    order = list(combos)
    random.Random("c20-name-grid").shuffle(order)
    n = len(order)
    for a in range(0, n, per_doc):
        uid = itertools.count()
        runs = [_name_run(name_base(dr, st, fm, ex), ex, uid) for dr, st, fm, ex in order[a:a + per_doc]]
        yield {"opt": {"ns": bool((a // per_doc) % 2), "nmc": True}, "files": [runs]}


def name_spec(seed, i):
    """random: 1..2 files x 1..4 runs, every run with its own base_name / raw_data combination: random directory
    (POSIX, Windows, dotted or not), stem of 1..4 tokens joined by dots, one of the 4 base forms, raw_data from the
    tables or a random 1..5 letter extension in random case, with or without its leading dot."""
    rnd = random.Random("c20name-%d-%d" % (seed, i))
    opt = {k: rnd.random() < 0.5 for k in ("ns", "descr", "nmc", "ntt", "nmp", "modpep", "extras", "split")}
    scores = [(n, rnd.choice(SCORE_KINDS)) for n in rnd.sample(SCORE_NAMES, rnd.randint(0, 3))]
    uid = itertools.count()
    files = []
    for _f in range(rnd.choice([1, 1, 2])):
        runs = []
        for _r in range(rnd.randint(1, 4)):
            sep = rnd.choice(["/", "/", "\\"])
            parts = [rnd.choice(["data", "data.dir", "2019.04.20", "raw", "v1.5", "exp_7", "my files"])
                     for _ in range(rnd.randint(0, 3))]
            dir_ = "".join(p + sep for p in parts)
            if parts and rnd.random() < 0.5:
                dir_ = ("D:\\" if sep == "\\" else "/") + dir_
            toks = [rnd.choice(["sample", "rep2", "v1", "5", "frac3", "20190420", "QE", "b", "raw", "mzML", "01"])
                    for _ in range(rnd.choice([1, 1, 2, 2, 3, 4]))]
            stem = rnd.choice([".", "_", "."]).join(toks) if len(toks) == 2 else ".".join(toks)
            if rnd.random() < 0.6:
                ext = rnd.choice(NAME_EXT_DOT + NAME_EXT_BARE)
            else:
                ext = "".join(rnd.choice("abdflmrwxzMLXRD5") for _ in range(rnd.randint(1, 5)))
                if rnd.random() < 0.75:
                    ext = "." + ext
            form = rnd.choice(NAME_FORMS + ["bare", "bare"])
            runs.append(_name_run(name_base(dir_, stem, form, ext), ext, uid, rnd, opt, scores))
        files.append(runs)
    return {"opt": opt, "files": files}


def _run_base_raw(run):
    if "base" in run:
        return run["base"], run["raw"]
    return (run["file"] if run["base_has_ext"] else run["file"][:-len(run["ext"])]), run["ext"]


def _attrs(d):
    def esc(v):
        return str(v).replace("&", "&amp;").replace("<", "&lt;").replace('"', "&quot;")
    return " ".join('%s="%s"' % (k, esc(v)) for k, v in d.items())


def render(spec, file_no):
    """PepXML text of one file of the spec."""
    opt = spec["opt"]
    out = ['<?xml version="1.0" encoding="UTF-8"?>']
    if opt.get("ns"):
        out.append('<msms_pipeline_analysis date="2018-11-29T15:10:44" xmlns="%s" summary_xml="x.pepXML">' % NS)
    else:
        out.append('<msms_pipeline_analysis date="2018-11-29T15:10:44" summary_xml="x.pepXML">')
    index = 0
    for run in spec["files"][file_no]:
        base, raw = _run_base_raw(run)
        out.append('<msms_run_summary %s>' % _attrs({"base_name": base, "raw_data_type": "raw", "raw_data": raw}))
        if opt.get("extras"):
            out.append('<sample_enzyme name="Trypsin"><specificity cut="KR" no_cut="P" sense="C"/></sample_enzyme>')
            out.append('<search_summary %s><search_database local_path="/db.fas" type="AA"/>'
                       '<aminoacid_modification aminoacid="C" massdiff="57.0215" mass="160.0307" variable="N"/>'
                       '</search_summary>' % _attrs({"base_name": base, "search_engine": "X! Tandem", "search_id": 1}))
        for sp in run["spectra"]:
            index += 1
            a = {"start_scan": sp["scan"], "assumed_charge": sp["z"],
                 "spectrum": "%s.%d.%d.%d" % (base, sp["scan"], sp["scan"], sp["z"]), "end_scan": sp["scan"],
                 "index": index, "precursor_neutral_mass": sp["mass"], "retention_time_sec": sp["rt"]}
            out.append("<spectrum_query %s>" % _attrs(a))
            hits = sp["hits"]
            groups = [hits]
            if opt.get("split") and len(hits) >= 2:
                groups = [hits[:1], hits[1:]]
            rank = 0
            for g in groups:
                out.append("<search_result>")
                for h in g:
                    rank += 1
                    prot = h["prot"] + (" " + h["descr"] if "descr" in h else "")
                    a = {"peptide": h["pep"], "massdiff": "0.0230", "calc_neutral_pep_mass": h["calc"]}
                    if opt.get("extras"):
                        a.update({"peptide_next_aa": "S", "peptide_prev_aa": "K", "is_rejected": 0,
                                  "num_tot_proteins": 1 + len(h["alts"]), "tot_num_ions": 12, "num_matched_ions": 7})
                    if "nmc" in h:
                        a["num_missed_cleavages"] = h["nmc"]
                    if "ntt" in h:
                        a["num_tol_term"] = h["ntt"]
                    if "nmp" in h:
                        a["num_matched_peptides"] = h["nmp"]
                    a["hit_rank"] = rank
                    a["protein"] = prot
                    out.append("<search_hit %s>" % _attrs(a))
                    body = []
                    for alt in h["alts"]:
                        body.append("<alternative_protein %s/>" % _attrs(
                            {"protein": alt + (" " + h["descr"] if "descr" in h else "")}))
                    if h["mods"]:
                        ma = {}
                        if opt.get("modpep"):
                            ma["modified_peptide"] = h["pep"]
                        m = "<modification_info %s>" % _attrs(ma) if ma else "<modification_info>"
                        m += "".join("<mod_aminoacid_mass %s/>" % _attrs({"mass": mass, "position": p})
                                     for p, mass in h["mods"])
                        body.append(m + "</modification_info>")
                    elif opt.get("modpep") and opt.get("extras"):
                        body.append("<modification_info/>")       # present but empty
                    scores = ["<search_score %s/>" % _attrs({"name": n, "value": v}) for n, v in h["scores"].items()]
                    if opt.get("extras"):        # alternative proteins after the scores (element order is free)
                        body = body[len(h["alts"]):] + scores + body[:len(h["alts"])]
                    else:
                        body += scores
                    out.extend(body)
                    out.append("</search_hit>")
                out.append("</search_result>")
            out.append("</spectrum_query>")
        out.append("</msms_run_summary>")
    out.append("</msms_pipeline_analysis>")
    return "\n".join(out) + "\n"


# ----------------------------------------------------------------------------------------------- oracle
def expected(spec):
    """One record per search hit, straight from the property statement."""
    recs = []
    for runs in spec["files"]:
        for run in runs:
            if "base" in run:       # explicit base_name / raw_data: the name follows from the two attributes
                file_, files_ok = data_file_names(run["base"], run["raw"])
                file_case = "data-file-name:" + name_class(run["base"], run["raw"])
            else:
                file_, files_ok, file_case = run["file"], {run["file"]}, "ms-data-file"
            for sp in run["spectra"]:
                for h in sp["hits"]:
                    prots = [h["prot"]] + list(h["alts"])
                    recs.append({"file": file_, "files_ok": files_ok, "file_case": file_case, "scan": sp["scan"], "z": sp["z"], "rt": float(sp["rt"]),
                                 "mass": float(sp["mass"]), "calc": float(h["calc"]), "pep": h["pep"],
                                 "mods": h["mods"], "prots": prots,
                                 "decoy": all(p.startswith(PREFIX) for p in prots), "scores": h["scores"]})
    return recs


_TOKEN = re.compile(r"\[([^\[\]]*)\]|([^\[\]])")


def peptide_problem(got, pep, mods):
    """None if `got` is `pep` with "[mass_j]" directly after residue p_j (1-based) for every listed modification."""
    if not isinstance(got, str):
        return "peptide is %r" % (got,)
    residues, groups = 0, []
    pos_ = 0
    for m in _TOKEN.finditer(got):
        if m.start() != pos_:
            return "unbalanced brackets in %r" % got
        pos_ = m.end()
        if m.group(2) is not None:
            residues += 1
        else:
            groups.append((residues, m.group(1)))
    if pos_ != len(got):
        return "unbalanced brackets in %r" % got
    if re.sub(r"\[[^\[\]]*\]", "", got) != pep:
        return "removing the bracket groups of %r does not give %r" % (got, pep)
    if len(groups) != len(mods):
        return "%d bracket groups for %d modifications in %r" % (len(groups), len(mods), got)
    for (after, text), (p, mass) in zip(groups, mods):
        if after != p:
            return "modification of residue %d placed after residue %d in %r" % (p, after, got)
        try:
            same = float(text) == float(mass)
        except ValueError:
            same = False
        if not same:
            return "modification mass %s rendered as %r in %r" % (mass, text, got)
    return None


def check_doc(spec, d, tag="doc"):
    """Run read_pepxml on the rendered spec; return a list of (case, what)."""
    import numpy as np
    from mokapot.parsers.pepxml import read_pepxml
    paths = []
    for k in range(len(spec["files"])):
        p = d / ("%s_%d.pep.xml" % (tag, k))
        p.write_text(render(spec, k))
        paths.append(str(p))
    try:
        df = read_pepxml(paths if len(paths) > 1 else paths[0], decoy_prefix=PREFIX, to_df=True)
    except Exception as e:  # a well-formed document must parse
        return [("parse-fails:" + type(e).__name__, "read_pepxml raised %s: %s" % (type(e).__name__, str(e)[:150]))]
    finally:
        for p in paths:
            try:
                import os
                os.unlink(p)
            except OSError:
                pass
    exp = expected(spec)
    bad = []
    need = ["ms_data_file", "scan", "charge", "ret_time", "exp_mass", "calc_mass", "peptide", "proteins", "label"]
    missing = [c for c in need if c not in df.columns]
    if missing:
        return [("column-missing", "result lacks %s" % missing)]
    if len(df) != len(exp):
        bad.append(("psm-count", "%d rows for %d search hits" % (len(df), len(exp))))
    by_key = {}
    for r in exp:
        by_key.setdefault(r["calc"], []).append(r)
    seen = {}
    charge_cols = [c for c in df.columns if re.fullmatch(r"charge_-?\d+", str(c))]
    rows = df.reset_index(drop=True)
    for i in range(len(rows)):
        row = rows.iloc[i]
        key = float(row["calc_mass"])
        if key not in by_key:
            bad.append(("psm-unknown", "row %d (calc_mass %r) corresponds to no search hit" % (i, key)))
            continue
        seen[key] = seen.get(key, 0) + 1
        r = by_key[key][0]
        r["_row"] = i
        if str(row["ms_data_file"]) not in r["files_ok"]:
            bad.append((r["file_case"], "file %r, expected %r" % (str(row["ms_data_file"]), r["file"])))
        if int(row["scan"]) != r["scan"]:
            bad.append(("scan", "scan %r, expected %r" % (row["scan"], r["scan"])))
        if int(row["charge"]) != r["z"]:
            bad.append(("charge", "charge %r, expected %r" % (row["charge"], r["z"])))
        if float(row["ret_time"]) != r["rt"]:
            bad.append(("ret-time", "ret_time %r, expected %r" % (row["ret_time"], r["rt"])))
        if float(row["exp_mass"]) != r["mass"]:
            bad.append(("precursor-mass", "exp_mass %r, expected %r" % (row["exp_mass"], r["mass"])))
        prob = peptide_problem(row["peptide"], r["pep"], r["mods"])
        if prob:
            bad.append(("modification-insertion" if r["mods"] else "peptide", prob))
        got_prots = str(row["proteins"]).split("\t")
        if sorted(got_prots) != sorted(r["prots"]):
            bad.append(("proteins", "proteins %r, expected %r" % (got_prots, r["prots"])))
        if bool(row["label"]) != (not r["decoy"]):
            kinds = "".join("D" if p.startswith(PREFIX) else "T" for p in r["prots"])
            bad.append(("label-%s" % ("mixed-proteins" if len(set(kinds)) > 1 else "uniform-proteins"),
                        "proteins %s (%s) labelled %s" % (r["prots"], kinds, "target" if row["label"] else "decoy")))
        # charge one-hot consistent with assumed_charge
        want = "charge_%d" % r["z"]
        if want not in charge_cols:
            bad.append(("charge-onehot", "no column %s" % want))
        for c in charge_cols:
            v = row[c]
            if float(v) != (1.0 if c == want else 0.0):
                bad.append(("charge-onehot", "%s = %r for assumed_charge %d" % (c, v, r["z"])))
    for key, rs in by_key.items():
        if seen.get(key, 0) != 1:
            bad.append(("psm-count", "search hit with calc mass %r became %d PSMs" % (key, seen.get(key, 0))))
    # search scores: numeric columns, the value of a row derived from THAT hit's score (rank-preserving)
    # A score that only some hits report (files with differing score sets) must still be a column; the statement
    # says nothing about its value in the rows of hits that do not report it, so those rows are not looked at.
    names = []
    for r in exp:
        names += [n for n in r["scores"] if n not in names]
    for n in names:
        partial = any(n not in r["scores"] for r in exp)
        if n not in rows.columns:
            if partial:
                bad.append(("score-of-some-files-missing", "search score %r, reported by %d of the %d hits, is not "
                            "a column" % (n, sum(n in r["scores"] for r in exp), len(exp))))
            else:
                bad.append(("score-missing", "search score %r is not a column" % n))
            continue
        col = rows[n]
        if not (np.issubdtype(col.dtype, np.number) or col.dtype == bool):
            bad.append(("score-not-numeric", "search score column %r has dtype %s" % (n, col.dtype)))
            continue
        vals = np.asarray(col, dtype=float)
        without = [r["_row"] for r in exp if "_row" in r and n not in r["scores"]]
        own = np.delete(vals, without) if without else vals
        if not np.isfinite(own).all():
            bad.append(("score-not-numeric", "search score column %r has non-finite values %r%s"
                        % (n, own.tolist(), " in the rows of the hits that report it" if partial else "")))
            continue
        pairs = [(float(r["scores"][n]), vals[r["_row"]]) for r in exp
                 if "_row" in r and n in r["scores"] and float(r["scores"][n]) != 0]
        pairs.sort()
        for (a0, b0), (a1, b1) in zip(pairs, pairs[1:]):
            if (a0 < a1 and b0 > b1) or (a0 == a1 and b0 != b1):
                bad.append(("score-misassigned", "score %r: raw %r -> %r but raw %r -> %r" % (n, a0, b0, a1, b1)))
                break
    return bad


def _nontrivial(spec):
    hits = [h for runs in spec["files"] for run in runs for sp in run["spectra"] for h in sp["hits"]]
    return (any(len(h["mods"]) >= 2 or h["alts"] for h in hits)
            or len(spec["files"]) > 1 or any(len(runs) > 1 for runs in spec["files"]))


def _payload(gen, seed, i, spec):
    p = {"gen": gen, "seed": seed, "i": i, "spec": spec}
    if len(json.dumps(p)) > 1900:
        p.pop("spec")
    return p


# ----------------------------------------------------------------------------------------------- checks
def check_hits(tier, seed):
    n = 350 if tier == "quick" else 6000
    n_multi = 120 if tier == "quick" else 2000
    ck = Check("pepxml_hits", "mokapot.parsers.pepxml.read_pepxml",
               "exhaustive: 1-hit documents, all 14 target/decoy patterns over primary + 0..2 alternative proteins x "
               "all 15 sets of 0..3 modified positions of a 4-residue peptide (210 documents), all 66 pairs and 54 "
               "triples (first in {1,2,9}, last >= 10) of modified positions of a 12-residue peptide; random: %d "
               "documents with seed %d: 1..2 files x 1..2 runs x 1..3 spectra x 1..3 hits, peptides of 3..25 "
               "residues, 0..4 modifications at ascending positions, 0..2 alternative proteins, 0..4 search scores of 7 value kinds, "
               "optional attributes/elements/namespace present or absent, the same score names in every file of a "
               "document; random: %d multi-file inputs with seed %d: 2..3 files x 1..2 runs x 1..3 spectra x 1..3 hits "
               "read in one call, every file with its own subset (0..5 names) of a pool of 1..5 search scores, at "
               "least one score reported by only some of the files" % (n, seed, n_multi, seed),
               "spec -> PepXML text -> read_pepxml(to_df=True); oracle derived from the spec (rows matched to hits by "
               "the unique calc mass; a score must be a numeric column, finite and rank-preserving over the hits that "
               "report it, nothing is demanded of it in the rows of the other hits); non-trivial = some hit has >= 2 "
               "modifications or an alternative protein, or the document has several runs/files")
    with scratch("c20_") as d:
        for i, spec in enumerate(grid_specs()):
            ck.case(("grid", i, spec["files"][0][0]["spectra"][0]["hits"][0]), nontrivial=_nontrivial(spec))
            for case, what in check_doc(spec, d):
                ck.violation(case, what, _payload("grid", 0, i, spec))
        for i in range(n):
            spec = random_spec(seed, i)
            ck.case(("random", seed, i), nontrivial=_nontrivial(spec))
            for case, what in check_doc(spec, d):
                ck.violation(case, what, _payload("random", seed, i, spec))
        for i in range(n_multi):
            spec = multi_spec(seed, i)
            sets = _file_score_sets(spec)
            assert any(s != sets[0] for s in sets)
            ck.case(("multi", seed, i), nontrivial=True)
            for case, what in check_doc(spec, d):
                ck.violation(case, what, _payload("multi", seed, i, spec))
    return ck


def _name_classes(spec):
    return {name_class(*_run_base_raw(run)) for runs in spec["files"] for run in runs}


def check_run_names(tier, seed):
    n = 150 if tier == "quick" else 3000
    grid = list(name_grid_specs())
    n_runs = sum(len(sp["files"][0]) for sp in grid)
    ck = Check("pepxml_run_names", "mokapot.parsers.pepxml.read_pepxml",
               "exhaustive: %d runs = %d directories (none, POSIX, Windows, with and without dots) x %d stems (%d "
               "without dot, %d with dots in the last path component) x %d base forms (bare, ending with raw_data, "
               "ending with raw_data in the other letter case, ending with another extension) x %d raw_data values (%d "
               "with leading dot in upper/lower/mixed case, %d without leading dot), 8 runs per document in a fixed "
               "shuffled order (%d documents, 1 spectrum x 1 hit per run); random: %d documents with "
               "seed %d: 1..2 files x 1..4 runs x 1..2 spectra x 1..2 hits, every run with its own random "
               "directory (0..3 components, dotted or not, / or \\ separators), stem of 1..4 tokens joined by dots (two tokens: . or _), base "
               "form and raw_data (table value or random 1..5 characters, 75%% with leading dot)"
               % (n_runs, len(NAME_DIRS), len(NAME_PLAIN + NAME_DOTTED), len(NAME_PLAIN), len(NAME_DOTTED),
                  len(NAME_FORMS), len(NAME_EXT_DOT + NAME_EXT_BARE), len(NAME_EXT_DOT), len(NAME_EXT_BARE),
                  len(grid), n, seed),
               "spec -> PepXML text -> read_pepxml(to_df=True); every PSM must carry its run's data-file name = "
               "base_name followed by raw_data unless base_name already ends with raw_data (where raw_data has no "
               "leading dot the name with the dot put in is accepted too, where base_name ends with raw_data only up to "
               "letter case base_name itself is accepted too); all other columns checked as in pepxml_hits; "
               "non-trivial = some run's base_name has a dot (in its last component or a directory) that does not belong "
               "to a trailing raw_data, or the document has runs of >= 2 different combination classes")
    with scratch("c20n_") as d:
        for i, spec in enumerate(grid):
            cls = _name_classes(spec)
            ck.case(("name-grid", i), nontrivial=len(cls) > 1 or any(c.startswith("dot-") for c in cls))
            for case, what in check_doc(spec, d):
                ck.violation(case, what, _payload("name-grid", 0, i, spec))
        for i in range(n):
            spec = name_spec(seed, i)
            cls = _name_classes(spec)
            ck.case(("name-random", seed, i), nontrivial=len(cls) > 1 or any(c.startswith("dot-") for c in cls))
            for case, what in check_doc(spec, d):
                ck.violation(case, what, _payload("name-random", seed, i, spec))
    return ck


REJECT_TEXTS = {
    "tsv": "Blah\tblah\tblah\nblah\tblah\tblah\n",
    "empty": "",
    "pin": "SpecId\tLabel\tScanNr\tf0\tPeptide\tProteins\na\t1\t2\t0.5\tK.AAA.R\tprot1\n",
    "truncated-xml": None,      # first half of a valid document
    "garbage-after-root": None,  # valid document followed by text
    "json": '{"msms_pipeline_analysis": []}',
}
# well-formed XML of another kind: the statement only promises "an error", any exception type is accepted here
FOREIGN_XML = {
    "foreign-xml-html": '<?xml version="1.0"?><html><body>x</body></html>',
    "foreign-xml-mzml": '<?xml version="1.0"?><mzML xmlns="http://psi.hupo.org/ms/mzml"><run id="r"><spectrumList '
                        'count="0"/></run></mzML>',
    "foreign-xml-no-runs": '<?xml version="1.0"?><msms_pipeline_analysis summary_xml="x"></msms_pipeline_analysis>',
}


POSITIONS = ["first", "middle", "last"]


def _reject_case(kind, seed, i, d, pos=None):
    """returns the exception raised by read_pepxml on the input (None if it was accepted).
    pos in POSITIONS: a LIST of files is read in one call; the offending file (Percolator product / non-PepXML text)
    stands at that position among ordinary PepXML files (whose score sets may differ from each other's and from the
    Percolator file's)."""
    from mokapot.parsers.pepxml import read_pepxml
    files = []
    if pos is not None and kind == "percolator":
        spec = multi_spec(seed, i, percolator_at=pos)
        for k in range(len(spec["files"])):
            p = d / ("rej_%d.pep.xml" % k)
            p.write_text(render(spec, k))
            files.append(str(p))
    elif pos is not None:
        spec = multi_spec(seed, i)
        goods = [render(spec, k) for k in range(2)]
        if kind in FOREIGN_XML:
            text = FOREIGN_XML[kind]
        elif kind == "truncated-xml":
            text = goods[0][: len(goods[0]) // 2]
        elif kind == "garbage-after-root":
            text = goods[0] + "this is not xml <<<\n"
        else:
            text = REJECT_TEXTS[kind]
        for k, g in enumerate(goods):
            p = d / ("good_%d.pep.xml" % k)
            p.write_text(g)
            files.append(str(p))
        p = d / ("rej_0.xml" if kind in FOREIGN_XML else "rej_0.txt")
        p.write_text(text)
        files.insert({"first": 0, "middle": 1, "last": 2}[pos], str(p))
    elif kind == "percolator":
        spec = random_spec(seed, i, percolator=True)
        for k in range(len(spec["files"])):
            p = d / ("rej_%d.pep.xml" % k)
            p.write_text(render(spec, k))
            files.append(str(p))
    else:
        good = render(random_spec(seed, i), 0)
        if kind in FOREIGN_XML:
            text = FOREIGN_XML[kind]
        elif kind == "truncated-xml":
            text = good[: len(good) // 2]
        elif kind == "garbage-after-root":
            text = good + "this is not xml <<<\n"
        else:
            text = REJECT_TEXTS[kind]
        p = d / ("rej_0.xml" if kind in FOREIGN_XML else "rej_0.txt")
        p.write_text(text)
        files.append(str(p))
        if i % 3 == 2:                      # the bad file second, after a good one
            g = d / "good_0.pep.xml"
            g.write_text(good)
            files.insert(0, str(g))
    try:
        read_pepxml(files if len(files) > 1 else files[0], decoy_prefix=PREFIX, to_df=True)
    except Exception as e:
        return e
    return None


def check_rejects(tier, seed):
    n = 40 if tier == "quick" else 400
    n_list = 12 if tier == "quick" else 120
    kinds = list(REJECT_TEXTS) + list(FOREIGN_XML)
    ck = Check("pepxml_rejects", "mokapot.parsers.pepxml.read_pepxml",
               "random: %d generated documents (seed %d) carrying one of the 3 Percolator score names among their search "
               "scores; %d non-PepXML inputs (tab-delimited text, PIN, JSON, empty file, truncated document, document "
               "followed by garbage: ValueError required; well-formed XML of another kind - html, mzML, a pipeline "
               "analysis without runs: any exception accepted) x 3 variants (alone, alone, after a good file); file "
               "lists read in one call: 3 positions (first, middle, last) x %d random lists (seed %d) of 2..3 files "
               "(3 for middle) in which only the file at that position carries 1..3 of the Percolator score names and "
               "the other files are ordinary PepXML with their own subsets of 1..5 search scores; the %d non-PepXML "
               "inputs x 3 positions (first, middle, last) among 2 ordinary PepXML files with differing score sets"
               % (n, seed, len(kinds), n_list, seed, len(kinds)),
               "the input must be rejected with an error; non-trivial = every case (each input must be detected by the "
               "parser)")
    with scratch("c20r_") as d:
        for pos in POSITIONS:
            for i in range(n_list):
                ck.case(("percolator", pos, seed, i))
                e = _reject_case("percolator", seed, i, d, pos)
                if not isinstance(e, ValueError):
                    ck.violation("percolator-file-%s-in-list-%s" % (pos, "accepted" if e is None
                                                                    else "wrong-error:" + type(e).__name__),
                                 "Percolator-produced PepXML %s in a list of otherwise ordinary files: %s"
                                 % (pos, "accepted" if e is None else repr(e)[:150]),
                                 {"kind": "percolator", "seed": seed, "i": i, "pos": pos})
            for kind in kinds:
                ck.case((kind, pos, seed, 0))
                e = _reject_case(kind, seed, 0, d, pos)
                if not isinstance(e, _need(kind)):
                    ck.violation("nonpepxml-%s-%s-in-list-%s" % (kind, pos, "accepted" if e is None
                                                                 else "wrong-error:" + type(e).__name__),
                                 "non-PepXML input (%s) %s in a list of PepXML files: %s"
                                 % (kind, pos, "accepted" if e is None else repr(e)[:150]),
                                 {"kind": kind, "seed": seed, "i": 0, "pos": pos})
        for i in range(n):
            ck.case(("percolator", seed, i))
            e = _reject_case("percolator", seed, i, d)
            if not isinstance(e, ValueError):
                ck.violation("percolator-accepted" if e is None else "percolator-wrong-error:" + type(e).__name__,
                             "Percolator-produced PepXML: %s" % ("accepted" if e is None else repr(e)[:150]),
                             {"kind": "percolator", "seed": seed, "i": i})
        for kind in kinds:
            need = Exception if kind in FOREIGN_XML else ValueError
            for i in range(3):
                ck.case((kind, seed, i))
                e = _reject_case(kind, seed, i, d)
                if not isinstance(e, need):
                    ck.violation("nonpepxml-%s-%s" % (kind, "accepted" if e is None else "wrong-error:" + type(e).__name__),
                                 "non-PepXML input (%s): %s" % (kind, "accepted" if e is None else repr(e)[:150]),
                                 {"kind": kind, "seed": seed, "i": i})
    return ck


def _need(kind):
    return Exception if kind in FOREIGN_XML else ValueError


def REPLAY(check_name, violation):
    inp = violation["input"]
    if isinstance(inp, str):
        inp = json.loads(inp)
    with scratch("c20p_") as d:
        if check_name == "pepxml_rejects":
            e = _reject_case(inp["kind"], inp["seed"], inp["i"], d, inp.get("pos"))
            return {"violated": not isinstance(e, _need(inp["kind"])), "detail": repr(e)}
        spec = inp.get("spec")
        if spec is None:
            spec = (list(grid_specs())[inp["i"]] if inp["gen"] == "grid"
                    else list(name_grid_specs())[inp["i"]] if inp["gen"] == "name-grid"
                    else name_spec(inp["seed"], inp["i"]) if inp["gen"] == "name-random"
                    else multi_spec(inp["seed"], inp["i"]) if inp["gen"] == "multi"
                    else random_spec(inp["seed"], inp["i"]))
        bad = check_doc(spec, d)
        return {"violated": bool(bad), "detail": bad[:5]}


if __name__ == "__main__":
    a = args()
    emit([check_hits(a.tier, a.seed), check_run_names(a.tier, a.seed), check_rejects(a.tier, a.seed)],
         ["the data-file name of a run is its base_name followed by its raw_data, or base_name itself when it already "
          "ends with raw_data (PepXML: base_name is the file name minus the extension, raw_data the extension); "
          "where the statement leaves room two names are accepted: raw_data without leading dot (name with or "
          "without the dot put in), base_name ending with raw_data in another letter case (base_name with or "
          "without raw_data appended)",
          "base names are taken as opaque strings: no path normalisation is demanded, / and \\ are both just "
          "characters of the name",
          "start_scan == end_scan in every generated spectrum_query (the parser reads end_scan)",
          "search-score names are uniform within one file (they may differ between the files of one read_pepxml "
          "call); optional hit attributes are uniform within one read_pepxml call",
          "a search score that only some files report: nothing is demanded of its value in the rows of hits that do "
          "not report it (the statement is silent; the parser leaves it missing)",
          "feature post-processing is only checked where the statement speaks: score columns numeric, finite and "
          "rank-preserving w.r.t. the hit's raw value; charge one-hot consistent with assumed_charge",
          "well-formed XML that is not PepXML is rejected with KeyError('ms_data_file') rather than ValueError; the "
          "statement says 'an error', so any exception type is accepted for that class"])
