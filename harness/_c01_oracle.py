"""Independent oracle for the target-decoy q-values of property C01 (exact rational arithmetic).

The defining formula of the property statement, evaluated literally:

    q_i = min( {1} u { (D(t) + 1) / T(t) : t a score threshold at or worse than score_i, T(t) > 0 } )

with D(t) / T(t) the number of decoys / targets whose score is at or better than t.  Nothing here looks at
mokapot: no sorting-and-cumulating, no tie groups, no float32.  `oracle_q` is the literal double loop used for
the exhaustive small domain; `oracle_q_fast` evaluates the same formula once per threshold and is used for the
larger random vectors (the exhaustive run cross-checks the two on every enumerated case).
"""
from fractions import Fraction

ONE = Fraction(1)


def _better_or_equal(a, b, desc):
    """score a is at or better than score b"""
    return a >= b if desc else a <= b


def _thresholds(scores):
    """Candidate thresholds: every attained score, every midpoint between neighbours, one value beyond each
    end.  The counts D(t), T(t) are step functions that only change at attained scores, so these represent
    every real threshold."""
    vals = sorted(set(scores))
    out = set(vals)
    for a, b in zip(vals, vals[1:]):
        out.add((Fraction(a) + Fraction(b)) / 2)
    out.add(Fraction(vals[0]) - 1)
    out.add(Fraction(vals[-1]) + 1)
    return sorted(out)


def oracle_q(scores, targets, desc=True):
    """scores: ints/Fractions/floats (exactly representable), targets: bools.  Returns a list of Fractions."""
    scores = [Fraction(s) for s in scores]
    targets = [bool(t) for t in targets]
    thr = _thresholds(scores)
    n = len(scores)
    q = []
    for i in range(n):
        best = ONE
        for t in thr:
            if not _better_or_equal(scores[i], t, desc):      # threshold must be at or worse than score_i
                continue
            T = sum(1 for j in range(n) if targets[j] and _better_or_equal(scores[j], t, desc))
            D = sum(1 for j in range(n) if not targets[j] and _better_or_equal(scores[j], t, desc))
            if T > 0:
                f = Fraction(D + 1, T)
                if f < best:
                    best = f
        q.append(best)
    return q


def oracle_q_fast(scores, targets, desc=True):
    """Same formula; F(t) is computed once per attained threshold (numpy counting), q_i is the minimum of F
    over the thresholds at or worse than score_i.  scores: 1-d float array (finite)."""
    import numpy as np
    s = np.asarray(scores, dtype=float)
    tg = np.asarray(targets, dtype=bool)
    vals = np.unique(s)                      # ascending
    if desc:
        vals = vals[::-1]                    # best first
    F = []
    for t in vals:
        m = (s >= t) if desc else (s <= t)
        T = int((m & tg).sum())
        D = int((m & ~tg).sum())
        F.append(Fraction(D + 1, T) if T > 0 else None)
    # suffix minimum over thresholds at or worse than vals[k]  (k.. end of the best-first list)
    suf = [ONE] * (len(vals) + 1)
    for k in range(len(vals) - 1, -1, -1):
        f = F[k]
        suf[k] = suf[k + 1] if f is None or f >= suf[k + 1] else f
    pos = {float(v): k for k, v in enumerate(vals)}
    return [suf[pos[float(x)]] for x in s]


def accepted(qi, eval_fdr):
    """q <= eval_fdr, with the exact q-value rounded to the nearest double first: the threshold is a double, and a
    user who passes 0.1 means 1/10 (float64 is the finest resolution the statement can be read at)."""
    return float(qi) <= float(eval_fdr)


def oracle_labels(q, targets, eval_fdr):
    """+1: target with q <= eval_fdr, -1: decoy, 0: other target."""
    return [(-1 if not t else (1 if accepted(qi, eval_fdr) else 0)) for qi, t in zip(q, targets)]
