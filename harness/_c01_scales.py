"""Score maps for the rescaling / exact-tie family of the C01 harness.

The property statement says that q-values depend on the scores only through exact order comparisons: they "do not
change under a strictly monotone rescaling of the scores" and are identical exactly for tied (= equal) scores.  So
two scores that differ by one unit in the last place, or by 1e-25, are NOT tied.  This module provides

  * TABLES: per score dtype, per class of map, strictly increasing 6-entry tables (index = rank value 0..5); the
    strict monotonicity is verified in exact rational arithmetic at import time (`_verify`), so the expected
    q-values of `table[ranks]` are those of `ranks` by the statement alone;
  * random_scaled(): larger seeded-random vectors on integer lattices pushed through maps of the same classes.

Nothing here looks at mokapot.
"""
from fractions import Fraction

import numpy as np

NR = 6                                        # rank values 0..5
_K = np.arange(NR)
EPS = float(np.finfo(np.float64).eps)


def _chain(base, dtype, step=1):
    """base and its successors in `dtype`: entry k is base advanced by k*step units in the last place (upwards)"""
    t = np.dtype(dtype).type
    out, x = [], t(base)
    for _ in range(NR):
        out.append(x)
        for _ in range(step):
            x = np.nextafter(x, t(np.inf))
    return np.array(out, dtype=dtype)


def _f64_tables():
    k = _K.astype(np.float64)
    return {
        # ordinary ranks multiplied by a tiny positive constant / tiny scores (raw p-values, E-values)
        "tiny-factor": [k * 1e-18, k * 1e-17, (k + 1) * 1e-25, k * 2.0 ** -80, (k - 5) * 1e-20, k * 1e-300,
                        k * 1e-16, np.array([3e-31, 1e-28, 4e-27, 2.5e-25, 7e-23, 1e-20])],
        # subnormal scores
        "subnormal": [k * 5e-324, (k - 3) * 5e-324, k * 1e-310],
        "huge-factor": [k * 1e300, (k - 3) * 5e307, k * 2.0 ** 1000, (k + 1) * 1e150],
        # neighbouring doubles: consecutive values are one (or two) units in the last place apart
        "ulp-neighbours": [_chain(1.0, "float64"), _chain(1.0 - 3 * EPS, "float64"), _chain(-1.0, "float64"),
                           _chain(0.1, "float64"), _chain(1e-8, "float64"), _chain(123456.789, "float64"),
                           _chain(1e300, "float64"), _chain(-1e-300, "float64"), _chain(0.5, "float64", 2),
                           _chain(-2.5, "float64")],
        # a*k + b with a tiny slope or an offset that dwarfs the slope
        "affine": [1e-17 * k - 3e-17, 1e15 + k, 2.0 ** 52 + k, -2.0 ** 53 + 2 * k, 1e9 + k * 2.5e-7,
                   7.0 + k * 2.0 ** -50, -1e-20 * (5 - k) - 1e-19, 3.0 + k * 1e-15],
        # one vector holding scores of very different magnitudes (tiny gaps next to huge ones)
        "mixed-magnitudes": [np.array([-1e300, -1e-20, 0.0, 1e-25, 1.0, 1e300]),
                             np.array([1e-25, 1e-20, 2e-20, 1.0, 1.0 + EPS, 1e10]),
                             np.array([-5e-324, 0.0, 5e-324, 1e-300, 1e-17, 2e-17]),
                             np.array([-1e10, -1.0, -1.0 + EPS / 2, -1e-17, -1e-18, 1e-18]),
                             np.array([-2.0, -1e-16, 1e-16, 2e-16, 2.0, 2.0 + 2 * EPS])],
    }


def _f32_tables():
    f = np.float32
    k = _K.astype(np.float32)
    e32 = float(np.finfo(np.float32).eps)
    return {
        "tiny-factor": [k * f(1e-20), (k + 1) * f(1e-30), (k - 2) * f(1e-25), k * f(1e-17),
                        np.array([3e-31, 1e-28, 4e-27, 2.5e-25, 7e-23, 1e-20], dtype=f)],
        "subnormal": [k * f(1.4e-45), (k - 3) * f(1e-40)],
        "huge-factor": [k * f(6e37), (k - 3) * f(1e38)],
        "ulp-neighbours": [_chain(1.0, "float32"), _chain(-1.0, "float32"), _chain(0.1, "float32"),
                           _chain(1e-20, "float32"), _chain(1e30, "float32"), _chain(1.0 - 3 * e32, "float32")],
        "affine": [f(2.0 ** 23) + k, f(1e-20) * k - f(3e-20), f(3.0) + k * f(1e-6)],
        "mixed-magnitudes": [np.array([-3e38, -1e-30, 0.0, 1e-40, 1.0, 3e38], dtype=f),
                             np.array([1e-25, 1e-20, 2e-20, 1.0, 1.0 + e32, 1e10], dtype=f)],
    }


def _verify(tables, dtype):
    out = []
    for fam, tabs in tables.items():
        for j, t in enumerate(tabs):
            t = np.asarray(t)
            if t.dtype != np.dtype(dtype) or t.shape != (NR,) or not np.all(np.isfinite(t)):
                raise AssertionError("bad table %s[%d] for %s: %r" % (fam, j, dtype, t))
            fr = [Fraction(float(x)) for x in t]              # exact values of the entries
            if not all(a < b for a, b in zip(fr, fr[1:])):
                raise AssertionError("table %s[%d] for %s is not strictly increasing: %r" % (fam, j, dtype, t))
            out.append((fam, j, t))
    return out


# [(family, index within the family, table)], per dtype
TABLES = {"float64": _verify(_f64_tables(), "float64"), "float32": _verify(_f32_tables(), "float32")}
FAMILIES = tuple(_f64_tables())
# how many neighbouring gaps of each table are <= the float64 machine epsilon in absolute terms (reported in the bound)
N_TINY_GAP_TABLES = {d: sum(1 for _, _, t in TABLES[d] if np.any(np.diff(t.astype(np.float64)) <= EPS))
                     for d in TABLES}


def _advance(base, steps, dtype):
    """base (> 0, normal) advanced upwards by steps[i] units in the last place, through the integer representation"""
    it = np.int64 if dtype == "float64" else np.int32
    b = np.array([base], dtype=dtype).view(it)[0]
    return (b + steps.astype(it)).view(dtype)


def random_scaled(n_cases, seed):
    """Yields (family, scores, lattice ranks or None, targets, desc, dtype, label encoding number).

    lattice ranks: the integer vector the scores are a strictly increasing image of (None for the vectors that are
    drawn directly), so that the caller can compare with the result for the plain integers as well."""
    rng = np.random.default_rng([seed, 1701])
    fams = ("tiny-factor", "subnormal", "huge-factor", "ulp-neighbours", "affine", "mixed-magnitudes")
    for c in range(n_cases):
        fam = fams[c % 6]
        dtype = "float32" if (c // 6) % 3 == 2 else "float64"
        desc = bool((c // 18) % 2)
        enc = (c // 36) % 3
        n = int(rng.integers(7, 49))
        m = n if rng.random() < 0.25 else int(rng.integers(2, n + 1))          # number of lattice points; m < n forces ties
        ranks = rng.permutation(n) if m == n else rng.integers(0, m, n)
        lab = rng.random(n) < rng.choice([0.2, 0.5, 0.8])
        if rng.random() < 0.3:                                          # targets tend to score better
            ranks = np.clip(ranks + np.where(lab, 1, -1) * (m // 3) * (1 if desc else -1), 0, m - 1)
        ranks = ranks.astype(np.int64)
        t = np.dtype(dtype).type
        f64 = dtype == "float64"
        if fam == "tiny-factor":
            e = int(rng.integers(17, 301)) if f64 else int(rng.integers(9, 36))
            shift = int(rng.choice([0, 0, m // 2, m]))                 # all positive / straddling zero / all negative
            scores = (ranks - shift).astype(dtype) * t(10.0 ** -e)
        elif fam == "subnormal":
            shift = int(rng.choice([0, m // 2]))
            scores = (ranks - shift).astype(dtype) * t(5e-324 if f64 else 1.4e-45) * t(rng.integers(1, 4))
        elif fam == "huge-factor":
            e = int(rng.integers(200, 306)) if f64 else int(rng.integers(30, 36))
            shift = int(rng.choice([0, m // 2]))
            scores = (ranks - shift).astype(dtype) * t(10.0 ** e)
        elif fam == "ulp-neighbours":
            e = float(rng.uniform(-300, 300)) if f64 else float(rng.uniform(-30, 30))
            base = float(rng.choice([1.0, 0.1, 2.0 / 3, 10.0 ** e]))
            step = int(rng.choice([1, 1, 2, 3]))
            if rng.random() < 0.5:
                scores = _advance(base, ranks * step, dtype)
            else:                                                      # negative neighbours: closer to zero = larger
                scores = -_advance(base, (m - 1 - ranks) * step, dtype)
        elif fam == "affine":
            if f64:
                a, b = [(1e-17, -3e-16), (1.0, 1e15), (1.0, 2.0 ** 52), (2.0, -2.0 ** 53), (2.5e-7, 1e9),
                        (2.0 ** -50, 7.0), (1e-22, 1e-20), (4.0 ** -26, -1.0)][int(rng.integers(0, 8))]
            else:
                a, b = [(1.0, 2.0 ** 23), (1e-20, -3e-19), (1e-6, 3.0), (2.0 ** -22, -1.0)][int(rng.integers(0, 4))]
            scores = t(a) * ranks.astype(dtype) + t(b)
        else:                                                          # mixed magnitudes, drawn directly
            lo, hi = (-300, 300) if f64 else (-37, 37)
            pool = (rng.choice([-1.0, 1.0], m) * 10.0 ** rng.uniform(lo, hi, m)).astype(dtype)
            scores = pool[ranks]
            ranks = None
        scores = np.asarray(scores, dtype=dtype)
        if ranks is not None:
            # the image must order exactly as the lattice does (exact float comparisons, checked pairwise on sorted
            # representatives); otherwise the case is still used, but only against the formula on the scores
            o = np.argsort(ranks, kind="stable")
            rs, ss = ranks[o], scores[o].astype(np.float64)
            same = bool(np.all((np.diff(rs) > 0) == (np.diff(ss) > 0)) and np.all(np.diff(ss) >= 0))
            if not same:
                ranks = None
        if not np.all(np.isfinite(scores)):
            continue
        yield fam, scores, ranks, lab, desc, dtype, enc
