"""Replay a solver counterexample (or search a small domain) against the REAL function.

  python -m harness.replay <replay.json>             -> {"violated": bool, ...}
  python -m harness.replay --search <adapter> --seed N
An adapter is "harness.<module>:<name>": module attribute `<name>` is an object with
  .run(inputs) -> {"violated": bool, "detail": ...}   and optionally  .search(seed) -> same + "inputs".
"""
import importlib
import json
import sys
import traceback


def load(adapter):
    mod, name = adapter.split(":")
    return getattr(importlib.import_module(mod), name)


def main():
    if sys.argv[1] == "--search":
        ad = load(sys.argv[2])
        seed = int(sys.argv[4]) if len(sys.argv) > 4 else 0
        if not hasattr(ad, "search"):
            print(json.dumps({"violated": False, "note": "adapter has no search"}))
            return
        try:
            print(json.dumps(ad.search(seed), default=str))
        except Exception:
            print(json.dumps({"violated": False, "error": traceback.format_exc()[-800:]}))
        return
    rec = json.load(open(sys.argv[1]))
    if "violation" in rec and "bounded_check" in rec:
        ad = load(rec["module"] + ":REPLAY")
        try:
            print(json.dumps(ad(rec["bounded_check"], rec["violation"]), default=str))
        except Exception:
            print(json.dumps({"violated": False, "error": traceback.format_exc()[-800:]}))
        return
    ad = load(rec["adapter"])
    try:
        out = ad.run(rec["inputs"])
    except Exception:
        out = {"violated": False, "error": traceback.format_exc()[-800:]}
    print(json.dumps(out, default=str))


if __name__ == "__main__":
    main()
