"""C17 bounded stand-in: mokapot.parsers.fasta.digest (and _cleavage_sites/_cleave through it) against the
enzyme-rule statement, exhaustively over short sequences of a 5-letter alphabet.

Reading of the statement used by the oracle (written out so that a disagreement is attributable):
  * cleavage sites = {0, len(sequence)} united with the END of every regex match (re.finditer), as a SET of positions;
  * enzymatic peptide = sequence[a:b] for sites a < b with at most `missed_cleavages` sites strictly between a and b
    and min_length <= b - a <= max_length;
  * clip_nterm_methionine: for every enzymatic peptide with a == 0 that starts with "M", its form without the "M",
    provided that form still respects the minimum length (a result below min_length would contradict the bounds);
  * semi: every proper prefix and every proper suffix, of length >= min_length, of an enzymatic peptide
    ("such a peptide" is read as the enzymatic peptide, not its clipped form);
  * nothing else.
"""
import itertools
import json
import logging
import multiprocessing
import re
import warnings

from harness.common import Check, args, emit

logging.disable(logging.CRITICAL)
warnings.filterwarnings("ignore")

ALPHABET = "KRPMA"
ENZYMES = ["[KR]", "[KR](?!P)", "K"]
MISSED = [0, 1, 2, 3]
BOUNDS = [(1, 50), (2, 50), (1, 3), (2, 4), (3, 3), (4, 6), (5, 7)]
# index pairs (narrow, wide) of BOUNDS with wide containing narrow
WIDER = [(i, j) for i, (lo, hi) in enumerate(BOUNDS) for j, (lo2, hi2) in enumerate(BOUNDS)
         if i != j and lo2 <= lo and hi <= hi2]
FLAGS = [(False, False), (True, False), (False, True), (True, True)]     # (clip, semi)


# ------------------------------------------------------------------ oracle (independent of _cleave/_cleavage_sites)
def cut_positions(seq, pattern):
    return sorted({0, len(seq)} | {m.end() for m in re.finditer(pattern, seq)})


def spans(seq, pattern):
    """all (a, b, missed) with a < b cleavage positions and `missed` = number of cleavage positions strictly inside"""
    cuts = cut_positions(seq, pattern)
    return [(a, b, sum(1 for c in cuts if a < c < b)) for a in cuts for b in cuts if a < b]


def oracle_parts(seq, sp, mc, lo, hi, clip, semi):
    enz = set()
    clipped = set()
    for a, b, missed in sp:
        if missed <= mc and lo <= b - a <= hi:
            enz.add(seq[a:b])
            if clip and a == 0 and seq[0] == "M" and b - 1 >= lo:
                clipped.add(seq[1:b])
    semis = set()
    if semi:
        for p in enz:
            for k in range(1, len(p)):
                if k >= lo:
                    semis.add(p[:k])
                if len(p) - k >= lo:
                    semis.add(p[k:])
    return enz, clipped, semis


def oracle(seq, pattern, mc, lo, hi, clip, semi):
    enz, clipped, semis = oracle_parts(seq, spans(seq, pattern), mc, lo, hi, clip, semi)
    return enz | clipped | semis


def classify_extra(p, seq, pattern, lo, hi):
    if p not in seq:
        return "extra-peptide-not-a-substring"
    if len(p) < lo:
        return "extra-peptide-below-min-length"
    if len(p) > hi:
        return "extra-peptide-above-max-length"
    if any(seq[a:b] == p for a, b, _ in spans(seq, pattern)):
        return "extra-peptide-too-many-missed-cleavages"
    return "extra-non-enzymatic-peptide"


def cfg(seq, enz, mc, lo, hi, clip, semi):
    return {"sequence": seq, "enzyme": enz, "missed_cleavages": mc, "min_length": lo, "max_length": hi,
            "clip_nterm_methionine": clip, "semi": semi}


def run_digest(c):
    from mokapot.parsers.fasta import digest
    return digest(c["sequence"], enzyme_regex=c["enzyme"], missed_cleavages=c["missed_cleavages"],
                  clip_nterm_methionine=c["clip_nterm_methionine"], min_length=c["min_length"],
                  max_length=c["max_length"], semi=c["semi"])


# ------------------------------------------------------------------ worker
def _work(seqs):
    from mokapot.parsers.fasta import digest
    compiled = {e: re.compile(e) for e in ENZYMES}
    calls = 0
    keys = []                 # (seq, enzyme, nontrivial)
    viols = {"exact": [], "mono": []}

    def add(kind, case, what, inp):
        if sum(1 for v in viols[kind] if v[0] == case) < 3:
            viols[kind].append((case, what, inp))

    for seq in seqs:
        for ei, enz in enumerate(ENZYMES):
            # the str path of _cleavage_sites for the first enzyme, pre-compiled patterns for the others
            rx = enz if ei == 0 else compiled[enz]
            sp = spans(seq, enz)
            n_cuts = len({a for a, _, _ in sp} | {b for _, b, _ in sp})
            keys.append((seq, enz, n_cuts >= 3))
            res = {}
            for mc in MISSED:
                for bi, (lo, hi) in enumerate(BOUNDS):
                    for clip, semi in FLAGS:
                        got = digest(seq, enzyme_regex=rx, missed_cleavages=mc, clip_nterm_methionine=clip,
                                     min_length=lo, max_length=hi, semi=semi)
                        calls += 1
                        res[(mc, bi, clip, semi)] = got
                        enzs, clipped, semis = oracle_parts(seq, sp, mc, lo, hi, clip, semi)
                        exp = enzs | clipped | semis
                        if got != exp:
                            c = cfg(seq, enz, mc, lo, hi, clip, semi)
                            for p in sorted(exp - got):
                                case = ("missing-enzymatic-peptide" if p in enzs else
                                        "missing-clipped-nterm-peptide" if p in clipped else "missing-semi-peptide")
                                add("exact", case, "digest lacks %r (expected %s, got %s)"
                                    % (p, sorted(exp), sorted(got)), c)
                            for p in sorted(got - exp):
                                add("exact", classify_extra(p, seq, enz, lo, hi),
                                    "digest returns %r outside the allowed set (expected %s, got %s)"
                                    % (p, sorted(exp), sorted(got)), c)
                        for p in got:
                            if p not in seq:
                                add("mono", "peptide-not-a-substring", "%r is not a substring" % p,
                                    {"a": cfg(seq, enz, mc, lo, hi, clip, semi)})
            # monotonicity consequences, on the real results only
            for (mc, bi, clip, semi), got in res.items():
                lo, hi = BOUNDS[bi]
                small = cfg(seq, enz, mc, lo, hi, clip, semi)
                bigger = []
                if mc + 1 in MISSED:
                    bigger.append(("shrinks-with-more-missed-cleavages", (mc + 1, bi, clip, semi)))
                if not semi:
                    bigger.append(("shrinks-with-semi", (mc, bi, clip, True)))
                if not clip:
                    bigger.append(("shrinks-with-clip", (mc, bi, True, semi)))
                for i, j in WIDER:
                    if i == bi:
                        bigger.append(("shrinks-with-wider-length-bounds", (mc, j, clip, semi)))
                for case, k2 in bigger:
                    if not got <= res[k2]:
                        big = cfg(seq, enz, k2[0], BOUNDS[k2[1]][0], BOUNDS[k2[1]][1], k2[2], k2[3])
                        add("mono", case, "lost %s" % sorted(got - res[k2]), {"a": small, "b": big})
    return calls, keys, viols


def _sequences(max_len):
    out = []
    for n in range(max_len + 1):
        out.extend("".join(t) for t in itertools.product(ALPHABET, repeat=n))
    return out


_CACHE = {}


def _run_all(tier):
    if tier in _CACHE:
        return _CACHE[tier]
    max_len = 6 if tier == "quick" else 8
    seqs = _sequences(max_len)
    n_chunks = 64 if tier == "quick" else 256
    chunks = [seqs[i::n_chunks] for i in range(n_chunks)]
    import mokapot.parsers.fasta                        # noqa: F401  (imported once, before the workers fork)
    with multiprocessing.Pool(min(16, multiprocessing.cpu_count())) as pool:
        parts = pool.map(_work, chunks)
    calls = sum(p[0] for p in parts)
    keys = sorted(k for p in parts for k in p[1])
    def simplest_first(v):
        c = v[2].get("a", v[2])
        return (len(c["sequence"]), c["clip_nterm_methionine"] + c["semi"], c["missed_cleavages"],
                json.dumps(v[2], sort_keys=True))
    viols = {kind: sorted((v for p in parts for v in p[2][kind]), key=simplest_first) for kind in ("exact", "mono")}
    _CACHE[tier] = (max_len, len(seqs), calls, keys, viols)
    return _CACHE[tier]


def _feed(ck, viols):
    """smallest reproducer of every class first, then the rest"""
    seen = set()
    rest = []
    for v in viols:
        if v[0] not in seen:
            seen.add(v[0])
            ck.violation(*v)
        else:
            rest.append(v)
    for v in rest:
        ck.violation(*v)


def _bound_text(max_len, n_seq):
    return ("exhaustive: all %d sequences of length 0..%d over {%s} x enzymes %s x missed_cleavages %s x "
            "(min_length,max_length) in %s x clip_nterm_methionine in {F,T} x semi in {F,T}"
            % (n_seq, max_len, ",".join(ALPHABET), ENZYMES, MISSED, BOUNDS))


def _dims(tier):
    max_len = 6 if tier == "quick" else 8
    return max_len, sum(len(ALPHABET) ** n for n in range(max_len + 1))


def check_exact(tier, seed):
    max_len, n_seq = _dims(tier)
    ck = Check("digest_exact", "mokapot.parsers.fasta.digest (_cleavage_sites, _cleave)",
               _bound_text(max_len, n_seq),
               "digest(...) == set built from the statement with re.finditer (sites as a set of positions; enzymatic "
               "spans, clipped N-terminal forms >= min_length, proper prefixes/suffixes >= min_length of enzymatic "
               "peptides); a case is one (sequence, enzyme) pair evaluated under all %d parameter settings "
               "(`evaluations` counts digest calls); non-trivial = the enzyme has at least one cleavage site strictly "
               "inside the sequence" % (len(MISSED) * len(BOUNDS) * len(FLAGS)))
    _, _, calls, keys, viols = _run_all(tier)
    for seq, enz, nt in keys:
        ck.case((seq, enz), nontrivial=nt)
    ck.evaluations = calls
    _feed(ck, viols["exact"])
    return ck


def check_monotone(tier, seed):
    max_len, n_seq = _dims(tier)
    ck = Check("digest_monotone_substring", "mokapot.parsers.fasta.digest",
               _bound_text(max_len, n_seq) + "; compared pairwise: missed_cleavages m vs m+1, semi off vs on, clip "
               "off vs on, %d nested pairs of length bounds" % len(WIDER),
               "result(params) is a subset of result(params') whenever params' allows more missed cleavages, wider "
               "length bounds, semi or clipping, and every returned peptide is a substring of the sequence (real "
               "results only, no oracle); a case is one (sequence, enzyme) pair; non-trivial = at least one interior "
               "cleavage site; wall time is included in digest_exact (same digest calls)")
    _, _, calls, keys, viols = _run_all(tier)
    for seq, enz, nt in keys:
        ck.case((seq, enz), nontrivial=nt)
    _feed(ck, viols["mono"])
    return ck


def REPLAY(check_name, violation):
    inp = violation["input"]
    if isinstance(inp, str):
        inp = json.loads(inp)
    if check_name == "digest_exact":
        got = run_digest(inp)
        exp = oracle(inp["sequence"], inp["enzyme"], inp["missed_cleavages"], inp["min_length"], inp["max_length"],
                     inp["clip_nterm_methionine"], inp["semi"])
        return {"violated": got != exp, "detail": {"got": sorted(got), "expected": sorted(exp)}}
    if check_name == "digest_monotone_substring":
        a = run_digest(inp["a"])
        if "b" not in inp:
            bad = [p for p in a if p not in inp["a"]["sequence"]]
            return {"violated": bool(bad), "detail": bad}
        b = run_digest(inp["b"])
        return {"violated": not a <= b, "detail": {"lost": sorted(a - b)}}
    return {"violated": None, "note": "no replay for %s" % check_name}


if __name__ == "__main__":
    a = args()
    emit([check_exact(a.tier, a.seed), check_monotone(a.tier, a.seed)],
         ["min_length >= 1 throughout (the empty string is never considered a peptide)",
          "the clipped N-terminal form is only demanded when it still has min_length residues; prefixes/suffixes of "
          "the semi option are demanded for enzymatic peptides only, not for clipped forms",
          "all three enzyme patterns consume one residue per match, so no match ends at position 0",
          "the enumeration is exhaustive and does not depend on --seed"])
