"""C10 bounded stand-in and replay adapters."""
import itertools
import random

from harness.common import Check, args, emit
from harness.spec_eval import eval_clauses


def _contract(name):
    import contracts.c10 as c10
    import contracts.shared as sh
    return {"ident": c10.create_chunks_with_identifier, "chunks": sh.create_chunks}[name]


def _cols(xs, prefix):
    """abstract column ids of a solver model -> distinct column names"""
    names = {}
    out = []
    for x in xs:
        key = x["id"] if isinstance(x, dict) else str(x)
        names.setdefault(key, "%s%d" % (prefix, len(names)))
        out.append(names[key])
    return out


class _ChunksIdent:
    def run(self, inputs):
        from mokapot.parsers.pin import create_chunks_with_identifier
        c = _contract("ident")
        data = ["f%d" % i for i in range(len(inputs["data"]))]
        ident = ["id%d" % i for i in range(len(inputs["identifier_column"]))]
        cs = int(inputs["chunk_size"])
        env = {"data": data, "identifier_column": ident, "chunk_size": cs}
        pre = eval_clauses(c.requires, env)
        if pre:
            return {"violated": False, "note": "model violates requires: %s" % pre}
        env["result"] = create_chunks_with_identifier(list(data), list(ident), cs)
        bad = eval_clauses(c.ensures, env)
        return {"violated": bool(bad), "failed_clauses": bad, "inputs": {k: env[k] for k in
                ("data", "identifier_column", "chunk_size")}, "result": env["result"]}

    def search(self, seed):
        for cs in range(1, 9):
            for k in range(1, cs + 1):
                for n in range(0, 3 * cs + 2):
                    r = self.run({"data": [0] * n, "identifier_column": [0] * k, "chunk_size": cs})
                    if r.get("violated"):
                        return r
        return {"violated": False}


class _Chunks:
    def run(self, inputs):
        from mokapot.utils import create_chunks
        c = _contract("chunks")
        data = ["f%d" % i for i in range(len(inputs["data"]))]
        cs = int(inputs["chunk_size"])
        env = {"data": data, "chunk_size": cs}
        if eval_clauses(c.requires, env):
            return {"violated": False, "note": "model violates requires"}
        env["result"] = create_chunks(list(data), cs)
        bad = eval_clauses(c.ensures, env)
        return {"violated": bool(bad), "failed_clauses": bad, "inputs": {"data": data, "chunk_size": cs}}

    def search(self, seed):
        for cs in range(1, 7):
            for n in range(0, 3 * cs + 2):
                r = self.run({"data": [0] * n, "chunk_size": cs})
                if r.get("violated"):
                    return r
        return {"violated": False}


chunks_ident_adapter = _ChunksIdent()
create_chunks_adapter = _Chunks()


def check_chunking(tier):
    hi = 24 if tier == "quick" else 48
    ck = Check("chunks_ident", "mokapot.parsers.pin.create_chunks_with_identifier",
               "exhaustive: chunk_size 1..%d, 1..min(5,chunk_size) identifier columns, 0..%d features" % (hi, 3 * hi),
               "contract text of contracts/c10.py evaluated on the real function; non-trivial = more than one chunk")
    for cs in range(1, hi + 1):
        for k in range(1, min(5, cs) + 1):
            for n in range(0, 3 * hi + 1):
                r = chunks_ident_adapter.run({"data": [0] * n, "identifier_column": [0] * k, "chunk_size": cs})
                ck.case((n, k, cs), nontrivial=n + k > cs)
                if r.get("violated"):
                    ck.violation("identifier-columns-split" if
                                 any("is_infix" in b for b in r["failed_clauses"]) else "other",
                                 "; ".join(r["failed_clauses"]), {"n_features": n, "n_ident": k, "chunk_size": cs})
    return ck


def REPLAY(check, violation):
    inp = violation["input"]
    if isinstance(inp, str):
        import json
        inp = json.loads(inp)
    if check == "chunks_ident":
        return chunks_ident_adapter.run({"data": [0] * inp["n_features"], "identifier_column": [0] * inp["n_ident"],
                                         "chunk_size": inp["chunk_size"]})
    from harness import _c10_tables
    return _c10_tables.REPLAY(check, violation)


if __name__ == "__main__":
    a = args()
    from harness import _c10_tables
    emit([check_chunking(a.tier), _c10_tables.check_read_percolator(a.tier, a.seed),
          _c10_tables.check_missing_cells(a.tier, a.seed), _c10_tables.check_rejects(a.tier, a.seed)],
         ["run-time evaluation of the contract text on the real functions"] + list(getattr(_c10_tables, "ASSUMPTIONS", [])))
