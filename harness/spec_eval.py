"""Concrete (run-time) interpretation of contract text: the same `requires`/`ensures` strings that the
verifier interprets symbolically are evaluated here with plain `eval` on real values."""
import itertools


def implies(a, b):
    return (not a) or bool(b)


def iff(a, b):
    return bool(a) == bool(b)


def is_infix_at(xs, ys, o):
    xs, ys = list(xs), list(ys)
    return 0 <= o and o + len(xs) <= len(ys) and ys[o:o + len(xs)] == xs


def is_infix(xs, ys):
    return any(is_infix_at(xs, ys, o) for o in range(0, len(ys) - len(xs) + 1))


def flatten(xss):
    return list(itertools.chain.from_iterable(xss))


def is_perm(p, n):
    return sorted(int(x) for x in p) == list(range(n))


def psum(s, k):
    return sum(s[:k])


def count(mask, k):
    return sum(1 for x in mask[:k] if x)


def trig(body, *terms):
    return body


HELPERS = dict(trig=trig, implies=implies, iff=iff, is_infix=is_infix, is_infix_at=is_infix_at, flatten=flatten,
               is_perm=is_perm, psum=psum, count=count)


def eval_clauses(clauses, env):
    """-> list of clause texts that evaluate to False (exceptions count as failures with the message)."""
    bad = []
    ns = dict(HELPERS)
    ns.update(env)
    for c in clauses:
        try:
            if not eval(c, ns):
                bad.append(c)
        except Exception as e:  # noqa
            bad.append("%s   [raised %r]" % (c, e))
    return bad
