"""C11 bounded stand-in: score calibration (module level, on-disk dataset, and per fold through brew).

  python -m harness.c11 --tier quick|thorough --seed N

The oracle never calls mokapot: accepted targets come from the exact rational q-values of harness/_c01_oracle.py,
the anchors are t = lowest score among the accepted targets and d = median decoy score, the expected result is
(s - t) / (t - d).
"""
import importlib
import json
import logging
import warnings

import numpy as np
import pandas as pd

from harness.common import Check, args, emit
from harness.datasets import scratch, small_df, make_ds
from harness._c01_oracle import oracle_q_fast

warnings.filterwarnings("ignore")
logging.disable(logging.CRITICAL)

TOL = 1e-9
FDRS = (0.05, 0.1, 0.2, 0.25, 0.3, 0.5)


def _freeze(ck):
    res = ck.result()
    ck.result = lambda: res
    return ck


# ----------------------------------------------------------------------------------------------------------
# oracle
# ----------------------------------------------------------------------------------------------------------
def _median(xs):
    xs = sorted(float(x) for x in xs)
    m = len(xs)
    return xs[m // 2] if m % 2 else (xs[m // 2 - 1] + xs[m // 2]) / 2.0


def anchors(scores, targets, eval_fdr, float32_q=False):
    """(t, d): t = lowest score among targets with q <= eval_fdr (None if there is none), d = decoy median.
    float32_q=True rounds the q-values to float32 first; it is only used to NAME a mismatch that is explained
    by the float32 threshold comparison reported under C01."""
    q = [float(x) for x in oracle_q_fast(scores, targets, True)]       # nearest doubles of the exact q-values
    if float32_q:
        q = [float(np.float32(x)) for x in q]
    acc = [float(s) for s, tg, qi in zip(scores, targets, q) if tg and qi <= float(eval_fdr)]
    d = _median([s for s, tg in zip(scores, targets) if not tg])
    return (min(acc) if acc else None), d


def judge(scores, targets, eval_fdr, outcome):
    """outcome: ("ok", array) | ("RuntimeError", msg) | ("exception:X", msg).
    Returns (class id or None, what, in_domain)."""
    scores = np.asarray(scores, dtype=float)
    targets = np.asarray(targets, dtype=bool)
    t, d = anchors(scores, targets, eval_fdr)
    t32, _ = anchors(scores, targets, eval_fdr, float32_q=True)
    kind, val = outcome
    if kind.startswith("exception"):
        return kind, "unexpected exception: %s" % val, False
    if t is None:
        if kind == "RuntimeError":
            return None, None, True
        if t32 is not None:
            return ("scores-returned-float32-threshold(C01)",
                    "no target has q <= eval_fdr, yet scores are returned (a q-value just above the threshold was "
                    "rounded down to float32 before the comparison)", True)
        return "runtimeerror-missing", "no target is accepted at eval_fdr but scores were returned", True
    if kind == "RuntimeError":
        if t32 is None:
            return ("runtimeerror-float32-threshold-tie(C01)",
                    "targets with q exactly equal to eval_fdr exist, yet RuntimeError (their q-value was rounded up "
                    "to float32 before the comparison)", True)
        return "runtimeerror-unexpected", "RuntimeError although a target is accepted at eval_fdr", True
    res = np.asarray(val, dtype=float)
    if res.shape != scores.shape:
        return "shape", "result shape %r for %d scores" % (res.shape, len(scores)), True
    if not t > d:
        return None, None, False                 # outside the property's domain (no accepted target above the decoy median)

    def matches(tt):
        want = (scores - tt) / (tt - d)
        return bool(np.all(np.abs(res - want) <= TOL * (1 + np.abs(want))))

    if not matches(t):
        if t32 is not None and t32 != t and t32 != d and matches(t32):
            return ("anchor-shifted-float32-threshold-tie(C01)",
                    "0 is not at the lowest accepted target: targets whose q equals eval_fdr exactly were left out "
                    "(q-value rounded up to float32 before the comparison)", True)
        # which anchor is off?
        a, b = _affine(scores, res)
        if a is None or not np.isfinite(a):
            return "not-affine", "result is not an affine function of the scores", True
        if a <= 0:
            return "order-reversed", "result decreases with the score (slope %g)" % a, True
        if abs(a * t + b) > 1e-7 * (1 + abs(a * t)):
            return "zero-anchor-wrong", "lowest accepted target does not map to 0", True
        if abs(a * d + b + 1) > 1e-7 * (1 + abs(a * d)):
            return "minus-one-anchor-wrong", "decoy median does not map to -1", True
        return "formula-mismatch", "result differs from (s - t) / (t - d)", True
    # consequences, checked on the returned values alone
    order = np.argsort(scores, kind="stable")
    ss, rr = scores[order], res[order]
    for k in range(len(ss) - 1):
        if ss[k] == ss[k + 1]:
            if rr[k] != rr[k + 1]:
                return "ties-unequal", "equal scores map to different calibrated scores", True
        elif not rr[k] < rr[k + 1]:
            return "not-strictly-increasing", "a better score does not map to a larger calibrated score", True
    if np.any(np.abs(res[scores == t]) > 1e-12):
        return "zero-anchor-wrong", "lowest accepted target does not map to 0", True
    a, b = _affine(scores, res)
    if a is not None and (not a > 0 or abs(a * d + b + 1) > 1e-7 * (1 + abs(a * d))):
        return "minus-one-anchor-wrong", "decoy median does not map to -1", True
    return None, None, True


def _affine(scores, res):
    """slope and intercept of the returned map, from its two extreme distinct points; None if not affine"""
    lo, hi = int(np.argmin(scores)), int(np.argmax(scores))
    if scores[lo] == scores[hi]:
        return None, None
    a = (res[hi] - res[lo]) / (scores[hi] - scores[lo])
    b = res[lo] - a * scores[lo]
    if not np.all(np.abs(a * scores + b - res) <= 1e-7 * (1 + np.abs(res))):
        return None, None
    return float(a), float(b)


# ----------------------------------------------------------------------------------------------------------
# (a) calibrate_scores, module level and on disk
# ----------------------------------------------------------------------------------------------------------
def _gen_case(rng, k):
    n = int(rng.integers(6, 81))
    lab = rng.random(n) < rng.choice([0.3, 0.5, 0.7])
    if lab.all():
        lab[int(rng.integers(n))] = False
    if not lab.any():
        lab[int(rng.integers(n))] = True
    shift = float(rng.choice([0.0, 2.5, 4.0, 6.0]))
    scale = float(rng.choice([1, 10, 0.01]))
    scores = rng.normal(0, 1, n) * scale
    scores = scores + shift * lab * (np.abs(scores).max() / 3 + 1e-12) * (rng.random(n) < 0.7)
    mode = k % 4
    if mode == 1:
        scores = np.round(scores / scale * 4) / 4 * scale   # ties
    elif mode == 2:
        scores = np.round(scores / scale) * scale           # heavy ties
    elif mode == 3:
        scores = scores - 50.0 * scale                      # all negative: sign conventions
    scores = np.round(scores, 5 if scale < 1 else 3) + 0.0  # short decimal representations (replay records)
    fdr = float(FDRS[k % len(FDRS)]) if k % 3 else float(np.round(rng.uniform(0.05, 0.6), 3))
    return scores.astype(float), lab, fdr


def _call_module(scores, lab, fdr):
    ds = importlib.import_module("mokapot.dataset")
    try:
        return "ok", ds.calibrate_scores(scores.copy(), lab.copy(), fdr)
    except RuntimeError as e:
        return "RuntimeError", str(e)[:120]
    except Exception as e:                                  # noqa: BLE001
        return "exception:" + type(e).__name__, str(e)[:200]


def _call_ondisk(scores, lab, fdr, d, k):
    n = len(scores)
    df = pd.DataFrame({"SpecId": np.arange(n), "Label": np.where(lab, 1, -1), "ScanNr": np.arange(n) // 2,
                       "ExpMass": 100.0 + np.arange(n) // 2, "f0": scores, "f1": np.zeros(n),
                       "Peptide": ["PEP%dK" % i for i in range(n)], "Proteins": ["prot%d" % (i % 5) for i in range(n)]})
    psms = make_ds(df, d / ("c%d.%s" % (k, "parquet" if k % 2 else "tsv")))
    try:
        return "ok", psms.calibrate_scores(scores.copy(), fdr)
    except RuntimeError as e:
        return "RuntimeError", str(e)[:120]
    except Exception as e:                                  # noqa: BLE001
        return "exception:" + type(e).__name__, str(e)[:200]


def _inp(scores, lab, fdr, where):
    return {"scores": [float(x) for x in scores], "targets": [int(x) for x in lab], "eval_fdr": fdr, "where": where}


def check_calibrate(tier, seed):
    n_mod, n_disk = (800, 80) if tier == "quick" else (15000, 1000)
    ck = Check(
        "calibrate", "mokapot.dataset.calibrate_scores, mokapot.dataset.OnDiskPsmDataset.calibrate_scores",
        "random: %d score vectors for the module-level function and %d for the on-disk method (tiny Parquet/TSV "
        "datasets), seed %d, 6..80 PSMs (on disk: at most 40), at least one target and one decoy, continuous / quarter-rounded / integer / "
        "all-negative scores on scales 0.01, 1, 10, eval_fdr in %s or uniform(0.05, 0.6), desc=True (the only mode brew uses)"
        % (n_mod, n_disk, seed, list(FDRS)),
        "expected: RuntimeError iff no target has exact rational q <= eval_fdr; else (s - t)/(t - d), 0 at t, -1 at "
        "d, strictly increasing, checked when t > d (property domain); non-trivial = an accepted target exists, "
        "t > d and not every target is accepted (or: no target accepted and RuntimeError expected)")
    rng = np.random.default_rng(seed)
    seen = set()
    stats = {"domain": 0, "error_path": 0, "outside": 0}
    with scratch("c11_") as d:
        for k in range(n_mod + n_disk):
            scores, lab, fdr = _gen_case(rng, k)
            where = "module" if k < n_mod else "ondisk"
            if where == "ondisk":
                scores, lab = scores[:40], lab[:40]
                if lab.all() or not lab.any():
                    lab[0], lab[1] = True, False
            outcome = _call_module(scores, lab, fdr) if where == "module" else _call_ondisk(scores, lab, fdr, d, k)
            cid, what, in_dom = judge(scores, lab, fdr, outcome)
            t, dd = anchors(scores, lab, fdr)
            if t is None:
                stats["error_path"] += 1
                nontriv = True
            elif in_dom:
                stats["domain"] += 1
                q = oracle_q_fast(scores, lab, True)
                nontriv = any(tg and float(qi) > fdr for tg, qi in zip(lab, q))
            else:
                stats["outside"] += 1
                nontriv = False
            ck.case((where, scores.tolist(), lab.tolist(), fdr), nontrivial=nontriv)
            if cid and (cid, where) not in seen:
                seen.add((cid, where))
                ck.violation(cid if where == "module" else "ondisk:" + cid, what, _inp(scores, lab, fdr, where))
    ck.rule += "; cases in domain %(domain)d, error path %(error_path)d, outside the domain (t <= d) %(outside)d" % stats
    return _freeze(ck)


# ----------------------------------------------------------------------------------------------------------
# (b) per fold, through brew
# ----------------------------------------------------------------------------------------------------------
LOG = []


class FoldEstimator:
    """Deterministic linear decision function whose weights, offset and SCALE depend on the training rows, so
    that every fold's raw output lives on its own scale (the situation calibration exists for)."""

    def __init__(self, gain=1.0):
        self.gain = gain

    def get_params(self, deep=True):
        return {"gain": self.gain}

    def set_params(self, **params):
        for k, v in params.items():
            setattr(self, k, v)
        return self

    def fit(self, X, y):
        pos, neg = X[y == 1], X[y == 0]
        self.w_ = np.array([1.0, 0.25 * np.tanh(pos[:, 1].mean() - neg[:, 1].mean())])
        self.b_ = -float(np.median(X[:, 0]))
        self.s_ = self.gain * (1 + len(X) % 7)
        return self

    def decision_function(self, X):
        return self.s_ * (X[:, :2] @ self.w_ + self.b_)


def _rec_model_class():
    from mokapot.model import Model

    class RecModel(Model):
        """records, per fold model, which rows it was asked to score and what it answered"""

        def predict(self, psms):
            out = super().predict(psms)
            LOG.append((self.fold, psms.data["SpecId"].values.copy(), np.asarray(out, dtype=float).copy()))
            return out
    return RecModel


def _brew_case(cfg, d):
    """Run brew once. Returns (df, outcome, per-fold {fold: (ids, raw)})"""
    brew_mod = importlib.import_module("mokapot.brew")
    df = small_df(n_spec=cfg["n_spec"], dup=2, seed=cfg["data_seed"])
    if cfg.get("round"):
        df["f0"] = np.round(df["f0"] * 4) / 4                # ties in the raw scores
    ds = make_ds(df, d / ("b%d.%s" % (cfg["k"], cfg["fmt"])))
    del LOG[:]
    model = _rec_model_class()(FoldEstimator(cfg["gain"]), scaler="as-is", train_fdr=0.2, max_iter=cfg["max_iter"],
                               override=True, rng=cfg["data_seed"])
    old = brew_mod.CHUNK_SIZE_ROWS_PREDICTION
    if cfg["chunk"]:                                         # the table is scored in 2 or 3 row chunks
        brew_mod.CHUNK_SIZE_ROWS_PREDICTION = -(-len(df) // cfg["chunk"])
    try:
        _, models, scores, descs = brew_mod.brew(ds, model, test_fdr=cfg["test_fdr"], folds=cfg["folds"],
                                                 rng=cfg["rng"])
        outcome = ("ok", scores[0])
    except RuntimeError as e:
        outcome = ("RuntimeError", str(e)[:160])
    except Exception as e:                                   # noqa: BLE001
        outcome = ("exception:" + type(e).__name__, str(e)[:200])
    finally:
        brew_mod.CHUNK_SIZE_ROWS_PREDICTION = old
    folds = {}
    for fold, ids, raw in LOG:
        a, b = folds.get(fold, (np.array([], dtype=int), np.array([])))
        folds[fold] = (np.concatenate([a, ids]), np.concatenate([b, raw]))
    return df, outcome, folds


def _judge_brew(cfg, df, outcome, folds):
    """Returns list of (class id, what) and the number of folds that were in the property's domain."""
    kind, val = outcome
    out = []
    if kind == "exception:ValueError" and "No PSMs were detected" in val:
        return [("empty-fold-slice-in-chunk(C05)", "a prediction chunk without rows of some fold makes brew fail")], 0
    if kind.startswith("exception"):
        return [(kind, "brew raised: %s" % val)], 0
    if kind == "RuntimeError" and not folds:
        return [("runtimeerror-before-scoring", "brew raised before any fold was scored: %s" % val)], 0
    ids_all = np.concatenate([v[0] for v in folds.values()]) if folds else np.array([])
    if len(folds) != cfg["folds"] or sorted(ids_all.tolist()) != list(range(len(df))):
        return [("fold-recovery-failed", "the recorded predict() calls do not partition the rows into %d folds"
                 % cfg["folds"])], 0
    lab_all = (df["Label"].values == 1)
    per_fold = {}
    for fold, (ids, raw) in folds.items():
        per_fold[fold] = (ids, raw, lab_all[ids], anchors(raw, lab_all[ids], cfg["test_fdr"]))
    none_accepted = [f for f, v in per_fold.items() if v[3][0] is None]
    if kind == "RuntimeError":
        if none_accepted:
            return [], 0                                      # explicit error, as the statement demands
        f32 = [f for f, v in per_fold.items() if anchors(v[1], v[2], cfg["test_fdr"], True)[0] is None]
        return [("runtimeerror-float32-threshold-tie(C01)" if f32 else "runtimeerror-unexpected",
                 "brew stopped with RuntimeError although every fold has an accepted target")], 0
    scores = np.asarray(val)
    if scores.ndim != 1 or len(scores) != len(df):
        return [], 0                                          # best-feature fallback took over (C07), not this property
    if none_accepted:
        return [("runtimeerror-missing", "a fold without accepted target did not stop the run")], 0
    n_dom = 0
    for fold, (ids, raw, lab, (t, dd)) in sorted(per_fold.items()):
        cid, what, in_dom = judge(raw, lab, cfg["test_fdr"], ("ok", scores[ids]))
        n_dom += bool(in_dom)
        if cid:
            out.append(("fold:" + cid, "fold %d: %s" % (fold, what)))
    return out, n_dom


def _brew_configs(tier, seed):
    rng = np.random.default_rng(seed + 11)
    n = 60 if tier == "quick" else 600
    cfgs = []
    for k in range(n):
        folds = 2 + k % 3 if tier == "quick" else 2 + k % 5
        fdr = [0.2, 0.1, 0.25, 0.15][k % 4] if k % 5 else float(np.round(rng.uniform(0.08, 0.3), 3))
        if k % 10 == 9:
            fdr = 0.001                                       # nobody can be accepted: the explicit-error path
        cfgs.append({"k": k, "n_spec": int(rng.integers(100, 181)), "data_seed": int(rng.integers(1 << 30)),
                     "rng": int(rng.integers(1 << 30)), "folds": folds, "test_fdr": fdr,
                     "fmt": "parquet" if k % 2 else "tsv", "chunk": [None, 2, 3][k % 3],
                     "max_iter": 1 + (k % 4 == 3), "gain": [1.0, 0.01, 30.0][k % 3], "round": k % 7 == 6})
    return cfgs


def check_per_fold(tier, seed):
    cfgs = _brew_configs(tier, seed)
    ck = Check(
        "per_fold", "mokapot.brew.brew (brew._predict -> dataset.calibrate_scores per fold)",
        "random: %d brew runs (seed %d) on on-disk datasets of 200..360 PSMs (Parquet/TSV), folds 2..%d, test_fdr in "
        "{0.2, 0.1, 0.25, 0.15, uniform(0.08,0.3), 0.001 (error path)}, predictions made in 1, 2 or 3 row chunks, "
        "1-2 training iterations, a deterministic linear decision_function estimator whose scale differs per fold "
        "(x1..7, gain 0.01/1/30)" % (len(cfgs), seed, 4 if tier == "quick" else 6),
        "fold membership and raw output are recorded in Model.predict of each fold model; per fold the returned "
        "scores must equal (raw - t)/(t - d) with t, d from the exact oracle on that fold's raw output and labels: "
        "strictly increasing, 0 at t, -1 at d; RuntimeError iff some fold accepts nothing; non-trivial = a run "
        "whose folds are all in the domain (accepted target above the decoy median) and use different scales, or an "
        "error-path run")
    seen = set()
    stats = {"runs_ok": 0, "folds_in_domain": 0, "error_path": 0, "fallback": 0}
    with scratch("c11b_") as d:
        for cfg in cfgs:
            df, outcome, folds = _brew_case(cfg, d)
            vio, n_dom = _judge_brew(cfg, df, outcome, folds)
            if outcome[0] == "RuntimeError":
                stats["error_path"] += 1
            elif outcome[0] == "ok" and np.ndim(outcome[1]) != 1:
                stats["fallback"] += 1
            elif outcome[0] == "ok":
                stats["runs_ok"] += 1
                stats["folds_in_domain"] += n_dom
            nontriv = (outcome[0] == "RuntimeError" and not vio) or (outcome[0] == "ok" and n_dom == cfg["folds"])
            ck.case(cfg, nontrivial=nontriv)
            for cid, what in vio:
                base = cid.split(":")[-1] if cid.startswith("fold:") else cid
                if base not in seen:
                    seen.add(base)
                    ck.violation(cid, what, cfg)
    ck.rule += "; %(runs_ok)d scored runs with %(folds_in_domain)d folds in the domain, %(error_path)d error-path " \
               "runs, %(fallback)d runs taken over by the best-feature fallback" % stats
    return _freeze(ck)


# ----------------------------------------------------------------------------------------------------------
# (c) per fold, over prediction chunk sizes (chunks that hold no row of some fold)
# ----------------------------------------------------------------------------------------------------------
FITTED = []
CHUNK_MODES = ("one", "tail", "two", "tail", "folds-1", "tail", "folds", "default", "folds+1", "tail")


def _fit_rec_model_class():
    from mokapot.model import Model

    class FitRecModel(Model):
        """remembers which rows it was TRAINED on; nothing of the prediction path is observed"""

        def fit(self, psms):
            self.train_ids_ = psms.data["SpecId"].values.copy()
            self.fit_done_ = False
            FITTED.append(self)
            out = super().fit(psms)
            self.fit_done_ = True
            return out
    return FitRecModel


def _chunk_size(cfg, n):
    """rows per prediction chunk for a table of n rows (None = the module default, one chunk)"""
    mode, folds = cfg["chunk_mode"], cfg["folds"]
    if mode == "default":
        return None
    if mode == "one":
        return 1
    if mode == "two":
        return 2
    if mode.startswith("folds"):
        return max(1, folds + {"folds-1": -1, "folds": 0, "folds+1": 1}[mode])
    # "tail": cfg["parts"] long chunks and a last chunk of about cfg["tail"] rows (fewer rows than folds)
    return max(1, (n - cfg["tail"]) // cfg["parts"])


def _chunk_case(cfg, d):
    """Run brew once with the prediction chunk size of cfg. Returns (df, chunk size, outcome, fitted fold models)"""
    brew_mod = importlib.import_module("mokapot.brew")
    df = small_df(n_spec=cfg["n_spec"], dup=2, seed=cfg["data_seed"])
    if cfg.get("round"):
        df["f0"] = np.round(df["f0"] * 4) / 4
    ds = make_ds(df, d / ("p%d.%s" % (cfg["k"], cfg["fmt"])))
    del FITTED[:]
    model = _fit_rec_model_class()(FoldEstimator(cfg["gain"]), scaler="as-is", train_fdr=cfg["train_fdr"], max_iter=1,
                                   override=True, rng=cfg["data_seed"])
    chunk = _chunk_size(cfg, len(df))
    old = brew_mod.CHUNK_SIZE_ROWS_PREDICTION
    if chunk:
        brew_mod.CHUNK_SIZE_ROWS_PREDICTION = chunk
    try:
        _, models, scores, descs = brew_mod.brew(ds, model, test_fdr=cfg["test_fdr"], folds=cfg["folds"],
                                                 rng=cfg["rng"], max_workers=cfg["workers"])
        outcome = ("ok", scores[0])
    except RuntimeError as e:
        outcome = ("RuntimeError", str(e)[:160])
    except Exception as e:                                   # noqa: BLE001
        outcome = ("exception:" + type(e).__name__, str(e)[:200])
    finally:
        brew_mod.CHUNK_SIZE_ROWS_PREDICTION = old
    return df, chunk, outcome, list(FITTED)


def _chunk_class(n, chunk, fold_of, folds):
    """Names the chunking of the table, from the fold of every row (file order) and the chunk size alone."""
    if not chunk or chunk >= n:
        return "single-chunk"
    gap = lack = False
    for start in range(0, n, chunk):
        held = set(fold_of[start:start + chunk].tolist())
        if len(held) < folds:
            lack = True
            if any(f not in held for f in range(max(held))):
                gap = True                                    # lacks fold k, holds a higher-numbered fold
    return "chunk-lacks-lower-fold" if gap else ("chunk-lacks-fold" if lack else "all-chunks-hold-all-folds")


def _judge_chunks(cfg, df, chunk, outcome, fitted):
    """Returns (list of (class id, what), folds in the domain, chunk class or None)."""
    kind, val = outcome
    n = len(df)
    done = [m for m in fitted if getattr(m, "fit_done_", False)]
    if len(done) != cfg["folds"]:
        if kind == "RuntimeError":
            return [], 0, "untrained"                         # training stopped with an explicit error: nothing was scored
        return [("fold-recovery-failed", "%d trained fold models for %d folds (%s)" % (len(done), cfg["folds"], kind))], 0, None
    # fold f = the rows the model numbered f was NOT trained on (cross-validation); they must partition the table
    done.sort(key=lambda m: m.fold)
    fold_of = np.full(n, -1)
    per_fold = []
    for f, m in enumerate(done):
        ids = np.setdiff1d(np.arange(n), m.train_ids_)
        if len(ids) == 0 or np.any(fold_of[ids] >= 0):
            return [("fold-recovery-failed", "the held-out rows of the fold models do not partition the table")], 0, None
        fold_of[ids] = f
        per_fold.append((ids, m))
    if np.any(fold_of < 0):
        return [("fold-recovery-failed", "the held-out rows of the fold models do not partition the table")], 0, None
    cls = _chunk_class(n, chunk, fold_of, cfg["folds"])
    lab_all = (df["Label"].values == 1)
    judged = []
    for f, (ids, m) in enumerate(per_fold):
        # the fold's own model output, from the fitted estimator and the table (no mokapot prediction code)
        raw = np.asarray(m.estimator.decision_function(df[list(m.features)].values[ids].astype(float)), dtype=float)
        judged.append((f, ids, raw, lab_all[ids], anchors(raw, lab_all[ids], cfg["test_fdr"])))
    none_accepted = [f for f, _, _, _, (t, _) in judged if t is None]
    if kind.startswith("exception"):
        return [(cls + ":" + kind, "brew raised: %s" % val)], 0, cls
    if kind == "RuntimeError":
        if none_accepted:
            return [], 0, cls
        f32 = [f for f, _, raw, lab, _ in judged if anchors(raw, lab, cfg["test_fdr"], True)[0] is None]
        return [(cls + ":" + ("runtimeerror-float32-threshold-tie(C01)" if f32 else "runtimeerror-unexpected"),
                 "brew stopped with RuntimeError although every fold has an accepted target")], 0, cls
    scores = np.asarray(val)
    if scores.ndim != 1 or len(scores) != n:
        return [], 0, cls                                     # best-feature fallback took over (C07)
    if none_accepted:
        return [(cls + ":runtimeerror-missing", "a fold without accepted target did not stop the run")], 0, cls
    out, n_dom = [], 0
    for f, ids, raw, lab, _ in judged:
        cid, what, in_dom = judge(raw, lab, cfg["test_fdr"], ("ok", scores[ids]))
        n_dom += bool(in_dom)
        if cid:
            out.append((cls + ":fold:" + cid, "fold %d (chunks of %s rows, %d rows): %s" % (f, chunk, n, what)))
    return out, n_dom, cls


def _chunk_configs(tier, seed):
    rng = np.random.default_rng(seed + 1111)
    n = 40 if tier == "quick" else 600
    cyc = len(CHUNK_MODES)
    cfgs = []
    for k in range(n):
        mode = CHUNK_MODES[k % cyc]
        folds = 2 + (k // cyc + k) % (3 if tier == "quick" else 5)
        if mode == "one":                                     # one brew chunk per row: tiny tables, few folds
            n_spec, folds = int(rng.integers(35, 56)), 2 + (k // cyc) % 2
        elif mode in ("tail", "default"):
            n_spec = int(rng.integers(100, 181))
        else:
            n_spec = int(rng.integers(45, 76))
        if n_spec >= 100:
            fdr = [0.2, 0.1, 0.25, 0.15][(k // 2) % 4] if k % 5 else float(np.round(rng.uniform(0.08, 0.3), 3))
        else:                                                 # small folds cannot accept anything at 0.1
            fdr = [0.2, 0.3, 0.25, 0.35][(k // 2) % 4] if k % 5 else float(np.round(rng.uniform(0.15, 0.4), 3))
        if k % 20 == 19:
            fdr = 0.001                                       # the explicit-error path
        cfgs.append({"k": k, "n_spec": n_spec, "data_seed": int(rng.integers(1 << 30)),
                     "rng": int(rng.integers(1 << 30)), "folds": folds, "test_fdr": fdr,
                     "fmt": "parquet" if (k // 3) % 2 else "tsv", "chunk_mode": mode,
                     "tail": int(rng.integers(1, max(2, folds))), "parts": int(rng.integers(1, 4)),
                     "train_fdr": 0.2 if n_spec >= 100 else 0.35,
                     "workers": 2 if k % 3 == 2 and mode in ("tail", "default", "folds+1") else 1,
                     "gain": [1.0, 0.01, 30.0][k % 3], "round": k % 7 == 6})
    return cfgs


def check_per_fold_chunks(tier, seed):
    cfgs = _chunk_configs(tier, seed)
    ck = Check(
        "per_fold_chunks", "mokapot.brew.brew (brew._predict over several prediction chunks -> calibrate_scores per fold)",
        "random: %d brew runs (seed %d) on on-disk datasets (Parquet/TSV) of 200..360 PSMs (one chunk, long chunks + "
        "short last chunk), 90..150 PSMs (chunks of 2, folds-1, folds, folds+1 rows) or 70..110 PSMs and 2..3 folds "
        "(chunks of 1 row), folds 2..%d, max_workers 1 or 2, test_fdr in {0.2, 0.1, 0.25, 0.15, "
        "uniform(0.08,0.3)} (small tables: {0.2, 0.3, 0.25, 0.35, uniform(0.15,0.4)}, train_fdr 0.35 instead of 0.2) or "
        "0.001 (error path), mokapot.brew.CHUNK_SIZE_ROWS_PREDICTION monkey-patched to 1, 2, "
        "folds-1, folds, folds+1 rows, to 1..3 long chunks followed by a last chunk of fewer rows than folds (+ at most 2), and left at "
        "its default (one chunk); one training iteration, the per-fold-scale linear estimator of check per_fold"
        % (len(cfgs), seed, 4 if tier == "quick" else 6),
        "fold f = the rows the trained fold model number f was not trained on (model and training rows captured in Model.fit; nothing of the "
        "prediction path is observed); the fold's own model output is computed from the fitted estimator and the "
        "table; per fold the returned scores must equal (raw - t)/(t - d) with t, d from the exact oracle: same "
        "ranking as the raw output, 0 at t, -1 at d; RuntimeError iff some fold accepts nothing; case ids are "
        "prefixed with the chunking class computed from fold membership and chunk size; non-trivial = a scored run "
        "whose folds are all in the domain and in which some chunk holds no row of some fold, or an error-path run")
    seen = set()
    stats = {"runs_ok": 0, "folds_in_domain": 0, "error_path": 0, "fallback": 0, "untrained": 0, "single-chunk": 0,
             "all-chunks-hold-all-folds": 0, "chunk-lacks-fold": 0, "chunk-lacks-lower-fold": 0}
    with scratch("c11c_") as d:
        for cfg in cfgs:
            df, chunk, outcome, fitted = _chunk_case(cfg, d)
            vio, n_dom, cls = _judge_chunks(cfg, df, chunk, outcome, fitted)
            if cls:
                stats[cls] += 1
            if cls == "untrained":
                pass
            elif outcome[0] == "RuntimeError":
                stats["error_path"] += 1
            elif outcome[0] == "ok" and np.ndim(outcome[1]) != 1:
                stats["fallback"] += 1
            elif outcome[0] == "ok":
                stats["runs_ok"] += 1
                stats["folds_in_domain"] += n_dom
            nontriv = (outcome[0] == "RuntimeError" and not vio and cls != "untrained") or \
                (outcome[0] == "ok" and n_dom == cfg["folds"] and str(cls).startswith("chunk-lacks"))
            ck.case(cfg, nontrivial=nontriv)
            for cid, what in vio:
                if cid not in seen:
                    seen.add(cid)
                    ck.violation(cid, what, cfg)
    ck.rule += "; %(runs_ok)d scored runs with %(folds_in_domain)d folds in the domain, %(error_path)d error-path " \
               "runs, %(fallback)d fallback runs, %(untrained)d runs not judged because training itself stopped with " \
               "RuntimeError (table too small for train_fdr); chunking of the runs: %(single-chunk)d single chunk, " \
               "%(all-chunks-hold-all-folds)d every chunk holds all folds, %(chunk-lacks-fold)d some chunk lacks " \
               "only its highest folds, %(chunk-lacks-lower-fold)d some chunk lacks fold k but holds a higher-numbered fold" % stats
    return _freeze(ck)


# ----------------------------------------------------------------------------------------------------------
def REPLAY(check_name, violation):
    inp = violation["input"]
    if isinstance(inp, str):
        inp = json.loads(inp)
    if check_name == "calibrate":
        scores = np.array(inp["scores"], dtype=float)
        lab = np.array(inp["targets"], dtype=bool)
        with scratch("c11r_") as d:
            outcome = _call_module(scores, lab, inp["eval_fdr"]) if inp.get("where", "module") == "module" \
                else _call_ondisk(scores, lab, inp["eval_fdr"], d, 1)
        cid, what, _ = judge(scores, lab, inp["eval_fdr"], outcome)
        return {"violated": cid is not None, "case": cid, "detail": what}
    if check_name == "per_fold":
        with scratch("c11r_") as d:
            df, outcome, folds = _brew_case(inp, d)
            vio, _ = _judge_brew(inp, df, outcome, folds)
        return {"violated": bool(vio), "detail": vio}
    if check_name == "per_fold_chunks":
        with scratch("c11r_") as d:
            df, chunk, outcome, fitted = _chunk_case(inp, d)
            vio, _, cls = _judge_chunks(inp, df, chunk, outcome, fitted)
        return {"violated": bool(vio), "detail": vio, "chunking": cls}
    return {"violated": None, "note": "no replay for %s" % check_name}


if __name__ == "__main__":
    a = args()
    np.random.seed(a.seed)
    emit([check_calibrate(a.tier, a.seed), check_per_fold(a.tier, a.seed), check_per_fold_chunks(a.tier, a.seed)],
         ["accepted targets are decided by the exact rational q-values of the C01 oracle, rounded to the nearest double "
          "(q <= eval_fdr); a mismatch "
          "explained by tdc's float32 rounding at the threshold gets a case id ending in '(C01)'",
          "the ordering and anchor claims are checked only where the lowest accepted target lies above the decoy "
          "median (t > d), the property's stated domain; for t <= d only the RuntimeError-iff clause is checked",
          "a fold is the set of rows a fold model was asked to score (recorded in Model.predict); brew runs in which "
          "the best-feature fallback replaces the model scores are counted but not judged (C07)",
          "per_fold_chunks: a fold is the set of rows its fold model was NOT trained on (training rows captured in "
          "Model.fit) and the fold's raw output is recomputed from the fitted estimator, so rows scored by another "
          "fold's model or calibrated with another fold show up; the prediction chunk size is set by monkey-patching "
          "mokapot.brew.CHUNK_SIZE_ROWS_PREDICTION; runs whose TRAINING stops with RuntimeError (table too small for "
          "train_fdr) are counted, not judged; one file per run (several files are not covered)",
          "comparison tolerance %g relative; desc=True only" % TOL])
