"""C11 bounded stand-in: score calibration (module level, on-disk dataset, per fold through brew over chunkings and
estimator kinds, and the reset path of a single pre-trained model).

  python -m harness.c11 --tier quick|thorough --seed N

The oracle never calls mokapot: accepted targets come from the exact rational q-values of harness/_c01_oracle.py,
the anchors are t = lowest score among the accepted targets and d = median decoy score, the expected result is
(s - t) / (t - d).
"""
import collections
import importlib
import json
import logging
import re
import warnings

import numpy as np
import pandas as pd

from harness.common import Check, args, emit
from harness.datasets import scratch, small_df, make_ds
from harness._c01_oracle import oracle_q_fast
from harness import _c11_large as large

warnings.filterwarnings("ignore")
logging.disable(logging.CRITICAL)

TOL = 1e-9
FDRS = (0.05, 0.1, 0.2, 0.25, 0.3, 0.5)


def _freeze(ck):
    res = ck.result()
    ck.result = lambda: res
    return ck


# ----------------------------------------------------------------------------------------------------------
# oracle
# ----------------------------------------------------------------------------------------------------------
def _median(xs):
    xs = sorted(float(x) for x in xs)
    m = len(xs)
    return xs[m // 2] if m % 2 else (xs[m // 2 - 1] + xs[m // 2]) / 2.0


def anchors(scores, targets, eval_fdr, float32_q=False):
    """(t, d): t = lowest score among targets with q <= eval_fdr (None if there is none), d = decoy median.
    float32_q=True rounds the q-values to float32 first; it is only used to NAME a mismatch that is explained
    by the float32 threshold comparison reported under C01."""
    if len(scores) >= large.LARGE:                                     # same doubles from one sort (see _c11_large)
        sc, tg = np.asarray(scores, dtype=float), np.asarray(targets, dtype=bool)
        q = large.q_doubles(sc, tg)
        if float32_q:
            q = q.astype(np.float32).astype(float)
        acc = sc[tg & (q <= float(eval_fdr))]
        return (float(acc.min()) if len(acc) else None), large.median(sc[~tg])
    q = [float(x) for x in oracle_q_fast(scores, targets, True)]       # nearest doubles of the exact q-values
    if float32_q:
        q = [float(np.float32(x)) for x in q]
    acc = [float(s) for s, tg, qi in zip(scores, targets, q) if tg and qi <= float(eval_fdr)]
    d = _median([s for s, tg in zip(scores, targets) if not tg])
    return (min(acc) if acc else None), d


def judge(scores, targets, eval_fdr, outcome):
    """outcome: ("ok", array) | ("RuntimeError", msg) | ("exception:X", msg).
    Returns (class id or None, what, in_domain)."""
    scores = np.asarray(scores, dtype=float)
    targets = np.asarray(targets, dtype=bool)
    t, d = anchors(scores, targets, eval_fdr)
    t32, _ = anchors(scores, targets, eval_fdr, float32_q=True)
    kind, val = outcome
    if kind.startswith("exception"):
        return kind, "unexpected exception: %s" % val, False
    if t is None:
        if kind == "RuntimeError":
            return None, None, True
        if t32 is not None:
            return ("scores-returned-float32-threshold(C01)",
                    "no target has q <= eval_fdr, yet scores are returned (a q-value just above the threshold was "
                    "rounded down to float32 before the comparison)", True)
        return "runtimeerror-missing", "no target is accepted at eval_fdr but scores were returned", True
    if kind == "RuntimeError":
        if t32 is None:
            return ("runtimeerror-float32-threshold-tie(C01)",
                    "targets with q exactly equal to eval_fdr exist, yet RuntimeError (their q-value was rounded up "
                    "to float32 before the comparison)", True)
        return "runtimeerror-unexpected", "RuntimeError although a target is accepted at eval_fdr", True
    res = np.asarray(val, dtype=float)
    if res.shape != scores.shape:
        return "shape", "result shape %r for %d scores" % (res.shape, len(scores)), True
    if not t > d:
        return None, None, False                 # outside the property's domain (no accepted target above the decoy median)

    def matches(tt):
        want = (scores - tt) / (tt - d)
        return bool(np.all(np.abs(res - want) <= TOL * (1 + np.abs(want))))

    if not matches(t):
        if t32 is not None and t32 != t and t32 != d and matches(t32):
            return ("anchor-shifted-float32-threshold-tie(C01)",
                    "0 is not at the lowest accepted target: targets whose q equals eval_fdr exactly were left out "
                    "(q-value rounded up to float32 before the comparison)", True)
        # which anchor is off?
        a, b = _affine(scores, res)
        if a is None or not np.isfinite(a):
            return "not-affine", "result is not an affine function of the scores", True
        if a <= 0:
            return "order-reversed", "result decreases with the score (slope %g)" % a, True
        if abs(a * t + b) > 1e-7 * (1 + abs(a * t)):
            return "zero-anchor-wrong", "lowest accepted target does not map to 0", True
        if abs(a * d + b + 1) > 1e-7 * (1 + abs(a * d)):
            return "minus-one-anchor-wrong", "decoy median does not map to -1", True
        return "formula-mismatch", "result differs from (s - t) / (t - d)", True
    # consequences, checked on the returned values alone
    order = np.argsort(scores, kind="stable")
    ss, rr = scores[order], res[order]
    for k in range(len(ss) - 1):
        if ss[k] == ss[k + 1]:
            if rr[k] != rr[k + 1]:
                return "ties-unequal", "equal scores map to different calibrated scores", True
        elif not rr[k] < rr[k + 1]:
            return "not-strictly-increasing", "a better score does not map to a larger calibrated score", True
    if np.any(np.abs(res[scores == t]) > 1e-12):
        return "zero-anchor-wrong", "lowest accepted target does not map to 0", True
    a, b = _affine(scores, res)
    if a is not None and (not a > 0 or abs(a * d + b + 1) > 1e-7 * (1 + abs(a * d))):
        return "minus-one-anchor-wrong", "decoy median does not map to -1", True
    return None, None, True


def _affine(scores, res):
    """slope and intercept of the returned map, from its two extreme distinct points; None if not affine"""
    lo, hi = int(np.argmin(scores)), int(np.argmax(scores))
    if scores[lo] == scores[hi]:
        return None, None
    a = (res[hi] - res[lo]) / (scores[hi] - scores[lo])
    b = res[lo] - a * scores[lo]
    if not np.all(np.abs(a * scores + b - res) <= 1e-7 * (1 + np.abs(res))):
        return None, None
    return float(a), float(b)


# ----------------------------------------------------------------------------------------------------------
# (a) calibrate_scores, module level and on disk
# ----------------------------------------------------------------------------------------------------------
def _gen_case(rng, k):
    n = int(rng.integers(6, 81))
    lab = rng.random(n) < rng.choice([0.3, 0.5, 0.7])
    if lab.all():
        lab[int(rng.integers(n))] = False
    if not lab.any():
        lab[int(rng.integers(n))] = True
    shift = float(rng.choice([0.0, 2.5, 4.0, 6.0]))
    scale = float(rng.choice([1, 10, 0.01]))
    scores = rng.normal(0, 1, n) * scale
    scores = scores + shift * lab * (np.abs(scores).max() / 3 + 1e-12) * (rng.random(n) < 0.7)
    mode = k % 4
    if mode == 1:
        scores = np.round(scores / scale * 4) / 4 * scale   # ties
    elif mode == 2:
        scores = np.round(scores / scale) * scale           # heavy ties
    elif mode == 3:
        scores = scores - 50.0 * scale                      # all negative: sign conventions
    scores = np.round(scores, 5 if scale < 1 else 3) + 0.0  # short decimal representations (replay records)
    fdr = float(FDRS[k % len(FDRS)]) if k % 3 else float(np.round(rng.uniform(0.05, 0.6), 3))
    return scores.astype(float), lab, fdr


def _call_module(scores, lab, fdr):
    ds = importlib.import_module("mokapot.dataset")
    try:
        return "ok", ds.calibrate_scores(scores.copy(), lab.copy(), fdr)
    except RuntimeError as e:
        return "RuntimeError", str(e)[:120]
    except Exception as e:                                  # noqa: BLE001
        return "exception:" + type(e).__name__, str(e)[:200]


def _call_ondisk(scores, lab, fdr, d, k):
    n = len(scores)
    df = pd.DataFrame({"SpecId": np.arange(n), "Label": np.where(lab, 1, -1), "ScanNr": np.arange(n) // 2,
                       "ExpMass": 100.0 + np.arange(n) // 2, "f0": scores, "f1": np.zeros(n),
                       "Peptide": ["PEP%dK" % i for i in range(n)], "Proteins": ["prot%d" % (i % 5) for i in range(n)]})
    psms = make_ds(df, d / ("c%d.%s" % (k, "parquet" if k % 2 else "tsv")))
    try:
        return "ok", psms.calibrate_scores(scores.copy(), fdr)
    except RuntimeError as e:
        return "RuntimeError", str(e)[:120]
    except Exception as e:                                  # noqa: BLE001
        return "exception:" + type(e).__name__, str(e)[:200]


def _inp(scores, lab, fdr, where):
    return {"scores": [float(x) for x in scores], "targets": [int(x) for x in lab], "eval_fdr": fdr, "where": where}


def check_calibrate(tier, seed):
    n_mod, n_disk = (800, 80) if tier == "quick" else (15000, 1000)
    ck = Check(
        "calibrate", "mokapot.dataset.calibrate_scores, mokapot.dataset.OnDiskPsmDataset.calibrate_scores",
        "random: %d score vectors for the module-level function and %d for the on-disk method (tiny Parquet/TSV "
        "datasets), seed %d, 6..80 PSMs (on disk: at most 40), at least one target and one decoy, continuous / quarter-rounded / integer / "
        "all-negative scores on scales 0.01, 1, 10, eval_fdr in %s or uniform(0.05, 0.6), desc=True (the only mode brew uses)"
        % (n_mod, n_disk, seed, list(FDRS)),
        "expected: RuntimeError iff no target has exact rational q <= eval_fdr; else (s - t)/(t - d), 0 at t, -1 at "
        "d, strictly increasing, checked when t > d (property domain); non-trivial = an accepted target exists, "
        "t > d and not every target is accepted (or: no target accepted and RuntimeError expected)")
    rng = np.random.default_rng(seed)
    seen = set()
    stats = {"domain": 0, "error_path": 0, "outside": 0}
    with scratch("c11_") as d:
        for k in range(n_mod + n_disk):
            scores, lab, fdr = _gen_case(rng, k)
            where = "module" if k < n_mod else "ondisk"
            if where == "ondisk":
                scores, lab = scores[:40], lab[:40]
                if lab.all() or not lab.any():
                    lab[0], lab[1] = True, False
            outcome = _call_module(scores, lab, fdr) if where == "module" else _call_ondisk(scores, lab, fdr, d, k)
            cid, what, in_dom = judge(scores, lab, fdr, outcome)
            t, dd = anchors(scores, lab, fdr)
            if t is None:
                stats["error_path"] += 1
                nontriv = True
            elif in_dom:
                stats["domain"] += 1
                q = oracle_q_fast(scores, lab, True)
                nontriv = any(tg and float(qi) > fdr for tg, qi in zip(lab, q))
            else:
                stats["outside"] += 1
                nontriv = False
            ck.case((where, scores.tolist(), lab.tolist(), fdr), nontrivial=nontriv)
            if cid and (cid, where) not in seen:
                seen.add((cid, where))
                ck.violation(cid if where == "module" else "ondisk:" + cid, what, _inp(scores, lab, fdr, where))
    ck.rule += "; cases in domain %(domain)d, error path %(error_path)d, outside the domain (t <= d) %(outside)d" % stats
    return _freeze(ck)


# ----------------------------------------------------------------------------------------------------------
# (b) per fold, through brew
# ----------------------------------------------------------------------------------------------------------
LOG = []


class FoldEstimator:
    """Deterministic linear decision function whose weights, offset and SCALE depend on the training rows, so
    that every fold's raw output lives on its own scale (the situation calibration exists for)."""

    def __init__(self, gain=1.0):
        self.gain = gain

    def get_params(self, deep=True):
        return {"gain": self.gain}

    def set_params(self, **params):
        for k, v in params.items():
            setattr(self, k, v)
        return self

    def fit(self, X, y):
        pos, neg = X[y == 1], X[y == 0]
        self.w_ = np.array([1.0, 0.25 * np.tanh(pos[:, 1].mean() - neg[:, 1].mean())])
        self.b_ = -float(np.median(X[:, 0]))
        self.s_ = self.gain * (1 + len(X) % 7)
        return self

    def decision_function(self, X):
        return self.s_ * (X[:, :2] @ self.w_ + self.b_)


def _rec_model_class():
    from mokapot.model import Model

    class RecModel(Model):
        """records, per fold model, which rows it was asked to score and what it answered"""

        def predict(self, psms):
            out = super().predict(psms)
            LOG.append((self.fold, psms.data["SpecId"].values.copy(), np.asarray(out, dtype=float).copy()))
            return out
    return RecModel


def _brew_case(cfg, d):
    """Run brew once. Returns (df, outcome, per-fold {fold: (ids, raw)})"""
    brew_mod = importlib.import_module("mokapot.brew")
    df = small_df(n_spec=cfg["n_spec"], dup=2, seed=cfg["data_seed"])
    if cfg.get("round"):
        df["f0"] = np.round(df["f0"] * 4) / 4                # ties in the raw scores
    ds = make_ds(df, d / ("b%d.%s" % (cfg["k"], cfg["fmt"])))
    del LOG[:]
    model = _rec_model_class()(FoldEstimator(cfg["gain"]), scaler="as-is", train_fdr=0.2, max_iter=cfg["max_iter"],
                               override=True, rng=cfg["data_seed"])
    old = brew_mod.CHUNK_SIZE_ROWS_PREDICTION
    if cfg["chunk"]:                                         # the table is scored in 2 or 3 row chunks
        brew_mod.CHUNK_SIZE_ROWS_PREDICTION = -(-len(df) // cfg["chunk"])
    try:
        _, models, scores, descs = brew_mod.brew(ds, model, test_fdr=cfg["test_fdr"], folds=cfg["folds"],
                                                 rng=cfg["rng"])
        outcome = ("ok", scores[0])
    except RuntimeError as e:
        outcome = ("RuntimeError", str(e)[:160])
    except Exception as e:                                   # noqa: BLE001
        outcome = ("exception:" + type(e).__name__, str(e)[:200])
    finally:
        brew_mod.CHUNK_SIZE_ROWS_PREDICTION = old
    folds = {}
    for fold, ids, raw in LOG:
        a, b = folds.get(fold, (np.array([], dtype=int), np.array([])))
        folds[fold] = (np.concatenate([a, ids]), np.concatenate([b, raw]))
    return df, outcome, folds


def _judge_brew(cfg, df, outcome, folds):
    """Returns list of (class id, what) and the number of folds that were in the property's domain."""
    kind, val = outcome
    out = []
    if kind == "exception:ValueError" and "No PSMs were detected" in val:
        return [("empty-fold-slice-in-chunk(C05)", "a prediction chunk without rows of some fold makes brew fail")], 0
    if kind.startswith("exception"):
        return [(kind, "brew raised: %s" % val)], 0
    if kind == "RuntimeError" and not folds:
        return [("runtimeerror-before-scoring", "brew raised before any fold was scored: %s" % val)], 0
    ids_all = np.concatenate([v[0] for v in folds.values()]) if folds else np.array([])
    if len(folds) != cfg["folds"] or sorted(ids_all.tolist()) != list(range(len(df))):
        return [("fold-recovery-failed", "the recorded predict() calls do not partition the rows into %d folds"
                 % cfg["folds"])], 0
    lab_all = (df["Label"].values == 1)
    per_fold = {}
    for fold, (ids, raw) in folds.items():
        per_fold[fold] = (ids, raw, lab_all[ids], anchors(raw, lab_all[ids], cfg["test_fdr"]))
    none_accepted = [f for f, v in per_fold.items() if v[3][0] is None]
    if kind == "RuntimeError":
        if none_accepted:
            return [], 0                                      # explicit error, as the statement demands
        f32 = [f for f, v in per_fold.items() if anchors(v[1], v[2], cfg["test_fdr"], True)[0] is None]
        return [("runtimeerror-float32-threshold-tie(C01)" if f32 else "runtimeerror-unexpected",
                 "brew stopped with RuntimeError although every fold has an accepted target")], 0
    scores = np.asarray(val)
    if scores.ndim != 1 or len(scores) != len(df):
        return [], 0                                          # best-feature fallback took over (C07), not this property
    if none_accepted:
        return [("runtimeerror-missing", "a fold without accepted target did not stop the run")], 0
    n_dom = 0
    for fold, (ids, raw, lab, (t, dd)) in sorted(per_fold.items()):
        cid, what, in_dom = judge(raw, lab, cfg["test_fdr"], ("ok", scores[ids]))
        n_dom += bool(in_dom)
        if cid:
            out.append(("fold:" + cid, "fold %d: %s" % (fold, what)))
    return out, n_dom


def _brew_configs(tier, seed):
    rng = np.random.default_rng(seed + 11)
    n = 60 if tier == "quick" else 600
    cfgs = []
    for k in range(n):
        folds = 2 + k % 3 if tier == "quick" else 2 + k % 5
        fdr = [0.2, 0.1, 0.25, 0.15][k % 4] if k % 5 else float(np.round(rng.uniform(0.08, 0.3), 3))
        if k % 10 == 9:
            fdr = 0.001                                       # nobody can be accepted: the explicit-error path
        cfgs.append({"k": k, "n_spec": int(rng.integers(100, 181)), "data_seed": int(rng.integers(1 << 30)),
                     "rng": int(rng.integers(1 << 30)), "folds": folds, "test_fdr": fdr,
                     "fmt": "parquet" if k % 2 else "tsv", "chunk": [None, 2, 3][k % 3],
                     "max_iter": 1 + (k % 4 == 3), "gain": [1.0, 0.01, 30.0][k % 3], "round": k % 7 == 6})
    return cfgs


def check_per_fold(tier, seed):
    cfgs = _brew_configs(tier, seed)
    ck = Check(
        "per_fold", "mokapot.brew.brew (brew._predict -> dataset.calibrate_scores per fold)",
        "random: %d brew runs (seed %d) on on-disk datasets of 200..360 PSMs (Parquet/TSV), folds 2..%d, test_fdr in "
        "{0.2, 0.1, 0.25, 0.15, uniform(0.08,0.3), 0.001 (error path)}, predictions made in 1, 2 or 3 row chunks, "
        "1-2 training iterations, a deterministic linear decision_function estimator whose scale differs per fold "
        "(x1..7, gain 0.01/1/30)" % (len(cfgs), seed, 4 if tier == "quick" else 6),
        "fold membership and raw output are recorded in Model.predict of each fold model; per fold the returned "
        "scores must equal (raw - t)/(t - d) with t, d from the exact oracle on that fold's raw output and labels: "
        "strictly increasing, 0 at t, -1 at d; RuntimeError iff some fold accepts nothing; non-trivial = a run "
        "whose folds are all in the domain (accepted target above the decoy median) and use different scales, or an "
        "error-path run")
    seen = set()
    stats = {"runs_ok": 0, "folds_in_domain": 0, "error_path": 0, "fallback": 0}
    with scratch("c11b_") as d:
        for cfg in cfgs:
            df, outcome, folds = _brew_case(cfg, d)
            vio, n_dom = _judge_brew(cfg, df, outcome, folds)
            if outcome[0] == "RuntimeError":
                stats["error_path"] += 1
            elif outcome[0] == "ok" and np.ndim(outcome[1]) != 1:
                stats["fallback"] += 1
            elif outcome[0] == "ok":
                stats["runs_ok"] += 1
                stats["folds_in_domain"] += n_dom
            nontriv = (outcome[0] == "RuntimeError" and not vio) or (outcome[0] == "ok" and n_dom == cfg["folds"])
            ck.case(cfg, nontrivial=nontriv)
            for cid, what in vio:
                base = cid.split(":")[-1] if cid.startswith("fold:") else cid
                if base not in seen:
                    seen.add(base)
                    ck.violation(cid, what, cfg)
    ck.rule += "; %(runs_ok)d scored runs with %(folds_in_domain)d folds in the domain, %(error_path)d error-path " \
               "runs, %(fallback)d runs taken over by the best-feature fallback" % stats
    return _freeze(ck)


# ----------------------------------------------------------------------------------------------------------
# (c) per fold, over prediction chunk sizes (chunks that hold no row of some fold)
# ----------------------------------------------------------------------------------------------------------
FITTED = []
CHUNK_MODES = ("one", "tail", "two", "tail", "folds-1", "tail", "folds", "default", "folds+1", "tail")


def _fit_rec_model_class():
    from mokapot.model import Model

    class FitRecModel(Model):
        """remembers which rows it was TRAINED on; nothing of the prediction path is observed"""

        def fit(self, psms):
            self.train_ids_ = psms.data["SpecId"].values.copy()
            self.fit_done_ = False
            FITTED.append(self)
            out = super().fit(psms)
            self.fit_done_ = True
            return out
    return FitRecModel


def _chunk_size(cfg, n):
    """rows per prediction chunk for a table of n rows (None = the module default, one chunk)"""
    mode, folds = cfg["chunk_mode"], cfg["folds"]
    if mode == "default":
        return None
    if mode == "one":
        return 1
    if mode == "two":
        return 2
    if mode.startswith("folds"):
        return max(1, folds + {"folds-1": -1, "folds": 0, "folds+1": 1}[mode])
    # "tail": cfg["parts"] long chunks and a last chunk of about cfg["tail"] rows (fewer rows than folds)
    return max(1, (n - cfg["tail"]) // cfg["parts"])


def _chunk_case(cfg, d):
    """Run brew once with the prediction chunk size of cfg. Returns (df, chunk size, outcome, fitted fold models)"""
    brew_mod = importlib.import_module("mokapot.brew")
    df = small_df(n_spec=cfg["n_spec"], dup=2, seed=cfg["data_seed"])
    if cfg.get("round"):
        df["f0"] = np.round(df["f0"] * 4) / 4
    ds = make_ds(df, d / ("p%d.%s" % (cfg["k"], cfg["fmt"])))
    del FITTED[:]
    model = _fit_rec_model_class()(FoldEstimator(cfg["gain"]), scaler="as-is", train_fdr=cfg["train_fdr"], max_iter=1,
                                   override=True, rng=cfg["data_seed"])
    chunk = _chunk_size(cfg, len(df))
    old = brew_mod.CHUNK_SIZE_ROWS_PREDICTION
    if chunk:
        brew_mod.CHUNK_SIZE_ROWS_PREDICTION = chunk
    try:
        _, models, scores, descs = brew_mod.brew(ds, model, test_fdr=cfg["test_fdr"], folds=cfg["folds"],
                                                 rng=cfg["rng"], max_workers=cfg["workers"])
        outcome = ("ok", scores[0])
    except RuntimeError as e:
        outcome = ("RuntimeError", str(e)[:160])
    except Exception as e:                                   # noqa: BLE001
        outcome = ("exception:" + type(e).__name__, str(e)[:200])
    finally:
        brew_mod.CHUNK_SIZE_ROWS_PREDICTION = old
    return df, chunk, outcome, list(FITTED)


def _chunk_class(n, chunk, fold_of, folds):
    """Names the chunking of the table, from the fold of every row (file order) and the chunk size alone."""
    if not chunk or chunk >= n:
        return "single-chunk"
    gap = lack = False
    for start in range(0, n, chunk):
        held = set(fold_of[start:start + chunk].tolist())
        if len(held) < folds:
            lack = True
            if any(f not in held for f in range(max(held))):
                gap = True                                    # lacks fold k, holds a higher-numbered fold
    return "chunk-lacks-lower-fold" if gap else ("chunk-lacks-fold" if lack else "all-chunks-hold-all-folds")


def _judge_chunks(cfg, df, chunk, outcome, fitted):
    """Returns (list of (class id, what), folds in the domain, chunk class or None)."""
    kind, val = outcome
    n = len(df)
    done = [m for m in fitted if getattr(m, "fit_done_", False)]
    if len(done) != cfg["folds"]:
        if kind == "RuntimeError":
            return [], 0, "untrained"                         # training stopped with an explicit error: nothing was scored
        return [("fold-recovery-failed", "%d trained fold models for %d folds (%s)" % (len(done), cfg["folds"], kind))], 0, None
    # fold f = the rows the model numbered f was NOT trained on (cross-validation); they must partition the table
    done.sort(key=lambda m: m.fold)
    fold_of = np.full(n, -1)
    per_fold = []
    for f, m in enumerate(done):
        ids = np.setdiff1d(np.arange(n), m.train_ids_)
        if len(ids) == 0 or np.any(fold_of[ids] >= 0):
            return [("fold-recovery-failed", "the held-out rows of the fold models do not partition the table")], 0, None
        fold_of[ids] = f
        per_fold.append((ids, m))
    if np.any(fold_of < 0):
        return [("fold-recovery-failed", "the held-out rows of the fold models do not partition the table")], 0, None
    cls = _chunk_class(n, chunk, fold_of, cfg["folds"])
    lab_all = (df["Label"].values == 1)
    judged = []
    for f, (ids, m) in enumerate(per_fold):
        # the fold's own model output, from the fitted estimator and the table (no mokapot prediction code)
        raw = np.asarray(m.estimator.decision_function(df[list(m.features)].values[ids].astype(float)), dtype=float)
        judged.append((f, ids, raw, lab_all[ids], anchors(raw, lab_all[ids], cfg["test_fdr"])))
    none_accepted = [f for f, _, _, _, (t, _) in judged if t is None]
    if kind.startswith("exception"):
        return [(cls + ":" + kind, "brew raised: %s" % val)], 0, cls
    if kind == "RuntimeError":
        if none_accepted:
            return [], 0, cls
        f32 = [f for f, _, raw, lab, _ in judged if anchors(raw, lab, cfg["test_fdr"], True)[0] is None]
        return [(cls + ":" + ("runtimeerror-float32-threshold-tie(C01)" if f32 else "runtimeerror-unexpected"),
                 "brew stopped with RuntimeError although every fold has an accepted target")], 0, cls
    scores = np.asarray(val)
    if scores.ndim != 1 or len(scores) != n:
        return [], 0, cls                                     # best-feature fallback took over (C07)
    if none_accepted:
        return [(cls + ":runtimeerror-missing", "a fold without accepted target did not stop the run")], 0, cls
    out, n_dom = [], 0
    for f, ids, raw, lab, _ in judged:
        cid, what, in_dom = judge(raw, lab, cfg["test_fdr"], ("ok", scores[ids]))
        n_dom += bool(in_dom)
        if cid:
            out.append((cls + ":fold:" + cid, "fold %d (chunks of %s rows, %d rows): %s" % (f, chunk, n, what)))
    return out, n_dom, cls


def _chunk_configs(tier, seed):
    rng = np.random.default_rng(seed + 1111)
    n = 40 if tier == "quick" else 600
    cyc = len(CHUNK_MODES)
    cfgs = []
    for k in range(n):
        mode = CHUNK_MODES[k % cyc]
        folds = 2 + (k // cyc + k) % (3 if tier == "quick" else 5)
        if mode == "one":                                     # one brew chunk per row: tiny tables, few folds
            n_spec, folds = int(rng.integers(35, 56)), 2 + (k // cyc) % 2
        elif mode in ("tail", "default"):
            n_spec = int(rng.integers(100, 181))
        else:
            n_spec = int(rng.integers(45, 76))
        if n_spec >= 100:
            fdr = [0.2, 0.1, 0.25, 0.15][(k // 2) % 4] if k % 5 else float(np.round(rng.uniform(0.08, 0.3), 3))
        else:                                                 # small folds cannot accept anything at 0.1
            fdr = [0.2, 0.3, 0.25, 0.35][(k // 2) % 4] if k % 5 else float(np.round(rng.uniform(0.15, 0.4), 3))
        if k % 20 == 19:
            fdr = 0.001                                       # the explicit-error path
        cfgs.append({"k": k, "n_spec": n_spec, "data_seed": int(rng.integers(1 << 30)),
                     "rng": int(rng.integers(1 << 30)), "folds": folds, "test_fdr": fdr,
                     "fmt": "parquet" if (k // 3) % 2 else "tsv", "chunk_mode": mode,
                     "tail": int(rng.integers(1, max(2, folds))), "parts": int(rng.integers(1, 4)),
                     "train_fdr": 0.2 if n_spec >= 100 else 0.35,
                     "workers": 2 if k % 3 == 2 and mode in ("tail", "default", "folds+1") else 1,
                     "gain": [1.0, 0.01, 30.0][k % 3], "round": k % 7 == 6})
    return cfgs


def check_per_fold_chunks(tier, seed):
    cfgs = _chunk_configs(tier, seed)
    ck = Check(
        "per_fold_chunks", "mokapot.brew.brew (brew._predict over several prediction chunks -> calibrate_scores per fold)",
        "random: %d brew runs (seed %d) on on-disk datasets (Parquet/TSV) of 200..360 PSMs (one chunk, long chunks + "
        "short last chunk), 90..150 PSMs (chunks of 2, folds-1, folds, folds+1 rows) or 70..110 PSMs and 2..3 folds "
        "(chunks of 1 row), folds 2..%d, max_workers 1 or 2, test_fdr in {0.2, 0.1, 0.25, 0.15, "
        "uniform(0.08,0.3)} (small tables: {0.2, 0.3, 0.25, 0.35, uniform(0.15,0.4)}, train_fdr 0.35 instead of 0.2) or "
        "0.001 (error path), mokapot.brew.CHUNK_SIZE_ROWS_PREDICTION monkey-patched to 1, 2, "
        "folds-1, folds, folds+1 rows, to 1..3 long chunks followed by a last chunk of fewer rows than folds (+ at most 2), and left at "
        "its default (one chunk); one training iteration, the per-fold-scale linear estimator of check per_fold"
        % (len(cfgs), seed, 4 if tier == "quick" else 6),
        "fold f = the rows the trained fold model number f was not trained on (model and training rows captured in Model.fit; nothing of the "
        "prediction path is observed); the fold's own model output is computed from the fitted estimator and the "
        "table; per fold the returned scores must equal (raw - t)/(t - d) with t, d from the exact oracle: same "
        "ranking as the raw output, 0 at t, -1 at d; RuntimeError iff some fold accepts nothing; case ids are "
        "prefixed with the chunking class computed from fold membership and chunk size; non-trivial = a scored run "
        "whose folds are all in the domain and in which some chunk holds no row of some fold, or an error-path run")
    seen = set()
    stats = {"runs_ok": 0, "folds_in_domain": 0, "error_path": 0, "fallback": 0, "untrained": 0, "single-chunk": 0,
             "all-chunks-hold-all-folds": 0, "chunk-lacks-fold": 0, "chunk-lacks-lower-fold": 0}
    with scratch("c11c_") as d:
        for cfg in cfgs:
            df, chunk, outcome, fitted = _chunk_case(cfg, d)
            vio, n_dom, cls = _judge_chunks(cfg, df, chunk, outcome, fitted)
            if cls:
                stats[cls] += 1
            if cls == "untrained":
                pass
            elif outcome[0] == "RuntimeError":
                stats["error_path"] += 1
            elif outcome[0] == "ok" and np.ndim(outcome[1]) != 1:
                stats["fallback"] += 1
            elif outcome[0] == "ok":
                stats["runs_ok"] += 1
                stats["folds_in_domain"] += n_dom
            nontriv = (outcome[0] == "RuntimeError" and not vio and cls != "untrained") or \
                (outcome[0] == "ok" and n_dom == cfg["folds"] and str(cls).startswith("chunk-lacks"))
            ck.case(cfg, nontrivial=nontriv)
            for cid, what in vio:
                if cid not in seen:
                    seen.add(cid)
                    ck.violation(cid, what, cfg)
    ck.rule += "; %(runs_ok)d scored runs with %(folds_in_domain)d folds in the domain, %(error_path)d error-path " \
               "runs, %(fallback)d fallback runs, %(untrained)d runs not judged because training itself stopped with " \
               "RuntimeError (table too small for train_fdr); chunking of the runs: %(single-chunk)d single chunk, " \
               "%(all-chunks-hold-all-folds)d every chunk holds all folds, %(chunk-lacks-fold)d some chunk lacks " \
               "only its highest folds, %(chunk-lacks-lower-fold)d some chunk lacks fold k but holds a higher-numbered fold" % stats
    return _freeze(ck)


# ----------------------------------------------------------------------------------------------------------
# (d) per fold, over the kinds of estimator (decision_function only / predict_proba only / both)
# ----------------------------------------------------------------------------------------------------------
class _LinearBase:
    """The per-fold-scale linear model of FoldEstimator without any scoring method: subclasses expose
    decision_function, predict_proba (in one of three shapes) or both."""

    def __init__(self, gain=1.0):
        self.gain = gain

    def get_params(self, deep=True):
        return {"gain": self.gain}

    def set_params(self, **params):
        for k, v in params.items():
            setattr(self, k, v)
        return self

    def fit(self, X, y):
        X = np.asarray(X, dtype=float)
        y = np.asarray(y)
        pos, neg = X[y == 1], X[y == 0]
        self.w_ = np.array([1.0, 0.25 * np.tanh(pos[:, 1].mean() - neg[:, 1].mean())])
        self.b_ = -float(np.median(X[:, 0]))
        self.s_ = self.gain * (1 + len(X) % 7)
        self.sd_ = float(X[:, 0].std()) + 1e-9
        return self

    def _lin(self, X):
        return np.asarray(X, dtype=float)[:, :2] @ self.w_ + self.b_

    def _prob(self, X):                                       # a NON-affine, strictly increasing image of _lin, inside (0, 1)
        return 1.0 / (1.0 + np.exp(-self._lin(X) / self.sd_))


class BothEstimator(_LinearBase):
    """decision_function (per-fold scale) AND predict_proba (n, 2): the model output is the decision function"""

    def decision_function(self, X):
        return self.s_ * self._lin(X)

    def predict_proba(self, X):
        p = self._prob(X)
        return np.column_stack([1 - p, p])


class Proba2Estimator(_LinearBase):
    """predict_proba only, shape (n, 2): the model output is the second column"""

    def predict_proba(self, X):
        p = self._prob(X)
        return np.column_stack([1 - p, p])


class Proba1Estimator(_LinearBase):
    """predict_proba only, shape (n,)"""

    def predict_proba(self, X):
        return self._prob(X)


class ProbaColEstimator(_LinearBase):
    """predict_proba only, shape (n, 1)"""

    def predict_proba(self, X):
        return self._prob(X)[:, None]


EST_KINDS = ("both", "sk-logreg", "proba2", "both", "decision", "proba1", "sk-logreg", "both", "sk-gnb", "probacol",
             "sk-linsvc", "both")


def _make_estimator(kind, gain):
    if kind == "decision":
        return FoldEstimator(gain)
    if kind == "both":
        return BothEstimator(gain)
    if kind == "proba2":
        return Proba2Estimator(gain)
    if kind == "proba1":
        return Proba1Estimator(gain)
    if kind == "probacol":
        return ProbaColEstimator(gain)
    if kind == "sk-logreg":
        from sklearn.linear_model import LogisticRegression
        return LogisticRegression(C=float(gain))
    if kind == "sk-linsvc":
        from sklearn.svm import LinearSVC
        return LinearSVC(dual=False, C=float(gain))
    if kind == "sk-gnb":
        from sklearn.naive_bayes import GaussianNB
        return GaussianNB()
    raise ValueError(kind)


def _model_output(est, X):
    """(the estimator's output as the statement understands it, has a decision function): the decision function
    when there is one, else the probability of the positive class; computed from the fitted estimator alone"""
    if hasattr(est, "decision_function"):
        return np.asarray(est.decision_function(X), dtype=float).reshape(-1), True
    p = np.asarray(est.predict_proba(X), dtype=float)
    if p.ndim == 2:
        p = p[:, -1]                                          # (n, 2): positive class; (n, 1): the only column
    return p.reshape(-1), False


def _recover_folds(files, done, folds):
    """files: list of (df, row ids). done: the trained fold models sorted by fold number. Fold f of a file = its
    rows the model numbered f was NOT trained on. Returns per file a list of id arrays, or None."""
    out = []
    for df, ids_file in files:
        fold_of = {}
        per = []
        for f, m in enumerate(done):
            ids = np.setdiff1d(ids_file, m.train_ids_)
            if len(ids) == 0 or any(i in fold_of for i in ids.tolist()):
                return None
            for i in ids.tolist():
                fold_of[i] = f
            per.append(ids)
        if len(fold_of) != len(ids_file) or len(per) != folds:
            return None
        out.append(per)
    return out


def _table(cfg, seed_shift=0, n_feat=2):
    """the table of a run: small_df, or (cfg['big']) the loop-free table with random labels of _c11_large.big_df"""
    if cfg.get("big"):
        return large.big_df(cfg["n_spec"], cfg["data_seed"] + seed_shift, n_feat=n_feat)
    return small_df(n_spec=cfg["n_spec"], dup=2, seed=cfg["data_seed"] + seed_shift, n_feat=n_feat)


def _est_case(cfg, d):
    """Run brew once with the estimator kind of cfg. Returns (df, outcome, fitted fold models)"""
    brew_mod = importlib.import_module("mokapot.brew")
    df = _table(cfg)
    if cfg.get("round"):
        df["f0"] = np.round(df["f0"] * 4) / 4
    ds = make_ds(df, d / ("e%d.%s" % (cfg["k"], cfg["fmt"])))
    del FITTED[:]
    model = _fit_rec_model_class()(_make_estimator(cfg["kind"], cfg["gain"]),
                                   scaler="as-is" if cfg["scaler"] == "as-is" else None, train_fdr=0.2,
                                   max_iter=cfg["max_iter"], override=True, rng=cfg["data_seed"])
    old = brew_mod.CHUNK_SIZE_ROWS_PREDICTION
    if cfg["chunk"]:
        brew_mod.CHUNK_SIZE_ROWS_PREDICTION = -(-len(df) // cfg["chunk"])
    try:
        _, models, scores, descs = brew_mod.brew(ds, model, test_fdr=cfg["test_fdr"], folds=cfg["folds"],
                                                 rng=cfg["rng"], max_workers=cfg["workers"])
        outcome = ("ok", scores[0])
    except RuntimeError as e:
        outcome = ("RuntimeError", str(e)[:160])
    except Exception as e:                                   # noqa: BLE001
        outcome = ("exception:" + type(e).__name__, str(e)[:200])
    finally:
        brew_mod.CHUNK_SIZE_ROWS_PREDICTION = old
    return df, outcome, list(FITTED)


def _scaled(m, X):
    """the features as the fold model's estimator sees them (sklearn scaler fitted during training, or as they are)"""
    return X if type(m.scaler).__name__ == "DummyScaler" else m.scaler.transform(X)


def _fold_outputs(files, done, folds):
    """files: [(df, row ids of the file)]. Per file and fold the fold model's own output on its held-out rows.
    Returns (list of (file number, fold, row positions in the file, raw, targets), has decision function) or None
    when the held-out rows do not partition the files."""
    rec = _recover_folds(files, done, folds)
    if rec is None:
        return None
    judged = []
    has_dec = None
    for fi, ((df, ids_file), per) in enumerate(zip(files, rec)):
        by_id = df.set_index("SpecId")
        pos_of = {i: p for p, i in enumerate(df["SpecId"].tolist())}
        for f, ids in enumerate(per):
            m = done[f]
            X = by_id.loc[ids, list(m.features)].values.astype(float)
            raw, has_dec = _model_output(m.estimator, _scaled(m, X))
            lab = (by_id.loc[ids, "Label"].values == 1)
            judged.append((fi, f, np.array([pos_of[i] for i in ids.tolist()]), raw, lab))
    return judged, has_dec


def _judge_est(cfg, df, outcome, fitted):
    """Returns (list of (class id, what), folds in the domain, has decision function)."""
    kind, val = outcome
    tag = "estimator-" + cfg["kind"]
    n = len(df)
    done = sorted([m for m in fitted if getattr(m, "fit_done_", False)], key=lambda m: m.fold)
    if len(done) != cfg["folds"]:
        if kind == "RuntimeError":
            return [], 0, None                                # training stopped with an explicit error
        return [(tag + ":fold-recovery-failed", "%d trained fold models for %d folds (%s)"
                 % (len(done), cfg["folds"], kind))], 0, None
    rec = _fold_outputs([(df, df["SpecId"].values)], done, cfg["folds"])
    if rec is None:
        return [(tag + ":fold-recovery-failed", "the held-out rows of the fold models do not partition the table")], 0, None
    judged, has_dec = rec
    if kind.startswith("exception"):
        return [(tag + ":" + kind, "brew raised: %s" % val)], 0, has_dec
    accepted = [anchors(raw, lab, cfg["test_fdr"])[0] is not None for _, _, _, raw, lab in judged]
    if kind == "RuntimeError":
        if not all(accepted):
            return [], 0, has_dec                             # explicit error (demanded with a decision function, tolerated without)
        f32 = [1 for _, _, _, raw, lab in judged if anchors(raw, lab, cfg["test_fdr"], True)[0] is None]
        return [(tag + ":" + ("runtimeerror-float32-threshold-tie(C01)" if f32 else "runtimeerror-unexpected"),
                 "brew stopped with RuntimeError although every fold has an accepted target")], 0, has_dec
    scores = np.asarray(val)
    if scores.ndim != 1 or len(scores) != n:
        return [], 0, has_dec                                 # best-feature fallback took over (C07)
    if has_dec and not all(accepted):
        return [(tag + ":runtimeerror-missing", "a fold without accepted target did not stop the run")], 0, has_dec
    out, n_dom = [], 0
    for _, f, pos, raw, lab in judged:
        if has_dec:
            cid, what, in_dom = judge(raw, lab, cfg["test_fdr"], ("ok", scores[pos]))
        else:
            cid, what, in_dom = judge_order_only(raw, scores[pos])
        n_dom += bool(in_dom)
        if cid:
            out.append((tag + ":fold:" + cid, "fold %d (%s estimator): %s" % (f, cfg["kind"], what)))
    return out, n_dom, has_dec


def judge_order_only(raw, res):
    """Estimators WITHOUT decision function (outside the anchor clause's quantifier): only the first sentence of the
    statement is checked, the returned fold scores are a positive-slope affine image of the model output."""
    raw = np.asarray(raw, dtype=float)
    res = np.asarray(res, dtype=float)
    if res.shape != raw.shape:
        return "shape", "result shape %r for %d scores" % (res.shape, len(raw)), True
    if raw.min() == raw.max():
        return None, None, False
    a, b = _affine(raw, res)
    if a is None or not np.isfinite(a):
        return "not-affine", "returned fold scores are not an affine function of the model's probabilities", True
    if a <= 0:
        return "order-reversed", "returned fold scores decrease with the model's probability (slope %g)" % a, True
    return None, None, True


def _est_configs(tier, seed):
    rng = np.random.default_rng(seed + 111111)
    n = 48 if tier == "quick" else 600
    cfgs = []
    for k in range(n):
        kind = EST_KINDS[k % len(EST_KINDS)]
        folds = 2 + (k // len(EST_KINDS) + k) % (3 if tier == "quick" else 5)
        fdr = [0.2, 0.1, 0.25, 0.15][(k // 3) % 4] if k % 5 else float(np.round(rng.uniform(0.08, 0.3), 3))
        if k % 12 in (7, 10) and (k // 12) % 2 == 0:
            fdr = 0.001                                       # the explicit-error path ("both" and "sk-linsvc" slots)
        cfgs.append({"k": k, "kind": kind, "n_spec": int(rng.integers(100, 181)),
                     "data_seed": int(rng.integers(1 << 30)), "rng": int(rng.integers(1 << 30)), "folds": folds,
                     "test_fdr": fdr, "fmt": "parquet" if (k // 2) % 2 else "tsv", "chunk": [None, 2, 3][(k // 4) % 3],
                     "workers": 1 + (k % 5 == 4), "max_iter": 1 + (k % 4 == 3), "scaler": "standard" if k % 3 == 1 else "as-is",
                     "gain": [1.0, 0.01, 30.0][(k // 2) % 3], "round": k % 7 == 6})
    return cfgs


def check_per_fold_estimators(tier, seed):
    cfgs = _est_configs(tier, seed)
    ck = Check(
        "per_fold_estimators", "mokapot.brew.brew (brew._predict: which estimators get their fold scores calibrated; "
        "model._get_scores)",
        "random: %d brew runs (seed %d) on on-disk datasets of 200..360 PSMs (Parquet/TSV), folds 2..%d, estimator "
        "kinds cycling over %s: the per-fold-scale linear estimator with decision_function only ('decision'), with "
        "decision_function AND predict_proba ('both', the probability is a sigmoid of the decision value), with "
        "predict_proba only in shapes (n,2) / (n,) / (n,1) ('proba2', 'proba1', 'probacol'), and sklearn's "
        "LogisticRegression (both), LinearSVC(dual=False) (decision_function only), GaussianNB (predict_proba only); "
        "feature scaler 'as-is' or StandardScaler, test_fdr in {0.2, 0.1, 0.25, 0.15, uniform(0.08,0.3), 0.001 (error "
        "path)}, predictions in 1, 2 or 3 row chunks, max_workers 1 or 2, 1-2 training iterations, gain (sklearn: C) "
        "0.01/1/30, f0 rounded to quarters in every 7th run"
        % (len(cfgs), seed, 4 if tier == "quick" else 6, sorted(set(EST_KINDS))),
        "fold f = the rows the trained fold model number f was not trained on (captured in Model.fit); the fold's model "
        "output is recomputed from the fitted estimator (and fitted sklearn scaler): the decision function when the "
        "estimator has one, else the positive-class probability; estimators WITH a decision function: the returned "
        "fold scores must equal (raw - t)/(t - d) with t, d from the exact oracle (0 at t, -1 at d, same ranking), "
        "RuntimeError iff some fold accepts nothing; estimators WITHOUT decision function (outside the quantifier "
        "of the anchor clause): only 'positive-slope affine image of the model output' is demanded; case ids are "
        "prefixed 'estimator-<kind>'; non-trivial = a scored run whose folds are all in the domain (accepted target "
        "above the decoy median; without decision function: non-constant output), or an error-path run")
    seen = set()
    stats = {"runs_ok": 0, "folds_in_domain": 0, "error_path": 0, "fallback": 0, "with_decision_function": 0,
             "both": 0, "proba_only": 0}
    with scratch("c11d_") as d:
        for cfg in cfgs:
            df, outcome, fitted = _est_case(cfg, d)
            vio, n_dom, has_dec = _judge_est(cfg, df, outcome, fitted)
            if outcome[0] == "RuntimeError":
                stats["error_path"] += 1
            elif outcome[0] == "ok" and np.ndim(outcome[1]) != 1:
                stats["fallback"] += 1
            elif outcome[0] == "ok":
                stats["runs_ok"] += 1
                stats["folds_in_domain"] += n_dom
                stats["with_decision_function"] += bool(has_dec)
                stats["both"] += cfg["kind"] in ("both", "sk-logreg")
                stats["proba_only"] += has_dec is False
            nontriv = (outcome[0] == "RuntimeError" and not vio) or (outcome[0] == "ok" and n_dom == cfg["folds"])
            ck.case(cfg, nontrivial=nontriv)
            for cid, what in vio:
                if cid not in seen:
                    seen.add(cid)
                    ck.violation(cid, what, cfg)
    ck.rule += "; %(runs_ok)d scored runs (%(with_decision_function)d with a decision function, of which %(both)d " \
               "also offer predict_proba; %(proba_only)d predict_proba only) with %(folds_in_domain)d folds in the " \
               "domain, %(error_path)d error-path runs, %(fallback)d fallback runs" % stats
    return _freeze(ck)


# ----------------------------------------------------------------------------------------------------------
# (e) the reset path: ONE pre-trained model whose re-training gets worse -> the original model, calibrated over
#     the whole collection
# ----------------------------------------------------------------------------------------------------------
WORSE = "Model performs worse after training."
RESET_MODES = ("weak", "flip", "some", "blind", "none", "weak", "some", "none")


class DegradingEstimator:
    """Linear decision function over all features. Fits made while `stage` is 0 (pre-training) learn the direction
    between the class means; fits made afterwards (the harness sets stage = 1 once the model is pre-trained) learn,
    by `mode`: 'weak' mostly noise features, 'blind' noise features only, 'flip' the reversed direction, 'some' the
    weak direction for training sets of odd size only, 'none' the good direction again."""

    def __init__(self, gain=1.0, mode="weak"):
        self.gain = gain
        self.mode = mode

    def get_params(self, deep=True):
        return {"gain": self.gain, "mode": self.mode}

    def set_params(self, **params):
        for k, v in params.items():
            setattr(self, k, v)
        return self

    def fit(self, X, y):
        X = np.asarray(X, dtype=float)
        y = np.asarray(y)
        w = X[y == 1].mean(axis=0) - X[y == 0].mean(axis=0)
        w = w / (np.linalg.norm(w) + 1e-12)
        noise = np.array([0.0] + [(-1.0) ** j for j in range(X.shape[1] - 1)]) / np.sqrt(max(1, X.shape[1] - 1))
        mode = self.mode if getattr(self, "stage", 0) else "none"
        if mode == "some":
            mode = "weak" if len(X) % 2 else "none"
        if mode == "weak":
            w = 0.3 * w + noise
        elif mode == "blind":
            w = noise
        elif mode == "flip":
            w = -w
        self.w_ = w
        self.s_ = self.gain * (1 + len(X) % 7)
        self.b_ = -float(np.median(X @ w))
        self.degraded_ = mode != "none"
        return self

    def decision_function(self, X):
        return self.s_ * (np.asarray(X, dtype=float) @ self.w_ + self.b_)


def _reset_rec_model_class():
    from mokapot.model import Model

    class ResetRecModel(Model):
        """remembers which rows it was trained on and with which RuntimeError the training stopped (the condition of
        the reset path); nothing of the prediction path is observed"""

        def fit(self, psms):
            self.train_ids_ = psms.data["SpecId"].values.copy()
            self.fit_done_ = False
            self.fit_error_ = None
            FITTED.append(self)
            try:
                out = super().fit(psms)
            except RuntimeError as e:
                self.fit_error_ = str(e)
                raise
            self.fit_done_ = True
            return out
    return ResetRecModel


def _linear_ds(df):
    from mokapot.dataset import LinearPsmDataset
    mem = df.copy()
    mem["Label"] = mem["Label"].values == 1
    feats = [c for c in df.columns if c.startswith("f") and c[1:].isdigit()]
    return LinearPsmDataset(psms=mem, target_column="Label", spectrum_columns=["ScanNr", "ExpMass"],
                            peptide_column="Peptide", protein_column="Proteins", feature_columns=feats, copy_data=True)


BEST_DIRECTIONS = ("asc-negated", "asc-evalue", "asc-with-weaker-desc")


def _direct(df, best):
    """The direction of the table's strongest single feature f0. small_df makes f0 a higher-is-better feature
    ('desc', nothing changes). 'asc-negated': f0 -> -f0, lower is better; 'asc-evalue': f0 -> exp(-f0), a positive,
    skewed, lower-is-better feature like an e-value; 'asc-with-weaker-desc': f0 -> -f0 and the noise feature f1
    gets a weaker higher-is-better copy of the signal, so the table mixes both directions."""
    if best in (None, "desc"):
        return df
    df = df.copy()
    f0 = df["f0"].values.astype(float)
    if best == "asc-negated":
        df["f0"] = -f0
    elif best == "asc-evalue":
        df["f0"] = np.exp(-f0)
    elif best == "asc-with-weaker-desc":
        df["f0"] = -f0
        df["f1"] = df["f1"].values + 0.4 * f0
    else:
        raise ValueError(best)
    return df


def _reset_case(cfg, d):
    """Pre-train ONE model, hand it to brew. Returns (files [(df, ids)], raw output of the ORIGINAL model per file
    (computed before brew runs), outcome, the fold copies brew trained, what pre-training selected as best feature)
    or None when pre-training failed."""
    brew_mod = importlib.import_module("mokapot.brew")
    df = _table(cfg, 0, cfg["n_feat"])
    if cfg.get("round"):
        df["f0"] = np.round(df["f0"] * 4) / 4
    pre = df if cfg["pre"] == "same" else _table(cfg, 1, cfg["n_feat"])
    same = pre is df
    df = _direct(df, cfg.get("best"))
    pre = df if same else _direct(pre, cfg.get("best"))
    model = _reset_rec_model_class()(DegradingEstimator(cfg["gain"], cfg["mode"]),
                                     scaler="as-is" if cfg["scaler"] == "as-is" else None, train_fdr=cfg["train_fdr"],
                                     max_iter=cfg["max_iter"], override=True, rng=cfg["data_seed"])
    try:
        model.fit(_linear_ds(pre))                            # pre-training keeps whatever was learned (override) ...
    except Exception:                                         # noqa: BLE001
        return None
    if not model.is_trained:
        return None
    picked = {"best_feat": model.best_feat, "desc": model.desc}   # only counted (is the intended history reached?)
    model.override = False                                    # ... re-training must not get worse
    model.estimator.stage = 1                                 # every later fit is a RE-training
    if cfg["files"] == 1:
        parts = [df]
    else:                                                     # cut between two spectra
        cut = 2 * (cfg["n_spec"] * cfg["cut"] // 100)
        parts = [df.iloc[:cut].reset_index(drop=True), df.iloc[cut:].reset_index(drop=True)]
    files = [(p, p["SpecId"].values) for p in parts]
    raw0 = [np.asarray(model.estimator.decision_function(_scaled(model, p[list(model.features)].values.astype(float))),
                       dtype=float).copy() for p in parts]
    dss = [make_ds(p, d / ("r%d_%d.%s" % (cfg["k"], i, cfg["fmt"]))) for i, p in enumerate(parts)]
    del FITTED[:]
    old = brew_mod.CHUNK_SIZE_ROWS_PREDICTION
    if cfg["chunk"]:
        brew_mod.CHUNK_SIZE_ROWS_PREDICTION = -(-len(parts[0]) // cfg["chunk"])
    try:
        _, models, scores, descs = brew_mod.brew(dss if cfg["files"] > 1 else dss[0], model, test_fdr=cfg["test_fdr"],
                                                 folds=cfg["folds"], rng=cfg["rng"], max_workers=cfg["workers"])
        outcome = ("ok", list(scores))
    except RuntimeError as e:
        outcome = ("RuntimeError", str(e)[:160])
    except Exception as e:                                   # noqa: BLE001
        outcome = ("exception:" + type(e).__name__, str(e)[:200])
    finally:
        brew_mod.CHUNK_SIZE_ROWS_PREDICTION = old
    return files, raw0, outcome, list(FITTED), picked


def _judge_reset(cfg, case):
    """Returns (list of (class id, what), path, in_domain). path: 'reset-all' / 'reset-some' (re-training got worse in
    every / in some fold), 'retrained' (no fold got worse: ordinary per-fold scoring), 'untrained', 'fallback',
    'no-pretraining'."""
    if case is None:
        return [], "no-pretraining", False
    files, raw0, outcome, fitted, _ = case
    kind, val = outcome
    # the class of history in the case id: a table whose strongest single feature is a lower-is-better one
    asc = "" if cfg.get("best") in (None, "desc") else "(best-feature-ascending)"
    RESET, PRE = "reset%s:" % asc, "pretrained-folds%s:" % asc
    worse = [m for m in fitted if m.fit_error_ == WORSE]
    other = [m for m in fitted if m.fit_error_ not in (None, WORSE)]
    if other or len(fitted) != cfg["folds"]:
        if kind == "RuntimeError":
            return [], "untrained", False                     # training stopped with another explicit error
        return [(RESET + "fold-recovery-failed", "%d fold trainings recorded for %d folds (%s)"
                 % (len(fitted), cfg["folds"], kind))], "untrained", False
    if kind.startswith("exception"):
        return [((RESET if worse else PRE) + kind, "brew raised: %s" % val)], "exception", False
    labs = [(df["Label"].values == 1) for df, _ in files]
    if worse:
        path = "reset-all" if len(worse) == cfg["folds"] else "reset-some"
        acc = [anchors(r, l, cfg["test_fdr"])[0] is not None for r, l in zip(raw0, labs)]
        if kind == "RuntimeError":
            if not all(acc):
                return [], path, True                         # explicit error: the original model accepts nothing somewhere
            f32 = [1 for r, l in zip(raw0, labs) if anchors(r, l, cfg["test_fdr"], True)[0] is None]
            return [(RESET + ("runtimeerror-float32-threshold-tie(C01)" if f32 else "runtimeerror-unexpected"),
                     "re-training got worse in %d of %d folds; brew stopped with RuntimeError although the original model "
                     "accepts targets in every collection" % (len(worse), cfg["folds"]))], path, True
        if any(np.ndim(s) != 1 or len(s) != len(l) for s, l in zip(val, labs)):
            return [], "fallback", False                      # best-feature fallback took over (C07)
        out, dom = [], True
        for fi, (r, l, s) in enumerate(zip(raw0, labs, val)):
            cid, what, in_dom = judge(r, l, cfg["test_fdr"], ("ok", np.asarray(s, dtype=float)))
            dom = dom and bool(in_dom)
            if cid:
                out.append((RESET + cid, "re-training got worse in %d of %d folds, so the ORIGINAL model's output, "
                            "calibrated over the whole collection, is expected (file %d): %s"
                            % (len(worse), cfg["folds"], fi, what)))
        return out, path, dom
    # nobody got worse: the ordinary per-fold scoring with the re-trained copies
    done = sorted(fitted, key=lambda m: m.fold)
    rec = _fold_outputs(files, done, cfg["folds"])
    if rec is None:
        return [(PRE + "fold-recovery-failed", "the held-out rows of the fold models do not partition the files")], \
            "retrained", False
    judged, _ = rec
    acc = [anchors(raw, lab, cfg["test_fdr"])[0] is not None for _, _, _, raw, lab in judged]
    if kind == "RuntimeError":
        if not all(acc):
            return [], "retrained", True
        f32 = [1 for _, _, _, raw, lab in judged if anchors(raw, lab, cfg["test_fdr"], True)[0] is None]
        return [(PRE + ("runtimeerror-float32-threshold-tie(C01)" if f32 else "runtimeerror-unexpected"),
                 "brew stopped with RuntimeError although every fold has an accepted target")], "retrained", True
    if any(np.ndim(s) != 1 or len(s) != len(l) for s, l in zip(val, labs)):
        return [], "fallback", False
    if not all(acc):
        return [(PRE + "runtimeerror-missing", "a fold without accepted target did not stop the run")], "retrained", True
    out, dom = [], True
    for fi, f, pos, raw, lab in judged:
        cid, what, in_dom = judge(raw, lab, cfg["test_fdr"], ("ok", np.asarray(val[fi], dtype=float)[pos]))
        dom = dom and bool(in_dom)
        if cid:
            out.append((PRE + "fold:" + cid, "no fold got worse; file %d fold %d: %s" % (fi, f, what)))
    return out, "retrained", dom


def _reset_configs(tier, seed):
    rng = np.random.default_rng(seed + 11111111)
    n = 32 if tier == "quick" else 480
    cfgs = []
    for k in range(n):
        folds = 2 + (k // len(RESET_MODES) + k) % (3 if tier == "quick" else 5)
        fdr = [0.2, 0.25, 0.15, 0.3][(k // 2) % 4] if k % 5 else float(np.round(rng.uniform(0.12, 0.3), 3))
        train_fdr = min(fdr, [0.1, 0.2, 0.15][k % 3])
        if k % 16 == 13:
            fdr = 0.001                                       # the original model accepts nothing: explicit-error path
        cfgs.append({"k": k, "mode": RESET_MODES[k % len(RESET_MODES)], "n_spec": int(rng.integers(100, 181)),
                     "n_feat": 3 + k % 3, "data_seed": int(rng.integers(1 << 30)), "rng": int(rng.integers(1 << 30)),
                     "folds": folds, "test_fdr": fdr, "train_fdr": train_fdr, "pre": "other" if k % 4 == 2 else "same",
                     "files": 2 if k % 5 == 3 else 1, "cut": int(rng.integers(35, 66)),
                     "fmt": "parquet" if (k // 2) % 2 else "tsv", "chunk": [None, 2, 3][(k // 3) % 3],
                     "workers": 1 + (k % 6 == 4), "max_iter": 1 + (k % 4 == 1),
                     "scaler": "standard" if k % 7 == 5 else "as-is", "gain": [1.0, 0.01, 30.0][(k // 2) % 3],
                     "round": k % 9 == 8})
    # the same histories on tables whose strongest single feature is a LOWER-is-better one (the pre-trained model's
    # best feature is then selected in ascending direction, while its decision function stays higher-is-better)
    rng = np.random.default_rng(seed + 1111111111)
    for j in range(_n_ascending(tier)):
        k = n + j
        folds = 2 + (j // len(ASC_RESET_MODES) + j) % (3 if tier == "quick" else 5)
        fdr = [0.2, 0.25, 0.15, 0.3][(j // 2) % 4] if j % 5 else float(np.round(rng.uniform(0.12, 0.3), 3))
        train_fdr = min(fdr, [0.1, 0.2, 0.15][j % 3])
        if j % 16 == 11:
            fdr = 0.001                                       # explicit-error path
        cfgs.append({"k": k, "mode": ASC_RESET_MODES[j % len(ASC_RESET_MODES)], "best": BEST_DIRECTIONS[j % 3],
                     "n_spec": int(rng.integers(100, 181)),
                     "n_feat": 3 + (j // 3) % 3, "data_seed": int(rng.integers(1 << 30)), "rng": int(rng.integers(1 << 30)),
                     "folds": folds, "test_fdr": fdr, "train_fdr": train_fdr, "pre": "other" if j % 4 == 2 else "same",
                     "files": 2 if j % 5 == 3 else 1, "cut": int(rng.integers(35, 66)),
                     "fmt": "parquet" if (j // 2) % 2 else "tsv", "chunk": [None, 2, 3][(j // 3) % 3],
                     "workers": 1 + (j % 6 == 4), "max_iter": 1 + (j % 4 == 1),
                     "scaler": "standard" if j % 4 == 3 else "as-is", "gain": [1.0, 0.01, 30.0][(j // 2) % 3],
                     "round": j % 9 == 8})
    return cfgs


ASC_RESET_MODES = ("weak", "flip", "some", "blind", "weak", "none", "flip", "some")


def _n_ascending(tier):
    return 24 if tier == "quick" else 240


def check_reset_path(tier, seed):
    cfgs = _reset_configs(tier, seed)
    ck = Check(
        "reset_path", "mokapot.brew.brew (single pre-trained Model: _fit_model reset flag -> _predict_with_ensemble([model]) "
        "-> OnDiskPsmDataset.calibrate_scores; else brew._predict per fold)",
        "random: %d + %d brew runs (seed %d) with ONE already trained Model (train_fdr 0.1..0.2, <= test_fdr except in the error-path runs, 1-2 "
        "iterations, scaler as-is or StandardScaler, override=False once trained) pre-trained through Model.fit on the same table or on another "
        "table of the same kind; its linear decision_function estimator (all 3..5 features, per-fit scale x1..7, gain "
        "0.01/1/30) learns the class-mean direction while pre-training and, when re-trained inside brew, by mode in %s: a "
        "mostly-noise direction, a noise-only direction, the reversed direction, the mostly-noise direction for "
        "odd-sized training sets only, or the good direction again; on-disk datasets of 200..360 PSMs in 1 or 2 files "
        "(Parquet/TSV; two files: the table cut between two spectra at 35..65 %%), folds 2..%d, test_fdr in {0.2, 0.25, 0.15, "
        "0.3, uniform(0.12,0.3), 0.001 (error path)}, "
        "predictions in 1, 2 or 3 row chunks, max_workers 1 or 2; in the first group of runs the strongest single feature f0 "
        "is a higher-is-better one, in the second group a LOWER-is-better one (%s: f0 negated / exp(-f0), e-value-like / f0 "
        "negated and a weaker higher-is-better signal added to f1), so that the pre-trained model's best feature is "
        "selected in ascending direction while its decision function is still higher-is-better"
        % (len(cfgs) - _n_ascending(tier), _n_ascending(tier), seed, sorted(set(RESET_MODES)), 4 if tier == "quick" else 6,
           ", ".join(BEST_DIRECTIONS)),
        "Model.fit of every fold copy records its training rows and the RuntimeError it stopped with; if at least one fold "
        "stopped with 'Model performs worse after training.' (reset path) every file's returned scores must equal "
        "(raw0 - t)/(t - d), raw0 = the ORIGINAL model's decision values computed from its estimator before brew ran, "
        "t, d from the exact oracle over the WHOLE file (strictly increasing in raw0, 0 at t, -1 at d), RuntimeError "
        "iff the original model accepts no target of some file; if no fold got worse the per-fold rule of check "
        "per_fold_chunks applies to the re-trained copies (case ids 'pretrained-folds:'); the direction of the best single "
        "feature plays no role in the expected result (the statement speaks of the model output only); case ids of the "
        "lower-is-better group carry '(best-feature-ascending)'; non-trivial = a reset-path run "
        "in the domain (or its error path), or a re-trained run whose folds are all in the domain")
    seen = set()
    stats = collections.Counter()
    with scratch("c11e_") as d:
        for cfg in cfgs:
            case = _reset_case(cfg, d)
            vio, path, dom = _judge_reset(cfg, case)
            stats[path] += 1
            if case is not None and case[2][0] == "RuntimeError" and path.startswith("re"):
                stats["error_path"] += 1
            if path.startswith("reset") and cfg["files"] > 1:
                stats["reset_two_files"] += 1
            if cfg.get("best") not in (None, "desc") and case is not None:
                reached = case[4]["desc"] is False and case[4]["best_feat"] == "f0"
                stats["asc_runs"] += 1
                stats["asc_reached"] += reached
                stats["asc_reset"] += reached and path.startswith("reset")
                stats["asc_reset_scored"] += reached and path.startswith("reset") and case[2][0] == "ok" and bool(dom)
            ck.case(cfg, nontrivial=bool(dom) and path in ("reset-all", "reset-some", "retrained") and not vio)
            for cid, what in vio:
                if cid not in seen:
                    seen.add(cid)
                    ck.violation(cid, what, cfg)
    ck.rule += "; reset-path runs: %d with every fold worse, %d with only some folds worse (%d of them on two files); %d " \
               "re-trained runs judged per fold; %d error-path runs among them; not judged: %d best-feature fallback, " \
               "%d training stopped with another error, %d pre-training failed; lower-is-better group: %d runs, in %d of " \
               "them pre-training selected f0 in ascending direction (Model.desc False), %d of those took the reset path, " \
               "%d of which returned scores in the domain" \
               % (stats["reset-all"], stats["reset-some"], stats["reset_two_files"], stats["retrained"],
                  stats["error_path"], stats["fallback"], stats["untrained"], stats["no-pretraining"],
                  stats["asc_runs"], stats["asc_reached"], stats["asc_reset"], stats["asc_reset_scored"])
    return _freeze(ck)


# ----------------------------------------------------------------------------------------------------------
# (f) LARGE folds and collections: thousands to tens of thousands of decoys, even and odd counts
# ----------------------------------------------------------------------------------------------------------
LARGE_FDRS = (0.01, 0.05, 0.1, 0.02)
LARGE_MODES = ("continuous", "ties", "continuous", "negative", "continuous", "small-scale")


def _parity(n_decoys):
    return "even" if n_decoys % 2 == 0 else "odd"


def _large_direct_params(tier, seed):
    rng = np.random.default_rng(seed + 5000)
    out = []
    for k, nd in enumerate(large.decoy_counts(tier, rng)):
        ratio = [1.0, 0.5, 2.0, 1.0][k % 4] if nd <= 40000 else 0.5
        nt = max(400, int(nd * ratio) + int(rng.integers(-50, 51)))
        out.append({"part": "direct", "k": k, "nd": int(nd), "nt": nt, "gen": int(rng.integers(1 << 30)),
                    "mode": LARGE_MODES[k % len(LARGE_MODES)], "fdr": LARGE_FDRS[(k // 2) % len(LARGE_FDRS)],
                    "where": "ondisk" if k % 4 == 1 else "module"})
    return out


def _large_direct(p, d):
    """one direct call on a large vector. Returns (class id or None, what, in_domain, non-trivial)"""
    scores, lab = large.direct_case(p)
    outcome = _call_module(scores, lab, p["fdr"]) if p["where"] == "module" else _call_ondisk(scores, lab, p["fdr"], d, p["k"])
    cid, what, in_dom = judge(scores, lab, p["fdr"], outcome)
    nontriv = False
    if in_dom and outcome[0] == "ok":
        acc = lab & (large.q_doubles(scores, lab) <= p["fdr"])
        nontriv = bool(acc.any() and (lab & ~acc).any())
    if cid:
        cid = ("ondisk:" if p["where"] == "ondisk" else "") + "large-%s-decoys:%s" % (_parity(p["nd"]), cid)
        what = "%d decoys, %d targets (%s): %s" % (p["nd"], p["nt"], p["where"], what)
    return cid, what, in_dom, nontriv


def _large_brew_configs(tier, seed):
    rng = np.random.default_rng(seed + 50005)
    n = 6 if tier == "quick" else 60
    kinds = ("decision", "sk-linsvc", "both", "sk-logreg")
    cfgs = []
    for k in range(n):
        folds = 2 + k % 2 if tier == "quick" else 2 + k % 5
        per_fold = int(rng.integers(5200, 8001)) if k % 3 else int(rng.integers(4960, 5041))   # every 3rd: around 5000
        kind = kinds[k % len(kinds)]
        cfgs.append({"part": "brew", "k": k, "big": True, "kind": kind, "n_spec": folds * per_fold + int(rng.integers(0, folds)),
                     "data_seed": int(rng.integers(1 << 30)), "rng": int(rng.integers(1 << 30)), "folds": folds,
                     "test_fdr": [0.05, 0.01, 0.1][k % 3], "fmt": "parquet" if k % 2 else "tsv",
                     "chunk": [None, 2, 3][(k // 2) % 3], "workers": 1 + (k % 5 == 4), "max_iter": 1 + (k % 4 == 3),
                     "scaler": "standard" if kind.startswith("sk-") else "as-is", "gain": [1.0, 0.01, 30.0][(k // 2) % 3],
                     "round": False})
    return cfgs


def _large_reset_configs(tier, seed):
    rng = np.random.default_rng(seed + 500050005)
    n = 8 if tier == "quick" else 60
    cfgs = []
    for k in range(n):
        fdr = [0.1, 0.05, 0.15, 0.2][k % 4]
        cfgs.append({"part": "reset", "k": k, "big": True, "mode": ("weak", "flip", "blind", "some")[k % 4],
                     "n_spec": int(rng.integers(5100, 9001)) if k % 3 else int(rng.integers(4960, 5041)),
                     "n_feat": 3 + k % 3, "data_seed": int(rng.integers(1 << 30)), "rng": int(rng.integers(1 << 30)),
                     "folds": 2 + k % 3, "test_fdr": fdr, "train_fdr": min(fdr, 0.1), "pre": "other" if k % 4 == 2 else "same",
                     "files": 1, "cut": 50, "fmt": "parquet" if k % 2 else "tsv", "chunk": [None, 2, 3][k % 3],
                     "workers": 1, "max_iter": 1, "scaler": "standard" if k % 5 == 3 else "as-is",
                     "gain": [1.0, 0.01, 30.0][k % 3], "round": False})
    return cfgs


def _fold_decoys(df, fitted, folds):
    """decoy count of every fold (rows a trained fold model was not trained on), [] if the folds are not recovered"""
    done = [m for m in fitted if getattr(m, "fit_done_", False)]
    if len(done) != folds:
        return []
    ids_all, lab = df["SpecId"].values, df["Label"].values
    return [int((lab[np.setdiff1d(ids_all, m.train_ids_)] == -1).sum()) for m in done]


def _large_brew(cfg, d):
    df, outcome, fitted = _est_case(cfg, d)
    vio, n_dom, _ = _judge_est(cfg, df, outcome, fitted)
    return [("large-folds:" + cid, what) for cid, what in vio], n_dom, _fold_decoys(df, fitted, cfg["folds"])


def _large_reset(cfg, d):
    case = _reset_case(cfg, d)
    vio, path, dom = _judge_reset(cfg, case)
    n_dec = [] if case is None else [int((df["Label"].values == -1).sum()) for df, _ in case[0]]
    return [("large-collection:" + cid, what) for cid, what in vio], path, dom, n_dec


def check_large_folds(tier, seed):
    direct = _large_direct_params(tier, seed)
    brews = _large_brew_configs(tier, seed)
    resets = _large_reset_configs(tier, seed)
    ck = Check(
        "large_folds", "mokapot.dataset.calibrate_scores, mokapot.dataset.OnDiskPsmDataset.calibrate_scores (direct calls), "
        "mokapot.brew.brew (per fold and reset path) on folds / collections with thousands of decoys",
        "direct calls: %d score vectors (seed %d; every 4th through the on-disk method on a Parquet/TSV file, the others "
        "through the module-level function) with a decoy count from: the round numbers and powers of two %s, 2^p -1 / +1 "
        "for p = 10..15, %d seeded-random counts in 1000..40000 taken even and odd in turn%s; targets 0.5x / 1x / 2x the "
        "decoys +-50 (45 %% of them shifted by 3 sd), scores continuous / rounded to 2 decimals (ties, also at the median) "
        "/ shifted by -50 / on scale 0.01, eval_fdr in %s, desc=True. brew: %d runs on loop-free on-disk tables (two PSMs "
        "per spectrum, each PSM a decoy with probability 1/2) of folds x 5200..8000 spectra (every 3rd run: folds x "
        "4960..5040, folds just below and above 5000 decoys), folds 2..%d, estimators decision / both / sklearn LinearSVC "
        "/ LogisticRegression (sklearn: StandardScaler), test_fdr in {0.05, 0.01, 0.1}, predictions in 1..3 row chunks. "
        "reset path: %d runs of check reset_path's history (one pre-trained model whose re-training degrades by mode weak / "
        "flip / blind / some) on ONE loop-free table of 5100..9000 (every 3rd: 4960..5040) spectra, folds 2..4"
        % (len(direct), seed, list(large.ROUND), 16 if tier == "quick" else 400,
           ", and 65536" if tier == "quick" else ", and 50000, 65535, 65536, 65537, 99999, 100000, 100001, 131072",
           list(LARGE_FDRS), len(brews), 3 if tier == "quick" else 6, len(resets)),
        "same oracle as the other checks: t = lowest score among the targets with exact q <= eval_fdr (the doubles of the exact "
        "rational q-values, obtained from integer counts after ONE sort for vectors of %d rows or more - checked equal "
        "to the C01 oracle on small vectors), d = the decoy median (middle element, for an even count the mean of the two "
        "middle elements), expected (s - t)/(t - d): 0 at t, -1 at d, strictly increasing; direct-call vectors are "
        "re-created from their parameters (decoys, targets, generator seed, mode) in a replay; brew runs are judged per fold as in "
        "per_fold_estimators, reset runs over the whole collection as in reset_path; case ids carry 'large-even-decoys' / "
        "'large-odd-decoys' (direct calls), 'large-folds' (brew) or 'large-collection' (reset path); non-trivial = in the "
        "domain (t > d) with some but not all targets accepted (direct), all folds in the domain (brew), a reset-path run "
        "in the domain" % large.LARGE)
    # the one-sort q-values are the C01 oracle's doubles (self-test on small tie-heavy vectors)
    rng = np.random.default_rng(seed + 50)
    for k in range(40):
        s_, l_, _ = _gen_case(rng, k)
        if not np.array_equal(large.q_doubles(s_, l_), np.array([float(x) for x in oracle_q_fast(s_, l_, True)])):
            raise AssertionError("harness bug: one-sort q-values differ from the C01 oracle")
    seen = set()
    st = collections.Counter()
    found = collections.OrderedDict((part, []) for part in ("module", "ondisk", "brew", "reset"))

    def report(cid, what, inp):
        # one record per class; for brew runs the estimator kind stays in the id but does not make a new class
        key = re.sub(r"estimator-[a-z0-9-]+:", "", cid)
        if key not in seen:
            seen.add(key)
            found[inp["where"] if inp["part"] == "direct" else inp["part"]].append((cid, what, inp))

    with scratch("c11f_") as d:
        for p in direct:
            cid, what, in_dom, nontriv = _large_direct(p, d)
            ck.case(p, nontrivial=nontriv)
            st["direct_%s_%s" % (_parity(p["nd"]), "5000+" if p["nd"] >= 5000 else "below")] += bool(in_dom)
            if cid:
                report(cid, what, p)
        for cfg in brews:
            vio, n_dom, n_dec = _large_brew(cfg, d)
            ck.case(cfg, nontrivial=n_dom == cfg["folds"] and not vio)
            st["brew_folds_in_domain"] += n_dom
            for c in n_dec:
                st["brew_fold_%s_%s" % (_parity(c), "5000+" if c >= 5000 else "below")] += 1
            for cid, what in vio:
                report(cid, what, cfg)
        for cfg in resets:
            vio, path, dom, n_dec = _large_reset(cfg, d)
            ck.case(cfg, nontrivial=bool(dom) and path.startswith("reset") and not vio)
            st["reset_" + path] += 1
            if path.startswith("reset") and dom:
                for c in n_dec:
                    st["reset_coll_%s_%s" % (_parity(c), "5000+" if c >= 5000 else "below")] += 1
            for cid, what in vio:
                report(cid, what, cfg)
    # Check keeps the first five records: take them from the four parts in turn
    while any(found.values()):
        for part in found:
            if found[part]:
                ck.violation(*found[part].pop(0))
    ck.rule += "; direct calls in the domain with >= 5000 decoys: %d even / %d odd counts, below 5000: %d even / %d odd; " \
               "brew folds: %d in the domain, by decoy count >= 5000: %d even / %d odd, below: %d even / %d odd; reset-path " \
               "runs: %d (every fold worse) + %d (some folds worse), %d re-trained per fold, collections judged with >= 5000 " \
               "decoys: %d even / %d odd, below: %d even / %d odd" \
               % (st["direct_even_5000+"], st["direct_odd_5000+"], st["direct_even_below"], st["direct_odd_below"],
                  st["brew_folds_in_domain"], st["brew_fold_even_5000+"], st["brew_fold_odd_5000+"],
                  st["brew_fold_even_below"], st["brew_fold_odd_below"], st["reset_reset-all"], st["reset_reset-some"],
                  st["reset_retrained"], st["reset_coll_even_5000+"], st["reset_coll_odd_5000+"],
                  st["reset_coll_even_below"], st["reset_coll_odd_below"])
    return _freeze(ck)


# ----------------------------------------------------------------------------------------------------------
def REPLAY(check_name, violation):
    inp = violation["input"]
    if isinstance(inp, str):
        inp = json.loads(inp)
    if check_name == "calibrate":
        scores = np.array(inp["scores"], dtype=float)
        lab = np.array(inp["targets"], dtype=bool)
        with scratch("c11r_") as d:
            outcome = _call_module(scores, lab, inp["eval_fdr"]) if inp.get("where", "module") == "module" \
                else _call_ondisk(scores, lab, inp["eval_fdr"], d, 1)
        cid, what, _ = judge(scores, lab, inp["eval_fdr"], outcome)
        return {"violated": cid is not None, "case": cid, "detail": what}
    if check_name == "per_fold":
        with scratch("c11r_") as d:
            df, outcome, folds = _brew_case(inp, d)
            vio, _ = _judge_brew(inp, df, outcome, folds)
        return {"violated": bool(vio), "detail": vio}
    if check_name == "per_fold_chunks":
        with scratch("c11r_") as d:
            df, chunk, outcome, fitted = _chunk_case(inp, d)
            vio, _, cls = _judge_chunks(inp, df, chunk, outcome, fitted)
        return {"violated": bool(vio), "detail": vio, "chunking": cls}
    if check_name == "per_fold_estimators":
        with scratch("c11r_") as d:
            df, outcome, fitted = _est_case(inp, d)
            vio, _, has_dec = _judge_est(inp, df, outcome, fitted)
        return {"violated": bool(vio), "detail": vio, "has_decision_function": has_dec}
    if check_name == "reset_path":
        with scratch("c11r_") as d:
            vio, path, _ = _judge_reset(inp, _reset_case(inp, d))
        return {"violated": bool(vio), "detail": vio, "path": path}
    if check_name == "large_folds":
        with scratch("c11r_") as d:
            if inp["part"] == "direct":
                cid, what, _, _ = _large_direct(inp, d)
                return {"violated": cid is not None, "case": cid, "detail": what}
            if inp["part"] == "brew":
                vio, _, n_dec = _large_brew(inp, d)
                return {"violated": bool(vio), "detail": vio, "fold_decoys": n_dec}
            vio, path, _, n_dec = _large_reset(inp, d)
            return {"violated": bool(vio), "detail": vio, "path": path, "collection_decoys": n_dec}
    return {"violated": None, "note": "no replay for %s" % check_name}


class _Finished:
    """the result of a check that ran in a worker process"""

    def __init__(self, res):
        self.res = res
        self.violations = res["violations"]

    def result(self):
        return self.res


def _run_one(job):
    name, tier, seed = job
    np.random.seed(seed)
    return globals()[name](tier, seed).result()


def _run_checks(names, tier, seed, workers=4):
    """The checks are independent (each seeds its own generators): run them in forked worker processes, longest
    first, and report them in the fixed order of CHECK_ORDER."""
    import multiprocessing as mp
    importlib.import_module("mokapot.brew")                   # imported once, before the fork
    with mp.get_context("fork").Pool(workers) as pool:
        res = pool.map(_run_one, [(n, tier, seed) for n in names], chunksize=1)
    by_name = dict(zip(names, res))
    return [_Finished(by_name[n]) for n in CHECK_ORDER]


CHECK_ORDER = ("check_calibrate", "check_per_fold", "check_per_fold_chunks", "check_per_fold_estimators",
               "check_reset_path", "check_large_folds")


if __name__ == "__main__":
    a = args()
    np.random.seed(a.seed)
    emit(_run_checks(["check_per_fold_chunks", "check_per_fold_estimators", "check_large_folds", "check_calibrate",
                      "check_per_fold", "check_reset_path"], a.tier, a.seed),
         ["accepted targets are decided by the exact rational q-values of the C01 oracle, rounded to the nearest double "
          "(q <= eval_fdr); a mismatch "
          "explained by tdc's float32 rounding at the threshold gets a case id ending in '(C01)'",
          "the ordering and anchor claims are checked only where the lowest accepted target lies above the decoy "
          "median (t > d), the property's stated domain; for t <= d only the RuntimeError-iff clause is checked",
          "a fold is the set of rows a fold model was asked to score (recorded in Model.predict); brew runs in which "
          "the best-feature fallback replaces the model scores are counted but not judged (C07)",
          "per_fold_chunks: a fold is the set of rows its fold model was NOT trained on (training rows captured in "
          "Model.fit) and the fold's raw output is recomputed from the fitted estimator, so rows scored by another "
          "fold's model or calibrated with another fold show up; the prediction chunk size is set by monkey-patching "
          "mokapot.brew.CHUNK_SIZE_ROWS_PREDICTION; runs whose TRAINING stops with RuntimeError (table too small for "
          "train_fdr) are counted, not judged; one file per run (several files are not covered)",
          "per_fold_estimators: the model output of an estimator is its decision function when it has one (also when it "
          "offers predict_proba as well), else its positive-class probability; the anchor and RuntimeError clauses are "
          "demanded only of estimators exposing a decision function (the statement's quantifier); for predict_proba-only "
          "estimators only 'positive-slope affine image of the model output inside each fold' is checked (the real code "
          "returns their probabilities as they are)",
          "reset_path: the reset condition is observed in Model.fit of the fold copies (RuntimeError 'Model performs worse "
          "after training.' in at least one fold, single trained Model passed); the original model's output is computed "
          "from its estimator before brew runs; the degradation of the re-trained estimator is driven by a `stage` "
          "attribute the harness sets after pre-training; runs taken over by the best-feature fallback (C07) or whose "
          "training stops with another error are counted, not judged; lists of trained models are not covered here; "
          "in the lower-is-better group the direction pre-training selected for the best feature (Model.best_feat, "
          "Model.desc) is read off the pre-trained model only to COUNT how many runs reach that history, the expected "
          "scores do not depend on it",
          "large_folds: the decoy median is the textbook one (for an even count the mean of the two middle decoy scores); "
          "vectors of %d rows or more take their exact q-values from integer counts after one sort instead of the "
          "quadratic C01 oracle (same doubles, self-tested on small vectors in every run); the direct calls pass "
          "synthetic score vectors (no model), the brew and reset runs reuse the fold recovery of per_fold_estimators / "
          "reset_path (training rows captured in Model.fit, model output recomputed from the fitted estimator) on tables "
          "built without a Python loop; whether a fold ends up with an even or odd number of decoys is left to brew's "
          "split and only counted; the brew folds hold about 5000..8000 decoys and the reset-path collections at most "
          "about 9000, larger decoy sets are reached by the direct calls only (up to 65536 decoys quick / 131072 "
          "thorough); millions of decoys are not covered" % large.LARGE,
          "comparison tolerance %g relative; desc=True only" % TOL])
